#!/bin/sh
# usage: intake_seeds.sh <round dir name, e.g. r4> <letters, e.g. "G H"> <ids...>
# For seeds written by sub-agents under /tmp/seed/<id>/<round>/<letter>: confirm each in a scratch worktree (bin/confirm_seed.sh),
# store it as seeded/<id>-<letter> (patch.diff, demo.py, meta.json with the confirmation), remove the agent's worktree /tmp/wt/<id>,
# then run the matrix rows.
cd "$(dirname "$0")/.."
R="$1"; L="$2"; shift; shift
ROWS=""
for id in "$@"; do
  for x in $L; do
    d=/tmp/seed/$id/$R/$x
    [ -f $d/patch.diff ] || { echo "missing $d"; continue; }
    bin/confirm_seed.sh $d $d/confirm.json >/dev/null 2>&1
    echo "$id-$x $(cut -c1-40,100-260 $d/confirm.json)"
    dd=seeded/$id-$x; mkdir -p $dd; cp $d/patch.diff $d/demo.py $dd/
    python3 - "$d" "$dd" "$R" <<'PY'
import json, sys
d, dd, r = sys.argv[1:4]
m = json.load(open(d + '/meta.json'))
m["confirmed_by_me"] = {"how": "bin/confirm_seed.sh in a fresh scratch worktree of /repo (removed afterwards): demo on unchanged tree, git apply patch.diff, full pytest suite (minus the always-failing offline test_mitmproxy_works), demo again", "result": json.load(open(d + '/confirm.json'))}
m["origin"] = "written by an independent sub-agent that saw only the property text and its own scratch worktree (round %s)" % r
json.dump(m, open(dd + '/meta.json', 'w'), indent=1)
PY
    ROWS="$ROWS $id-$x"
  done
  git -C /repo worktree remove --force /tmp/wt/$id 2>/dev/null
done
bin/seed_matrix.sh $ROWS | tail -n $(echo $ROWS | wc -w)
