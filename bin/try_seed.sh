#!/bin/sh
# usage: try_seed.sh <patch.diff> <Cnn> [tier] [extra vcheck args] -- apply a seeded change in a scratch worktree of /repo (never in
# /repo itself), run the check against it via VERIF_REPO, remove the worktree
P="$1"; ID="$2"; TIER="${3:-quick}"; shift; shift; [ $# -gt 0 ] && shift
W=$(mktemp -d /tmp/ts.XXXXXX); rmdir "$W"
git -C /repo worktree add -q --detach "$W" HEAD || exit 9
cd "$W"
if ! git apply --check "$P" 2>/dev/null; then
  if ! git apply --3way "$P" >/dev/null 2>&1; then echo "PATCH-DOES-NOT-APPLY $P"; cd /; git -C /repo worktree remove --force "$W"; exit 8; fi
  git reset -q
else
  git apply "$P"
fi
cd /verif && VERIF_OUT="$W.out" VERIF_REPO="$W" ./vcheck "$ID" --tier "$TIER" "$@" 2>&1 | grep -E "^\[C|^\[X|VIOLATION|KNOWN|UNDECIDED|STALE|CHECKER" | cut -c1-260
cd /; git -C /repo worktree remove --force "$W"; rm -rf "$W.out"
