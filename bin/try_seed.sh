#!/bin/sh
# usage: try_seed.sh <patch.diff> <Cnn> [tier]  -- apply a seeded change to /repo, run the check, undo
P="$1"; ID="$2"; TIER="${3:-quick}"
cd /repo || exit 9
if ! git apply --check "$P" 2>/dev/null; then
  if ! git apply --3way "$P" >/dev/null 2>&1; then echo "PATCH-DOES-NOT-APPLY $P"; git checkout HEAD -- . ; exit 8; fi
  git reset -q
else
  git apply "$P"
fi
cd /verif && ./vcheck "$ID" --tier "$TIER" 2>&1 | grep -E "^\[C|VIOLATION|KNOWN|UNDECIDED|STALE|CHECKER" | cut -c1-260
echo "exit=$?"
cd /repo && git checkout HEAD -- . && git status --short | head -3
