#!/bin/sh
# run every seeded change against its property's quick check (scratch worktrees; /repo untouched); writes seeded/MATRIX.md
cd "$(dirname "$0")/.."
OUT=seeded/MATRIX.md
IDS="${*:-$(ls seeded | grep -E '^C[0-9]+-[A-H]$')}"
[ -f "$OUT" ] || printf '| seeded change | property check | caught by P (deductive obligation) | caught by B (bounded tier) | what it needs |\n|---|---|---|---|---|\n' > "$OUT"
for d in $IDS; do
  id=${d%-*}
  [ -f contracts/$id.py ] || continue
  R=$(bin/try_seed.sh /verif/seeded/$d/patch.diff $id quick 2>&1)
  P=$(echo "$R" | grep VIOLATION | grep -v "/bounded_" | wc -l)
  B=$(echo "$R" | grep VIOLATION | grep "/bounded_" | wc -l)
  OTHER=$(echo "$R" | grep -E "UNDECIDED|STALE|CHECKER|PATCH-DOES-NOT" | head -1 | cut -c1-60)
  NEEDS=$(python3 -c "import json,sys;print(json.load(open('seeded/$d/meta.json')).get('needs_to_manifest','')[:140].replace('|','/').replace(chr(10),' ').replace(chr(39),''))")
  grep -v "^| $d " "$OUT" > "$OUT.tmp"; mv "$OUT.tmp" "$OUT"
  echo "| $d | $id | $([ $P -gt 0 ] && echo yes || echo no) | $([ $B -gt 0 ] && echo yes || echo no)${OTHER:+ ($OTHER)} | $NEEDS |" >> "$OUT"
  echo "$d P=$P B=$B $OTHER"
done
