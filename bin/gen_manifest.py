#!/usr/bin/env python3
"""Regenerate MANIFEST.json from contracts/*.py META + the table below."""
import importlib, json, os, sys
ROOT = os.path.dirname(os.path.dirname(os.path.abspath(__file__)))
sys.path.insert(0, ROOT)
props = [json.loads(l) for l in open(os.path.join(ROOT, "properties.jsonl"))]
NA_REASONS = {}
checks, na = [], []
for p in props:
    pid = p["id"]
    path = os.path.join(ROOT, "contracts", f"{pid}.py")
    if not os.path.exists(path):
        na.append({"property_id": pid, "reason": NA_REASONS.get(pid, "no check built yet (work in progress; see DESIGN.md section 7 for the plan)")})
        continue
    src = open(path).read()
    g = {}
    # META is a literal-ish dict at module level; import lazily without executing heavy deps
    import ast
    tree = ast.parse(src)
    meta = {}
    for n in tree.body:
        if isinstance(n, ast.Assign) and any(isinstance(t, ast.Name) and t.id == "META" for t in n.targets):
            meta = eval(compile(ast.Expression(n.value), path, "eval"), {})
    level = meta.get("level", "other")
    checks.append({
        "property_id": pid,
        "quick_cmd": f"./vcheck {pid} --tier quick",
        "thorough_cmd": f"./vcheck {pid} --tier thorough",
        "evidence_file": f"evidence/{pid}.json",
        "replay_cmd_template": f"./vcheck {pid} --replay {{path}}",
        "engine": "pyvc",
        "level_claimed": {"category": level, "text": meta.get("level_text", meta.get("explanation", ""))[:1500],
                          "design_ref": f"DESIGN.md section 7 ({pid})"},
        "level_note": "; ".join(meta.get("trusted_base", []))[:1500] or "see evidence trusted_base",
        "technique": meta.get("technique", "contract-based deductive verification: VCs generated from the Python AST of the real functions under sidecar contracts, discharged by z3/cvc5; bounded run-time contract checking as labelled stand-in"),
    })
man = {
    "version": 1,
    "setup_cmd": "./bin/setup.sh",
    "hooks": {"guard": "HIPPOLYZER_VERIF", "enable": "no source hooks: contracts are sidecar files under /verif/contracts keyed by module:qualname; checks read /repo's working tree directly",
              "baseline_off_cmd": "cd /repo && /venv/bin/python -m pytest -ra -q -p no:cacheprovider --timeout=900 --continue-on-collection-errors",
              "source_commits": [], "add_only": True},
    "engines": [{"name": "pyvc", "path": "pyvc/", "serves_properties": [c["property_id"] for c in checks],
                 "kind_free_text": "self-built VC generator: Python ast of the functions in /repo + sidecar contracts -> SMT (z3 5.1.0, cvc5 1.0.3 fallback); counter-models replayed on the real code; bounded tier evaluates the same contract text natively"}],
    "checks": checks,
    "not_applicable": na,
    "notes": "Exit codes of ./vcheck: 0 held, 1 violation (VIOLATION line), 2 undecided/stale contract, 3 checker error. Fix commits in /repo are listed in known_findings.txt as 'fixed:' lines.",
}
json.dump(man, open(os.path.join(ROOT, "MANIFEST.json"), "w"), indent=1)
print(f"claimed {len(checks)}, not_applicable {len(na)}")
