#!/bin/sh
# usage: confirm_seed.sh <seed dir with patch.diff demo.py> <out json> [commit]
# In a scratch worktree of /repo: (1) demo passes unchanged, (2) patch applies, tests same as baseline, (3) demo fails with patch.
SD="$1"; OUT="$2"; REV="${3:-HEAD}"
W=$(mktemp -d /tmp/cs.XXXXXX); rmdir "$W"
git -C /repo worktree add -q --detach "$W" "$REV" || exit 9
cd "$W"
PYTHONPATH="$W" timeout 600 /venv/bin/python "$SD/demo.py" >/dev/null 2>&1; D0=$?
git apply "$SD/patch.diff" 2>/dev/null; AP=$?
if [ $AP -ne 0 ]; then git apply --3way "$SD/patch.diff" >/dev/null 2>&1; AP=$?; fi
PYTHONPATH="$W" timeout 900 /venv/bin/python -m pytest -q -p no:cacheprovider --timeout=900 --deselect tests/proxy/integration/test_http.py::TestMITMProxy::test_mitmproxy_works 2>&1 | tail -3 | tr "\n" " " > "$W/.t"; 
T=$(cat "$W/.t")
PYTHONPATH="$W" timeout 600 /venv/bin/python "$SD/demo.py" >/dev/null 2>&1; D1=$?
printf '{"rev":"%s","demo_unchanged_exit":%s,"patch_applies":%s,"tests_with_patch":"%s","demo_with_patch_exit":%s}\n' "$(git -C /repo rev-parse --short $REV)" "$D0" "$AP" "$T" "$D1" > "$OUT"
cd /; git -C /repo worktree remove --force "$W"
cat "$OUT"
