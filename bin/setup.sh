#!/bin/sh
# Build /verif/.venv offline: python 3.12 venv overlaying /venv's site-packages (repo deps) plus
# z3-solver, cvc5, jsonschema from the local wheelhouse. Idempotent.
set -e
cd "$(dirname "$0")/.."
if [ ! -x .venv/bin/python ] || ! .venv/bin/python -c "import z3, jsonschema, hippolyzer" 2>/dev/null; then
  rm -rf .venv
  /venv/bin/python -m venv .venv
  SP=$(.venv/bin/python -c "import site; print(site.getsitepackages()[0])")
  echo "import site; site.addsitedir('/venv/lib/python3.12/site-packages')" > "$SP/_repo_deps.pth"
  PIP_NO_INDEX=1 .venv/bin/python -m pip install -q --no-index --find-links /opt/veriftools/wheels \
      z3-solver jsonschema icontract deal hypothesis 2>&1 | tail -3 || true
  PIP_NO_INDEX=1 .venv/bin/python -m pip install -q --no-index --find-links /opt/veriftools/wheels cvc5 2>&1 | tail -1 || true
  PIP_NO_INDEX=1 .venv/bin/python -m pip install -q --no-index --find-links /opt/veriftools/wheels crosshair-tool 2>&1 | tail -1 || true
fi
.venv/bin/python -c "import z3, jsonschema, hippolyzer; print('setup ok', z3.get_version_string())"
