#!/bin/sh
# run every claimed check (quick tier by default) on /repo's current tree, sequentially; summary on stdout
cd "$(dirname "$0")/.."
TIER="${1:-quick}"
for id in $(python3 -c "import json;print(' '.join(c['property_id'] for c in json.load(open('MANIFEST.json'))['checks']))"); do
  S=$(date +%s)
  OUT=$(./vcheck "$id" --tier "$TIER" 2>&1); RC=$?
  E=$(( $(date +%s) - S ))
  echo "$id rc=$RC ${E}s $(echo "$OUT" | grep -E '^\[C' | cut -c1-120)"
  echo "$OUT" | grep -E "VIOLATION|CHECKER-ERROR|UNDECIDED|STALE" | cut -c1-200
done
