"""FP/BV mode of the symbolic executor, used for the quantised-float obligations (QF_FPBV).

Python ints are modelled as 64-bit two's-complement vectors (all values in these functions are bounded by 2^17 in
magnitude: raw values of 8/16-bit wire types, their offsets by prim_min and int(round(x)) of floats clamped to the declared
range - the assumption is listed in the evidence); Python floats are IEEE-754 binary64 with round-to-nearest-even.
int <-> float conversions are fp.to_fp / fp.to_sbv, so the whole obligation stays in one theory.
"""
from __future__ import annotations
import ast
import z3

from .engine import Engine, PyRaise
from .values import V, mk_bool, mk_float, FP64, RNE, OutOfReach, NONE, fresh_name

W = 64


def bvval(x):
    return z3.BitVecVal(int(x), W)


class FPEngine(Engine):
    def mk_i(self, t):
        return V("int", t)

    def ev_Constant(self, n):
        v = n.value
        if isinstance(v, bool):
            return mk_bool(v)
        if isinstance(v, int):
            return V("int", bvval(v))
        return super().ev_Constant(n)

    def pyval(self, x):
        if isinstance(x, bool):
            return mk_bool(x)
        if isinstance(x, int):
            return V("int", bvval(x))
        return super().pyval(x)

    def as_int(self, v):
        if v.k == "int":
            return v.t
        if v.k == "bool":
            return z3.If(v.t, bvval(1), bvval(0))
        raise OutOfReach(f"int expected, got {v.k}")

    def to_float(self, v):
        if v.k == "float":
            return v.t
        if v.k == "int":
            return z3.fpSignedToFP(RNE, v.t, FP64)
        if v.k == "bool":
            return z3.If(v.t, z3.FPVal(1.0, FP64), z3.FPVal(0.0, FP64))
        raise OutOfReach(f"to_float {v.k}")

    def truth(self, v):
        if v.k == "int":
            return v.t != bvval(0)
        return super().truth(v)

    def veq(self, a, b):
        if a.k == "int" and b.k == "int":
            return a.t == b.t
        if {a.k, b.k} == {"int", "float"}:
            return z3.fpEQ(self.to_float(a), self.to_float(b))
        return super().veq(a, b)

    def binop(self, op, a, b):
        if a.k == "py" and isinstance(a.t, (int, float)) and not isinstance(a.t, bool):
            a = self.pyval(a.t)
        if b.k == "py" and isinstance(b.t, (int, float)) and not isinstance(b.t, bool):
            b = self.pyval(b.t)
        if a.k in ("int", "bool") and b.k in ("int", "bool"):
            x, y = self.as_int(a), self.as_int(b)
            if isinstance(op, ast.Add):
                return V("int", x + y)
            if isinstance(op, ast.Sub):
                return V("int", x - y)
            if isinstance(op, ast.Mult):
                return V("int", x * y)
            if isinstance(op, ast.LShift):
                return V("int", x << y)
            if isinstance(op, ast.RShift):
                return V("int", x >> y)          # arithmetic shift: Python's >> on ints
            if isinstance(op, ast.BitOr):
                return V("int", x | y)
            if isinstance(op, ast.BitAnd):
                return V("int", x & y)
            if isinstance(op, ast.BitXor):
                return V("int", x ^ y)
            if isinstance(op, ast.Pow):
                xs, ys = z3.simplify(x), z3.simplify(y)
                if z3.is_bv_value(xs) and z3.is_bv_value(ys) and ys.as_signed_long() >= 0:
                    return V("int", bvval(xs.as_signed_long() ** ys.as_signed_long()))
                raise OutOfReach("symbolic **")
            if isinstance(op, ast.Div):
                return mk_float(z3.fpDiv(RNE, self.to_float(a), self.to_float(b)))
            raise OutOfReach(f"bv-int op {type(op).__name__}")
        return super().binop(op, a, b)

    def compare(self, op, a, b):
        if a.k in ("int", "bool") and b.k in ("int", "bool") and isinstance(op, (ast.Lt, ast.LtE, ast.Gt, ast.GtE)):
            x, y = self.as_int(a), self.as_int(b)
            return {ast.Lt: lambda: x < y, ast.LtE: lambda: x <= y, ast.Gt: lambda: x > y, ast.GtE: lambda: x >= y}[type(op)]()
        return super().compare(op, a, b)

    def builtin_call(self, nm, n):
        if nm in ("int", "round"):
            v = self.ev(n.args[0])
            if v.k == "float":
                mode = z3.RTZ() if nm == "int" else RNE
                # Python's round() on a float is round-half-even, int() truncates; both exact for finite values
                return V("int", z3.fpToSBV(mode, z3.fpRoundToIntegral(mode, v.t), z3.BitVecSort(W)))
            if v.k in ("int", "bool"):
                return V("int", self.as_int(v))
            raise OutOfReach(f"{nm}({v.k})")
        if nm == "float":
            return mk_float(self.to_float(self.ev(n.args[0])))
        if nm in ("min", "max"):
            vals = [self.ev(a) for a in n.args]
            if all(v.k in ("int", "bool") for v in vals):
                cur = self.as_int(vals[0])
                for v in vals[1:]:
                    x = self.as_int(v)
                    cur = z3.If(x < cur, x, cur) if nm == "min" else z3.If(x > cur, x, cur)
                return V("int", cur)
        return super().builtin_call(nm, n)

    def ev_Call(self, n):
        d = self.dotted(n.func)
        if d == "math.fabs":
            return mk_float(z3.fpAbs(self.to_float(self.ev(n.args[0]))))
        if d == "math.copysign":
            x = self.to_float(self.ev(n.args[0]))
            y = self.to_float(self.ev(n.args[1]))
            return mk_float(z3.If(z3.fpIsNegative(y), z3.fpNeg(z3.fpAbs(x)), z3.fpAbs(x)))
        if d == "math.fmod":
            x = self.to_float(self.ev(n.args[0]))
            y = self.to_float(self.ev(n.args[1]))
            # C fmod, modelled on the branch |x| <= |y| only (a proof obligation at the call site): the result is x for
            # |x| < |y| and a zero with x's sign for |x| == |y|
            ok = z3.And(z3.fpLEQ(z3.fpAbs(x), z3.fpAbs(y)), z3.Not(z3.fpIsZero(y)), z3.Not(z3.fpIsNaN(x)))
            self.path_label.append("fmod")
            self.emit("call-pre", ok, clause="math.fmod modelled for |x| <= |y| only")
            self.path_label.pop()
            self.assume(ok)
            zero = z3.If(z3.fpIsNegative(x), z3.FPVal(-0.0, FP64), z3.FPVal(0.0, FP64))
            return mk_float(z3.If(z3.fpLT(z3.fpAbs(x), z3.fpAbs(y)), x, zero))
        return super().ev_Call(n)

    def ev_UnaryOp(self, n):
        v = self.ev(n.operand)
        if isinstance(n.op, ast.Invert) and v.k == "int":
            return V("int", ~v.t)
        if isinstance(n.op, ast.USub) and v.k == "int":
            return V("int", -v.t)
        if isinstance(n.op, ast.USub) and v.k == "float":
            return mk_float(z3.fpNeg(v.t))
        if isinstance(n.op, ast.Not):
            return mk_bool(z3.Not(self.truth(v)))
        return super().ev_UnaryOp(n)

    def ext_result(self, summ, d, args=None):
        r = summ.get("returns")
        if r == "Int":
            return V("int", z3.BitVec(fresh_name("ext_" + d.replace(".", "_")), W))
        return super().ext_result(summ, d, args)
