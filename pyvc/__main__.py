import argparse
import os
import sys

ROOT = os.path.dirname(os.path.dirname(os.path.abspath(__file__)))
sys.path.insert(0, ROOT)
# the code under verification is /repo's working tree, never an installed copy
sys.path.insert(0, os.environ.get("VERIF_REPO", "/repo"))
os.environ.setdefault("HIPPOLYZER_VERIF", "1")
import logging
import warnings
warnings.filterwarnings("ignore")
logging.disable(logging.CRITICAL)


def main():
    ap = argparse.ArgumentParser()
    ap.add_argument("pid")
    ap.add_argument("--tier", default=os.environ.get("VERIF_TIER", "quick"), choices=["quick", "thorough"])
    ap.add_argument("--replay")
    ap.add_argument("--only", choices=["P", "B"])
    a = ap.parse_args()
    seed = int(os.environ.get("VERIF_SEED", "0") or 0)
    from pyvc import runner
    if a.replay:
        sys.exit(runner.replay_file(a.pid, a.replay))
    sys.exit(runner.run_property(a.pid, a.tier, seed, a.only))


main()
