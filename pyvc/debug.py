"""debug helper: python -m pyvc.debug Cnn <substr> [timeout] -- solve matching VCs one by one, print timing"""
import os, sys, time
ROOT = os.path.dirname(os.path.dirname(os.path.abspath(__file__)))
sys.path.insert(0, ROOT); sys.path.insert(0, "/repo")
import logging, warnings
warnings.filterwarnings("ignore"); logging.disable(logging.CRITICAL)
import z3
from pyvc import runner, solve

def main():
    pid, sub = sys.argv[1], sys.argv[2]
    to = float(sys.argv[3]) if len(sys.argv) > 3 else 10
    run = runner.PropertyRun(pid, "quick", 0)
    run.gen_vcs()
    print("errors:", run.checker_errors, run.out_of_reach, run.stale)
    for v in run.vcs:
        if sub not in v.name or (v.expect == "sat" and not os.environ.get("PROBES")):
            continue
        neg = z3.Not(v.goal) if v.expect == "unsat" else z3.BoolVal(True)
        smt = solve.vc_to_smt2(v.hyps, neg, run.vc_axioms[v.name])
        t0 = time.time()
        _, rr = solve.solve_one(v.name, smt, to, to, os.path.join(ROOT, '.scratch'))
        r = (rr['result'], rr['time_s'], rr['solver'])
        print(f"{r[0]:8s} {r[1]:.2f}s {r[2]} expect={v.expect} {v.name}   [{v.clause[:80]}]")
        if os.environ.get("DUMP"):
            open(os.path.join(ROOT, ".scratch", "dump.smt2"), "w").write(smt)
main()
