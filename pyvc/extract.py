"""Mechanical extraction of function bodies from /repo on every run.

extract(relpath, qualname) -> Extracted(node, source, sha256, lineno, end_lineno)

What extraction drops (and nothing else): decorators (recorded; only the ones that leave the body's meaning alone are accepted,
any other decorator makes the contract stale), annotations, docstrings.
Logging calls are dropped later by the executor (callee table), not here.
"""
from __future__ import annotations
import ast
import hashlib
import os
from dataclasses import dataclass, field
from typing import Optional, List

REPO = os.environ.get("VERIF_REPO", "/repo")


class StaleContract(Exception):
    """function / loop / variable named by a contract no longer exists in the source"""


@dataclass
class Extracted:
    relpath: str
    qualname: str
    node: ast.FunctionDef
    source: str
    sha256: str
    lineno: int
    end_lineno: int
    decorators: List[str] = field(default_factory=list)
    module_tree: Optional[ast.Module] = None


_cache = {}


def load_module(relpath: str):
    path = os.path.join(REPO, relpath)
    key = (path, os.path.getmtime(path), os.path.getsize(path))
    if key in _cache:
        return _cache[key]
    with open(path, "r", encoding="utf8") as f:
        src = f.read()
    tree = ast.parse(src, filename=path)
    _cache[key] = (src, tree)
    return src, tree


def find_def(tree: ast.AST, qualname: str):
    parts = qualname.split(".")
    cur = tree
    for p in parts:
        want_setter = p.endswith("@setter")
        p = p.split("@")[0]
        cands = [n for n in getattr(cur, "body", [])
                 if isinstance(n, (ast.FunctionDef, ast.AsyncFunctionDef, ast.ClassDef)) and n.name == p]
        if not cands:
            return None
        found = cands[-1]
        if len(cands) > 1:
            # a property getter and its setter share one name: the getter unless "<name>@setter" is asked for
            def is_setter(n):
                return any(isinstance(d, ast.Attribute) and d.attr == "setter" for d in getattr(n, "decorator_list", []))
            pick = [n for n in cands if is_setter(n) == want_setter]
            if pick:
                found = pick[-1]
        cur = found
    return cur


_PLAIN_DECORATORS = {"staticmethod", "classmethod", "property", "abc.abstractmethod", "abstractmethod", "contextlib.contextmanager",
                     "contextmanager", "functools.wraps", "typing.overload", "overload", "functools.cached_property", "cached_property",
                     "abc.abstractproperty", "dataclasses.dataclass"}


def extract(relpath: str, qualname: str) -> Extracted:
    try:
        src, tree = load_module(relpath)
    except (OSError, SyntaxError) as e:
        raise StaleContract(f"{relpath}: cannot load ({e})")
    node = find_def(tree, qualname)
    if node is None or not isinstance(node, (ast.FunctionDef, ast.AsyncFunctionDef)):
        raise StaleContract(f"{relpath}:{qualname} not found")
    seg = ast.get_source_segment(src, node) or ""
    decos = [ast.unparse(d) for d in node.decorator_list]
    # decorators are dropped, so only those that leave the body's meaning alone may be present: a wrapping decorator (a cache, a
    # retry, ...) makes the name denote something else than the body that is verified or inlined here
    for d in decos:
        base = d.split("(")[0]
        if base in _PLAIN_DECORATORS or base.endswith(".setter") or base.endswith(".getter"):
            continue
        raise StaleContract(f"{relpath}:{qualname} is wrapped by @{d}: its body is no longer what the name denotes (contract out of date)")
    return Extracted(relpath, qualname, node, seg, hashlib.sha256(seg.encode()).hexdigest(),
                     node.lineno, node.end_lineno, decos, tree)


def module_constant(relpath: str, name: str):
    """value of a module- or class-level literal constant (NAME = <literal>)"""
    src, tree = load_module(relpath)
    parts = name.split(".")
    cur = tree
    for p in parts[:-1]:
        cur = find_def(cur, p)
        if cur is None:
            raise StaleContract(f"{relpath}:{name}")
    for n in cur.body:
        if isinstance(n, ast.Assign) and any(isinstance(t, ast.Name) and t.id == parts[-1] for t in n.targets):
            return ast.literal_eval(n.value)
        if isinstance(n, ast.AnnAssign) and isinstance(n.target, ast.Name) and n.target.id == parts[-1]:
            return ast.literal_eval(n.value)
    raise StaleContract(f"{relpath}:{name}")
