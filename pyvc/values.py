"""Symbolic values and sorts for pyvc."""
from __future__ import annotations
import itertools
from dataclasses import dataclass
from typing import Any, Optional
import z3

IntSeq = z3.SeqSort(z3.IntSort())
FP64 = z3.Float64()
RNE = z3.RNE()

_counter = itertools.count()


def fresh_name(base: str) -> str:
    return f"{base}!{next(_counter)}"


def reset_names():
    global _counter
    _counter = itertools.count()


class OutOfReach(Exception):
    """construct outside the accepted subset: the function cannot be verified deductively"""


@dataclass(frozen=True)
class V:
    k: str            # int bool none bytes ilist float str obj tuple opt opaque py func excv dict
    t: Any = None
    cls: Optional[str] = None

    def __repr__(self):
        return f"V({self.k},{self.t if self.k not in ('tuple',) else [repr(x) for x in self.t]}{','+self.cls if self.cls else ''})"


NONE = V("none")


def mk_int(x):
    if isinstance(x, bool):
        x = int(x)
    if isinstance(x, int):
        return V("int", z3.IntVal(x))
    return V("int", x)


def mk_bool(x):
    if isinstance(x, bool):
        return V("bool", z3.BoolVal(x))
    return V("bool", x)


def mk_bytes(x):
    if isinstance(x, (bytes, bytearray)):
        if len(x) == 0:
            return V("bytes", z3.Empty(IntSeq))
        t = z3.Concat(*[z3.Unit(z3.IntVal(b)) for b in x]) if len(x) > 1 else z3.Unit(z3.IntVal(x[0]))
        return V("bytes", t)
    return V("bytes", x)


def mk_float(x):
    if isinstance(x, (int, float)):
        return V("float", z3.FPVal(float(x), FP64))
    return V("float", x)


def mk_str(x):
    if isinstance(x, str):
        return V("str", z3.StringVal(x))
    return V("str", x)


def mk_tuple(xs):
    return V("tuple", tuple(xs))


def mk_opt(isnone, inner: V):
    return V("opt", (isnone, inner))


_opaque_sorts = {}


def opaque_sort(name: str):
    if name not in _opaque_sorts:
        _opaque_sorts[name] = z3.DeclareSort("U_" + name)      # prefixed: List, Map, ... are reserved sort names in the solvers
    return _opaque_sorts[name]


# the append constructor of section 3.1 of DESIGN.md: uninterpreted, with the axiom snoc(s,b) = s ++ [b]
snoc = z3.Function("snoc", IntSeq, z3.IntSort(), IntSeq)


def snoc_axioms():
    s = z3.Const("s_ax", IntSeq)
    b = z3.Int("b_ax")
    return [z3.ForAll([s, b], snoc(s, b) == z3.Concat(s, z3.Unit(b)), patterns=[snoc(s, b)])]


def parse_sort(s: str):
    s = s.strip()
    if s.startswith("Opt[") and s.endswith("]"):
        return ("opt", parse_sort(s[4:-1]))
    if s.startswith("Tuple[") and s.endswith("]"):
        inner = _split_top(s[6:-1])
        return ("tuple", [parse_sort(x) for x in inner])
    if s.startswith("Obj:"):
        return ("obj", s[4:])
    if s.startswith("Opaque:"):
        return ("opaque", s[7:])
    if s.startswith("Py:"):
        return ("py", s[3:])
    if s.startswith("Raw:"):
        _, bits, sg = s.split(":")
        return ("raw", int(bits), sg == "s")
    m = {"Int": "int", "Bool": "bool", "Bytes": "bytes", "IntList": "ilist", "IntDeque": "ideque",
         "Float": "float", "Str": "str", "None": "none", "ByteArray": "bytes", "Dir": "dir"}
    if s in m:
        return (m[s],)
    raise ValueError(f"unknown sort {s!r}")


def _split_top(s):
    out, depth, cur = [], 0, ""
    for ch in s:
        if ch == "[":
            depth += 1
        if ch == "]":
            depth -= 1
        if ch == "," and depth == 0:
            out.append(cur)
            cur = ""
        else:
            cur += ch
    if cur.strip():
        out.append(cur)
    return out


def fresh_of_sort(sort, base: str, facts: list) -> V:
    """fresh symbolic value of a parsed sort; range/type facts appended to `facts`"""
    k = sort[0]
    if k == "int":
        return V("int", z3.Int(fresh_name(base)))
    if k == "bool":
        return V("bool", z3.Bool(fresh_name(base)))
    if k == "none":
        return NONE
    if k == "float":
        return V("float", z3.FP(fresh_name(base), FP64))
    if k == "str":
        return V("str", z3.String(fresh_name(base)))
    if k == "bytes":
        s = z3.Const(fresh_name(base), IntSeq)
        # element range 0..255 is instantiated at every access (loop element, subscript): a quantified fact over
        # seq.nth is rewritten by z3 into seq.nth_u patterns that neither solver instantiates reliably
        return V("bytes", s)
    if k in ("ilist", "ideque"):
        a = z3.Array(fresh_name(base + "_a"), z3.IntSort(), z3.IntSort())
        n = z3.Int(fresh_name(base + "_n"))
        facts.append(n >= 0)
        ml = None
        if k == "ideque":
            ml = z3.Int(fresh_name(base + "_maxlen"))
            facts.append(ml >= 1)
            facts.append(n <= ml)
        return V("ilist", (a, n, ml))
    if k == "opt":
        inner = fresh_of_sort(sort[1], base, facts)
        return mk_opt(z3.Bool(fresh_name(base + "_isnone")), inner)
    if k == "tuple":
        return mk_tuple([fresh_of_sort(x, f"{base}_{i}", facts) for i, x in enumerate(sort[1])])
    if k == "obj":
        return V("obj", fresh_name(base), sort[1])
    if k == "opaque":
        return V("opaque", z3.Const(fresh_name(base), opaque_sort(sort[1])), sort[1])
    if k == "dir":
        return V("dir", z3.Bool(fresh_name(base + "_is_out")))
    if k == "raw":
        bv = z3.BitVec(fresh_name(base), sort[1])
        return V("int", z3.SignExt(64 - sort[1], bv) if sort[2] else z3.ZeroExt(64 - sort[1], bv))
    raise ValueError(sort)
