"""pyvc symbolic executor: Python AST (as extracted from /repo) + sidecar contract -> verification conditions.

Path-wise forward symbolic execution by re-execution under a choice oracle. Loops are cut at the
head by the contract's invariant. Calls are resolved to (a) a contract (assert pre / havoc frame /
assume post - never the body), (b) the built-in model table, (c) an inline local closure or listed
helper, (d) a declared external summary, (e) the dropped-callee list (logging). Anything else raises
OutOfReach: the function is then not claimed as verified.
"""
from __future__ import annotations
import ast
import os
import re
import copy
from dataclasses import dataclass, field
from typing import Any, Dict, List, Optional, Tuple
import z3

from .values import (V, NONE, mk_int, mk_bool, mk_bytes, mk_float, mk_str, mk_tuple, mk_opt, IntSeq, FP64, RNE,
                     fresh_name, fresh_of_sort, parse_sort, OutOfReach, snoc, opaque_sort)
from .extract import StaleContract

DROPPED_CALLEE_PREFIXES = ("logging.", "LOG.", "logger.", "log.", "warnings.")
DROPPED_CALLEES = ("print",)
_PURE_BUILTINS = ("len", "int", "bool", "str", "repr", "bytes", "range", "reversed", "isinstance", "min", "max", "abs", "tuple", "sorted",
                  "enumerate", "zip", "iter", "callable", "getattr", "hasattr", "id", "type", "float", "round", "ord", "chr", "hash", "any", "all", "sum")
_LOG_METHODS = ("debug", "info", "warning", "warn", "error", "exception", "critical", "log", "fatal")


def is_dropped_callee(d) -> bool:
    """logging calls (and print): `LOG.warning(...)`, `logging.exception(...)`; a variable that merely happens to be called
    `logger` keeps its other methods (`logger.add_log_entry(...)` is a real call)"""
    if d is None:
        return False
    if d in DROPPED_CALLEES:
        return True
    if d.startswith(DROPPED_CALLEE_PREFIXES):
        return d.rsplit(".", 1)[-1] in _LOG_METHODS
    return False

EXC_PARENTS = {
    "Exception": "BaseException", "ValueError": "Exception", "KeyError": "LookupError", "IndexError": "LookupError",
    "LookupError": "Exception", "RuntimeError": "Exception", "TypeError": "Exception", "AssertionError": "Exception",
    "AttributeError": "Exception", "NotImplementedError": "RuntimeError", "UnicodeDecodeError": "ValueError",
    "struct.error": "Exception", "StopIteration": "Exception", "OverflowError": "ArithmeticError",
    "ArithmeticError": "Exception", "ZeroDivisionError": "ArithmeticError", "OSError": "Exception",
    "asyncio.CancelledError": "BaseException", "CancelledError": "BaseException", "TimeoutError": "Exception",
    "AnyException": "Exception",   # unknown subclass of Exception raised by a havocked callee
}


def _sum(xs):
    if not xs:
        return z3.IntVal(0)
    if len(xs) == 1:
        return xs[0]
    return z3.Sum(xs)


class PathAbort(Exception):
    pass


class _Break(Exception):
    pass


class _Continue(Exception):
    pass


class _Return(Exception):
    def __init__(self, v):
        self.v = v


class PyRaise(Exception):
    def __init__(self, exc: str, payload: Optional[V] = None):
        self.exc = exc
        self.payload = payload


@dataclass
class VC:
    name: str
    kind: str
    hyps: List[Any]
    goal: Any
    expect: str = "unsat"        # 'unsat' = proof obligation; 'sat' = reachability/canary
    fn: str = ""
    clause: str = ""
    path: str = ""
    inputs: Dict[str, Any] = field(default_factory=dict)   # name -> V, for concretisation


class Chooser:
    def __init__(self, prefix):
        self.prefix = list(prefix)
        self.trace: List[Tuple[int, int, str]] = []

    def choose(self, label: str, n: int) -> int:
        i = len(self.trace)
        c = self.prefix[i] if i < len(self.prefix) else 0
        self.trace.append((c, n, label))
        return c


def next_prefix(trace):
    t = list(trace)
    while t:
        c, n, lab = t[-1]
        if c + 1 < n:
            return [x[0] for x in t[:-1]] + [c + 1]
        t.pop()
    return None


class State:
    def __init__(self):
        self.env: Dict[str, V] = {}
        self.heap: Dict[Tuple[str, str], V] = {}
        self.init_heap: Dict[Tuple[str, str], V] = {}     # shared: value at function entry
        self.pc: List[Any] = []
        self.ghost: Dict[str, Any] = {}                    # ghost counters: name -> z3 Int
        self.calls: Dict[str, list] = {}                   # ghost call log: name -> [env at call]
        self.objcls: Dict[str, str] = {}
        self.broad = False          # a loop whose body has effects the syntactic scan cannot see was cut on this path
        self.wild = frozenset()     # fields a callee's frame names for every object ("*.fld"): unread locations are havoced on first read

    def snapshot(self) -> "State":
        s = State()
        s.env = dict(self.env)
        s.heap = dict(self.heap)
        s.init_heap = self.init_heap
        s.pc = self.pc            # shared on purpose: facts learnt while evaluating old() stay
        s.ghost = dict(self.ghost)
        s.calls = {k: list(v) for k, v in self.calls.items()}
        s.objcls = self.objcls
        s.broad = self.broad
        s.wild = self.wild
        return s


class Engine:
    def __init__(self, registry, contract, extracted, prop_id="", quick_prune=True):
        self.reg = registry
        self.c = contract
        self.x = extracted
        self.prop = prop_id
        self.vcs: List[VC] = []
        self.ch: Optional[Chooser] = None
        self.st: Optional[State] = None
        self.entry: Optional[State] = None
        self.loop_ord = 0
        self.if_ord = 0
        self.quick_prune = quick_prune
        self.paths = 0
        self.normal_exit_paths = 0
        self.closures: Dict[str, ast.FunctionDef] = {}
        self.spec_mode = 0
        self.clause_env_stack: List[Dict[str, V]] = []
        self.old_stack: List[State] = []
        self.inputs: Dict[str, V] = {}
        self._prune_solver = None
        self.used_assumptions: List[str] = []
        self.path_label: List[str] = []
        self.fresh_objs = set()
        self._comp = None
        self.inline_depth = 0
        self._feas_cache = {}
        self._merge_raise_stmt = None
        self.inlined = {}

    # ------------------------------------------------------------------ driver
    def run(self) -> List[VC]:
        prefix = []
        seen = 0
        # staleness: loop invariants written for a function with a given number of loops say nothing about a body whose loops
        # were merged, split or removed - the contract is out of date (undecided), whatever the obligations would come out as
        # staleness: a clause guarded by defined('x') for a local x the body no longer assigns holds vacuously - out of date
        if getattr(self.x, "node", None) is not None:
            texts_ = list(self.c.ensures) + list(self.c.ensures_on_raise)
            for sp_ in self.c.loops.values():
                for k_ in ("inv", "iter_post"):
                    texts_ += list(sp_.get(k_, []))
            guards_ = set(re.findall(r"defined\('([A-Za-z][A-Za-z_0-9]*)'\)", " ".join(texts_)))
            if guards_:
                stored_ = {n_.id for n_ in ast.walk(self.x.node) if isinstance(n_, ast.Name) and isinstance(n_.ctx, ast.Store)}
                stored_ |= {a_.arg for n_ in ast.walk(self.x.node) if isinstance(n_, ast.arguments) for a_ in n_.args + n_.kwonlyargs}
                for g_ in sorted(guards_ - stored_):
                    raise StaleContract(f"{self.c.key}: clauses are guarded by the local {g_!r}, which the code no longer assigns")
        want_ = getattr(self.c, "static_loops", None)
        if want_ is not None and getattr(self.x, "node", None) is not None:
            have_ = sum(1 for n_ in ast.walk(self.x.node) if isinstance(n_, (ast.For, ast.While, ast.AsyncFor)))
            if have_ != want_:
                raise StaleContract(f"{self.c.key}: the loop contracts are written for {want_} loops, the code has {have_}")
        while prefix is not None:
            self.ch = Chooser(prefix)
            self._run_one()
            seen += 1
            if seen > getattr(self.c, "max_paths", 4000):
                raise OutOfReach(f"{self.c.key}: more than {getattr(self.c, 'max_paths', 4000)} paths")
            prefix = next_prefix(self.ch.trace)
        self.paths = seen
        # staleness: an external whose calls the contract's obligations count (record_as) but which was never met on any path no
        # longer occurs in the code under that name (e.g. a renamed local): the contract is out of date - undecided, not violated
        hits = self.__dict__.get("_ext_hits", {})
        for key_, summ_ in self.c.externals.items():
            if summ_.get("record_as") and not summ_.get("optional") and not hits.get(key_) and self._rooted_at_local(key_) \
                    and not self._occurs_in_source(key_):
                raise StaleContract(f"{self.c.key}: the contract counts calls of {key_!r}, which the code never makes under that name")
        # vacuity: at least one normal or exceptional exit must be reachable
        return self.vcs

    def fname(self):
        return self.c.key

    def _label(self):
        return ".".join(self.path_label) or "-"

    def emit(self, kind, goal, clause="", expect="unsat", extra_hyps=()):
        name = f"{self.prop}/{self.c.key}/{kind}/{self._label()}"
        base = name
        k = 1
        names = self.__dict__.setdefault("_vc_names", set())
        if len(names) != len(self.vcs):
            names.clear()
            names.update(v.name for v in self.vcs)
        while name in names:
            k += 1
            name = f"{base}~{k}"
        names.add(name)
        self.vcs.append(VC(name, kind, list(self.st.pc) + list(extra_hyps), goal, expect, self.c.key, clause,
                           self._label(), dict(self.inputs)))

    def assume(self, f):
        self.st.pc.append(f)

    # ------------------------------------------------------------------ branching
    def branch(self, cond, label: str) -> bool:
        cond = z3.simplify(cond)
        if z3.is_true(cond):
            return True
        if z3.is_false(cond):
            return False
        c = self.ch.choose(label, 2)
        taken = (c == 0)
        f = cond if taken else z3.Not(cond)
        self.st.pc.append(f)
        self.path_label.append(f"{label}{'T' if taken else 'F'}")
        if self.quick_prune and not self._feasible():
            raise PathAbort()
        return taken

    def choose(self, label: str, options: List[str]) -> int:
        c = self.ch.choose(label, len(options))
        self.path_label.append(f"{label}:{options[c]}")
        return c

    def _feasible(self) -> bool:
        key = tuple(c for c, _, _ in self.ch.trace)
        hit = self._feas_cache.get(key)
        if hit is not None:
            return hit
        r = self._feasible_uncached()
        self._feas_cache[key] = r
        return r

    def _feasible_uncached(self) -> bool:
        s = z3.Solver()
        # (a wall-clock budget: on a loaded machine an easy refutation can miss it and an infeasible path is explored - harmless
        # for obligations, whose hypotheses are then inconsistent; a construct out of reach on such a path is re-examined, see _run_one)
        s.set("timeout", int(os.environ.get("PYVC_FEAS_MS", "300")))      # (the variable exists to test that verdicts do not depend on it)
        for a in self.reg.axioms_for(self.c):
            s.add(a)
        for h in self.st.pc:
            s.add(h)
        r = s.check()
        if os.environ.get("PYVC_FEAS_STATS"):
            try:
                rc = [v for k, v in s.statistics() if k == "rlimit count"]
                with open(os.environ["PYVC_FEAS_STATS"], "a") as fh:
                    prev_ = globals().get("_RC_PREV", 0)
                    globals()["_RC_PREV"] = rc[0] if rc else prev_
                    fh.write(f"{r} {(rc[0] - prev_) if rc else -1}\n")
            except Exception:  # noqa
                pass
        return r != z3.unsat

    # ------------------------------------------------------------------ one path
    def _run_one(self):
        c = self.c
        self.st = State()
        self.loop_ord = 0
        self.if_ord = 0
        self.path_label = []
        self.inputs = {}
        self.closures = {}
        self.fresh_objs = set()
        self._comp = None
        self._bitcache = {}
        st = self.st
        fn = self.x.node
        facts: List[Any] = []
        args = [a.arg for a in fn.args.posonlyargs + fn.args.args + fn.args.kwonlyargs]
        is_static = any(d in ("staticmethod",) for d in self.x.decorators)
        for a in args:
            if a in ("self", "cls") and not is_static and c.cls:
                v = V("obj", "self", c.cls)
                st.objcls["self"] = c.cls
            elif a in c.param_values:
                v = self.pyval(c.param_values[a])
            elif a in c.params:
                v = fresh_of_sort(parse_sort(c.params[a]), a, facts)
                if v.k == "obj":
                    v = V("obj", a, v.cls)
                    st.objcls[a] = v.cls
            else:
                raise OutOfReach(f"{c.key}: parameter {a} has no declared sort")
            st.env[a] = v
            if a == "cls" and v.k == "obj":
                st.env["self"] = v
            self.inputs[a] = v
        for g, srt in c.ghost.items():
            v = fresh_of_sort(parse_sort(srt), g, facts)
            st.env[g] = v
            self.inputs[g] = v
        for f in facts:
            st.pc.append(f)
        self.entry = st.snapshot()
        self.entry.heap = {}
        try:
            # class invariant + requires
            for r in c.all_requires(self.reg):
                st.pc.append(self.clause_bool(r, st, self.entry, {}))
            # vacuity check on the precondition (once: first path only)
            if not self.ch.prefix:
                self.emit("pre-sat", z3.BoolVal(False), clause="requires satisfiable", expect="sat")
            try:
                self.exec_block(fn.body)
                ret = NONE
            except _Return as r:
                ret = r.v
            self.at_normal_exit(ret)
        except PyRaise as e:
            self.at_raise_exit(e)
        except PathAbort:
            pass
        except (_Break, _Continue):
            raise OutOfReach(f"{c.key}: break/continue outside loop")
        except OutOfReach:
            # met on a path the quick feasibility check (300 ms wall-clock) let through: decide feasibility again with a budget
            # that does not depend on machine load before giving the function up - an infeasible path needs no model
            s_ = z3.Solver()
            s_.set("timeout", 30000)
            for a_ in self.reg.axioms_for(self.c):
                s_.add(a_)
            for h_ in self.st.pc:
                s_.add(h_)
            if s_.check() != z3.unsat:
                raise

    def at_normal_exit(self, ret: V):
        c = self.c
        st = self.st
        self.path_label.append("ret")
        ncan = self.__dict__.get("_n_canary", 0)
        if not getattr(c, "batch_post", False) or ncan < 8:
            self._n_canary = ncan + 1
            self.emit("canary", z3.BoolVal(False), clause="normal exit reachable", expect="sat")
        # parameter names in postconditions denote the values at entry (the body may re-bind them)
        env = {k: v for k, v in self.entry.env.items()}
        env["result"] = ret
        env["RESULT"] = ret          # the same, under a name a lambda parameter called `result` (a recorded call's result) does not shadow
        if getattr(c, "batch_post", False):
            # one obligation per path: the conjunction of all postconditions (instances with very many paths)
            ens_ = c.all_ensures(self.reg)
            gs_ = [self.clause_bool(e, st, self.entry, env) for e in ens_]
            self.emit("post", z3.And(gs_) if gs_ else z3.BoolVal(True), clause="all of: " + " ;; ".join(ens_))
        else:
            for e in c.all_ensures(self.reg):
                g = self.clause_bool(e, st, self.entry, env)
                self.emit("post", g, clause=e)
        # raises-iff completeness: returned normally => no declared raise condition held at entry
        for exc, cond in c.raises.items():
            g = z3.Not(self.clause_bool(cond, self.entry_view(), self.entry, {}))
            self.emit("raises-complete", g, clause=f"not raised {exc} although: {cond}")
        self.check_frame()

    def entry_view(self) -> State:
        s = self.entry.snapshot()
        s.pc = self.st.pc
        return s

    def _raise_is_free(self, call_node, excs) -> bool:
        """an external's raise at the top level of the verified function, outside every try/with, when the contract admits that
        exception unconditionally and states nothing about exceptional exits: the path would end at once with no obligation"""
        c = self.c
        if self.inline_depth or c.ensures_on_raise or c.frame_on_raise or c.raise_preserves_state or self.spec_mode:
            return False
        g = self.__dict__.get("_guarded_nodes")
        if g is None:
            g = set()
            for t in ast.walk(self.x.node):
                if isinstance(t, (ast.Try, ast.With, ast.AsyncWith)):
                    g.update(id(k) for k in ast.walk(t))
            self._guarded_nodes = g
        if id(call_node) in g:
            return False
        for e in excs:
            ok = False
            for exc, cond in list(c.raises.items()) + list(c.may_raise.items()):
                if self.is_subclass(e, exc):
                    if cond:
                        return False
                    ok = True
            if not ok:
                return False
        self.free_raises = self.__dict__.get("free_raises", 0) + 1
        return True

    def at_raise_exit(self, e: PyRaise):
        c = self.c
        self.path_label.append(f"raise-{e.exc}")
        self.emit("canary", z3.BoolVal(False), clause=f"raise {e.exc} reachable", expect="sat")
        matched = False
        for exc, cond in list(c.raises.items()) + list(c.may_raise.items()):
            if self.is_subclass(e.exc, exc):
                matched = True
                if cond:
                    g = self.clause_bool(cond, self.entry_view(), self.entry, {})
                    self.emit("raises-sound", g, clause=f"raise {exc} only if: {cond}")
        if not matched:
            self.emit("no-raise", z3.BoolVal(False), clause=f"{e.exc} must not escape")
        for cl in c.ensures_on_raise:
            g = self.clause_bool(cl, self.st, self.entry, dict(self.entry.env))
            self.emit("post-raise", g, clause=cl)
        if c.frame_on_raise:
            self.check_frame()

    def check_frame(self):
        c = self.c
        st = self.st
        if c.frame is None:
            return
        allowed = set(c.frame)
        for (oid, fld), cur in st.heap.items():
            if oid in self.fresh_objs or any(oid.startswith(f + ".") for f in self.fresh_objs):
                continue
            path = f"{oid}.{fld}"
            if path in allowed or (oid == "self" and fld in allowed) or f"*.{fld}" in allowed:
                continue
            old = st.init_heap.get((oid, fld))
            if old is None:
                continue
            if cur is old:
                continue
            self.emit("frame", self.veq(cur, old), clause=f"{path} unchanged")

    # ------------------------------------------------------------------ clauses
    def clause_bool(self, src: str, cur: State, old: State, env: Dict[str, V]):
        v = self.clause_val(src, cur, old, env)
        return self.truth(v)

    def clause_val(self, src: str, cur: State, old: State, env: Dict[str, V]) -> V:
        node = ast.parse(src.strip(), mode="eval").body
        saved = self.st
        self.st = cur
        self.spec_mode += 1
        self.clause_env_stack.append(env)
        self.old_stack.append(old)
        try:
            return self.ev(node)
        finally:
            self.old_stack.pop()
            self.clause_env_stack.pop()
            self.spec_mode -= 1
            self.st = saved

    # ------------------------------------------------------------------ heap
    def heap_get(self, obj: V, fld: str) -> V:
        st = self.st
        key = (obj.t, fld)
        if key in st.heap:
            return st.heap[key]
        if key in st.init_heap:
            v0 = st.init_heap[key]
            if fld in st.wild and v0.k != "obj":
                st.heap[key] = self._havoc_value(v0, f"{obj.t}.{fld}")
                return st.heap[key]
            return v0
        srt = self.reg.field_sort(obj.cls, fld)
        if srt is None:
            raise OutOfReach(f"{self.c.key}: field {obj.cls}.{fld} has no declared sort")
        facts: List[Any] = []
        v = fresh_of_sort(parse_sort(srt), f"{obj.t}.{fld}", facts)
        if v.k == "obj":
            v = V("obj", f"{obj.t}.{fld}", v.cls)
        for f in facts:
            st.pc.append(f)
        st.init_heap[key] = v
        if obj.t in self.entry.env or obj.t == "self" or "." in obj.t:
            self.inputs[f"{obj.t}.{fld}"] = v
        if fld in st.wild and v.k != "obj":
            st.heap[key] = self._havoc_value(v, f"{obj.t}.{fld}")
            return st.heap[key]
        if st.broad and not self.spec_mode_old() and self._may_change(obj.t, fld):
            # first read after a loop cut with unseen effects: the loop may have changed this location
            v2 = self._havoc_value(v, f"{obj.t}.{fld}")
            if v.k == "obj":
                v2 = v
            st.heap[key] = v2
            return v2
        return v

    def spec_mode_old(self) -> bool:
        """evaluating inside old(...): the entry state is being read"""
        return bool(self.__dict__.get("_in_old", 0))

    def _may_change(self, oid: str, fld: str) -> bool:
        """may the verified function change this location at all? (its frame, or a locally created object)"""
        c = self.c
        if oid in self.fresh_objs or any(oid.startswith(f + ".") for f in self.fresh_objs):
            return True
        if c.frame is None:
            return True
        allowed = set(c.frame)
        return f"{oid}.{fld}" in allowed or (oid == "self" and fld in allowed) or f"*.{fld}" in allowed

    def heap_set(self, obj: V, fld: str, v: V):
        # make sure the entry value exists so frame/old() can refer to it
        if self.reg.field_sort(obj.cls, fld) is not None and (obj.t, fld) not in self.st.init_heap:
            try:
                self.heap_get(obj, fld)
            except OutOfReach:
                pass
        self.st.heap[(obj.t, fld)] = v

    # ------------------------------------------------------------------ value helpers
    def truth(self, v: V):
        k = v.k
        if k == "bool":
            return v.t
        if k == "int":
            return v.t != 0
        if k == "none":
            return z3.BoolVal(False)
        if k == "bytes":
            return z3.Length(v.t) > 0
        if k == "ilist":
            return v.t[1] > 0
        if k == "tuple":
            return z3.BoolVal(len(v.t) > 0)
        if k == "opt":
            return z3.And(z3.Not(v.t[0]), self.truth(v.t[1]))
        if k == "obj":
            cd = self.reg.classes.get(v.cls)
            if cd is not None and not cd.truth and self.reg.class_inline(v.cls, "__bool__") is not None and not self.spec_mode:
                return self.truth(self.inline_method(self.reg.class_inline(v.cls, "__bool__"), v, [], {}))
            if cd is not None and cd.truth:
                self.clause_env_stack.append({"self": v})
                self.spec_mode += 1
                try:
                    return self.truth(self.ev(ast.parse(cd.truth, mode="eval").body))
                finally:
                    self.spec_mode -= 1
                    self.clause_env_stack.pop()
            return z3.BoolVal(True)
        if k == "str":
            return z3.Length(v.t) > 0
        if k == "float":
            return z3.Not(z3.fpIsZero(v.t))
        if k == "opaque":
            f = z3.Function(f"truthy_{v.cls}", opaque_sort(v.cls), z3.BoolSort())
            return f(v.t)
        if k == "py":
            return z3.BoolVal(bool(v.t))
        if k == "dir":
            return z3.BoolVal(True)
        raise OutOfReach(f"{self.c.key}: truthiness of {k}")

    def veq(self, a: V, b: V):
        """z3 Bool: Python == on modelled sorts"""
        if a.k == "opt" and b.k == "opt":
            return z3.And(a.t[0] == b.t[0], z3.Implies(z3.Not(a.t[0]), self.veq(a.t[1], b.t[1])))
        if a.k == "opt":
            if b.k == "none":
                return a.t[0]
            return z3.And(z3.Not(a.t[0]), self.veq(a.t[1], b))
        if b.k == "opt":
            return self.veq(b, a)
        if a.k == "none" or b.k == "none":
            return z3.BoolVal(a.k == b.k)
        if a.k == "bool" and b.k == "int":
            return z3.If(a.t, 1, 0) == b.t
        if a.k == "int" and b.k == "bool":
            return a.t == z3.If(b.t, 1, 0)
        if a.k != b.k and "opaque" in (a.k, b.k) and ({a.k, b.k} & {"int", "bool"}):
            return self.as_int(a) == self.as_int(b)         # int-like unmodelled value against an integer
        if {a.k, b.k} == {"opaque", "str"}:
            # an unmodelled value against a string: equal iff its (uninterpreted) string content is that string
            op_, st_ = (a, b) if a.k == "opaque" else (b, a)
            sv_ = z3.Function("strval_" + (op_.cls or "Any"), opaque_sort(op_.cls), z3.StringSort())
            return sv_(op_.t) == st_.t
        if a.k != b.k:
            if {a.k, b.k} <= {"int", "float"}:
                fa, fb = self.to_float(a), self.to_float(b)
                return z3.fpEQ(fa, fb)
            return z3.BoolVal(False)
        if a.k == "opaque" and not a.t.sort().eq(b.t.sort()):
            return z3.Bool(fresh_name("eq_unknown"))      # unmodelled values of different static kinds: equality unknown
        if a.k in ("int", "bool", "bytes", "str", "opaque", "dir"):
            return a.t == b.t
        if a.k == "float":
            return z3.fpEQ(a.t, b.t)
        if a.k == "ilist":
            (aa, an, _), (ba, bn, _) = a.t, b.t
            i = z3.Int(fresh_name("qi"))
            return z3.And(an == bn, z3.ForAll([i], z3.Implies(z3.And(0 <= i, i < an), aa[i] == ba[i])))
        if a.k == "tuple":
            if len(a.t) != len(b.t):
                return z3.BoolVal(False)
            return z3.And([self.veq(x, y) for x, y in zip(a.t, b.t)]) if a.t else z3.BoolVal(True)
        if a.k == "obj":
            return z3.BoolVal(a.t == b.t)
        if a.k == "py":
            return z3.BoolVal(a.t == b.t)
        raise OutOfReach(f"{self.c.key}: == on {a.k}")

    def to_float(self, v: V):
        if v.k == "float":
            return v.t
        if v.k == "int":
            return z3.fpToFP(RNE, z3.ToReal(v.t), FP64)
        if v.k == "bool":
            return z3.If(v.t, z3.FPVal(1.0, FP64), z3.FPVal(0.0, FP64))
        raise OutOfReach(f"to_float {v.k}")

    def as_int(self, v: V):
        if v.k == "int":
            return v.t
        if v.k == "bool":
            return z3.If(v.t, 1, 0)
        if v.k == "opaque":
            fn_ = z3.Function("intval_" + v.cls, opaque_sort(v.cls), z3.IntSort())     # the integer value of an int-like object
            return fn_(v.t)
        if v.k == "opt" and v.t[1].k in ("int", "bool", "opaque"):
            if self.spec_mode:
                return self.as_int(v.t[1])
            # an Optional used as a number: None raises TypeError (that path is pruned where the code has ruled None out)
            if self.branch(v.t[0], "intnone"):
                raise PyRaise("TypeError")
            return self.as_int(v.t[1])
        raise OutOfReach(f"{self.c.key}: int expected, got {v.k}")

    def is_subclass(self, exc: str, base: str) -> bool:
        parents = dict(EXC_PARENTS)
        parents.update(self.reg.exc_parents)
        cur = exc
        while cur is not None:
            if cur == base or cur.split(".")[-1] == base.split(".")[-1]:
                return True
            cur = parents.get(cur, parents.get(cur.split(".")[-1]))
        return False

    # ------------------------------------------------------------------ statements
    def exec_block(self, stmts):
        for s in stmts:
            self.exec_stmt(s)

    def exec_stmt(self, s):
        m = getattr(self, "st_" + type(s).__name__, None)
        if m is None:
            raise OutOfReach(f"{self.c.key}: statement {type(s).__name__} at line {s.lineno}")
        return m(s)

    def st_Pass(self, s):
        pass

    def st_Nonlocal(self, s):
        pass

    def st_Global(self, s):
        raise OutOfReach("global")

    def st_Expr(self, s):
        if isinstance(s.value, ast.Constant):
            return  # docstring
        self.ev(s.value)

    def st_FunctionDef(self, s):
        self.closures[s.name] = s

    st_AsyncFunctionDef = st_FunctionDef

    def st_Return(self, s):
        raise _Return(self.ev(s.value) if s.value is not None else NONE)

    def st_Break(self, s):
        raise _Break()

    def st_Continue(self, s):
        raise _Continue()

    def st_Assert(self, s):
        c = self.truth(self.ev(s.test))
        if not self.branch(c, f"assert{s.lineno - self.x.lineno}"):
            raise PyRaise("AssertionError")

    def st_Raise(self, s):
        if s.exc is None:
            if getattr(self, "_cur_exc", None) is not None:
                raise PyRaise(self._cur_exc.exc, self._cur_exc.payload)
            raise OutOfReach("bare raise outside except")
        e = s.exc
        name = None
        if isinstance(e, ast.Call):
            name = self.dotted(e.func)
            # evaluate args for effects? messages are opaque: dropped
        else:
            name = self.dotted(e)
            if name in self.st.env and self.st.env[name].k == "excv":
                raise PyRaise(self.st.env[name].t)
        if name is None:
            raise OutOfReach("raise of non-name")
        raise PyRaise(name)

    def st_Delete(self, s):
        for t in s.targets:
            if isinstance(t, ast.Subscript):
                base = self.ev(t.value)
                if base.k in ("opaque", "obj"):
                    try:
                        key = self.ev(t.slice)
                    except OutOfReach:
                        key = NONE
                    self.st.calls.setdefault("del:" + ast.unparse(t.value), []).append({"key": key})
                    continue
            raise OutOfReach(f"{self.c.key}: del {ast.unparse(t)}")

    def st_Assign(self, s):
        v = self.ev(s.value)
        for t in s.targets:
            self.assign(t, v)

    def st_AnnAssign(self, s):
        if s.value is not None:
            self.assign(s.target, self.ev(s.value))

    def st_AugAssign(self, s):
        cur = self.ev(self._as_load(s.target))
        rhs = self.ev(s.value)
        # in-place list/bytearray extension
        v = self.binop(s.op, cur, rhs)
        self.assign(s.target, v)

    def _as_load(self, t):
        t2 = copy.copy(t)
        t2.ctx = ast.Load()
        return t2

    def assign(self, t, v: V):
        if isinstance(t, ast.Name):
            if self.spec_mode:
                raise OutOfReach("assignment in clause")
            self.st.env[t.id] = v
            if t.id in getattr(self.c, "case_split", {}):
                self.st.pc.append(self.clause_bool(self.c.case_split[t.id], self.st, self.entry, {}))
        elif isinstance(t, ast.Attribute):
            obj = self.ev(t.value)
            if obj.k == "opt" and obj.t[1].k == "obj":
                if self.branch(obj.t[0], f"nonestore{getattr(t, 'lineno', 0) - self.x.lineno}"):
                    raise PyRaise("AttributeError")
                obj = obj.t[1]
            if obj.k == "opaque":
                self.st.calls.setdefault("setattr:" + ast.unparse(t), []).append({"value": v})
                return          # attribute of an unmodelled object: no modelled state changes (ghost log only)
            if obj.k != "obj":
                raise OutOfReach(f"{self.c.key}: attribute store on {obj.k}")
            srt = self.reg.field_sort(obj.cls, t.attr)
            if srt is None:
                raise OutOfReach(f"{self.c.key}: store to undeclared field {obj.cls}.{t.attr}")
            self.heap_set(obj, t.attr, self.coerce(v, parse_sort(srt)))
        elif isinstance(t, (ast.Tuple, ast.List)):
            if v.k == "opt" and v.t[1].k == "tuple":
                if self.branch(v.t[0], "unpacknone"):
                    raise PyRaise("TypeError")
                v = v.t[1]
            if v.k == "opaque":
                # unpacking an unmodelled sequence: wrong length raises ValueError, otherwise arbitrary elements
                if self.choose(f"unpack{getattr(t, 'lineno', 0) - self.x.lineno}", ["ok", "ValueError"]) == 1:
                    raise PyRaise("ValueError")
                mk = (lambda: V("str", z3.String(fresh_name("elem")))) if v.cls == "StrList" else \
                    (lambda: V("opaque", z3.Const(fresh_name("elem"), opaque_sort("Any")), "Any"))
                v = mk_tuple([mk() for _ in t.elts])
            if v.k != "tuple" or len(v.t) != len(t.elts):
                raise OutOfReach(f"{self.c.key}: unpacking {v.k}")
            for tt, vv in zip(t.elts, v.t):
                self.assign(tt, vv)
        elif isinstance(t, ast.Subscript):
            self.subscript_store(t, v)
        else:
            raise OutOfReach(f"{self.c.key}: assignment target {type(t).__name__}")

    def coerce(self, v: V, sort) -> V:
        k = sort[0]
        if k == "opt":
            if v.k == "opt":
                return v
            if v.k == "none":
                facts = []
                inner = fresh_of_sort(sort[1], "nv", facts)
                return mk_opt(z3.BoolVal(True), inner)
            return mk_opt(z3.BoolVal(False), self.coerce(v, sort[1]))
        if k in ("ilist", "ideque") and v.k == "tuple":
            a = z3.K(z3.IntSort(), z3.IntVal(0))
            for i, e in enumerate(v.t):
                if e.k == "opt":
                    if not self.spec_mode and self.branch(e.t[0], "elemnone"):
                        raise PyRaise("TypeError")
                    e = e.t[1]
                a = z3.Store(a, i, self.as_int(e))
            return V("ilist", (a, z3.IntVal(len(v.t)), None))
        if k == "int" and v.k == "bool":
            return mk_int(z3.If(v.t, 1, 0))
        if k == "bool" and v.k == "int":
            return v  # stored ints in bool fields keep their value; truthiness handles it
        return v

    def st_If(self, s):
        self.if_ord += 1
        lab = f"if{s.lineno - self.x.lineno}"
        c = self.truth(self.ev(s.test))
        if not s.orelse and self._only_dropped(s.body):
            return          # `if cond: log(...)`: both outcomes continue in the same state, one path
        if self.branch(c, lab):
            self.refine(s.test, True)
            self.exec_block(s.body)
        else:
            self.refine(s.test, False)
            self.exec_block(s.orelse)

    def refine(self, test, taken: bool):
        """after `if x is None` / `if x is not None` / `if x` / `if not x`: a local of Optional kind known to be non-None
        on this branch is re-bound to its value"""
        neg = False
        t = test
        while isinstance(t, ast.UnaryOp) and isinstance(t.op, ast.Not):
            neg = not neg
            t = t.operand
        name, nonnull_when = None, None
        if isinstance(t, ast.Compare) and len(t.ops) == 1 and isinstance(t.left, ast.Name) \
                and isinstance(t.comparators[0], ast.Constant) and t.comparators[0].value is None:
            name = t.left.id
            nonnull_when = isinstance(t.ops[0], ast.IsNot)
        elif isinstance(t, ast.Name):
            name, nonnull_when = t.id, True
        if name is None or name not in self.st.env:
            return
        holds = taken != neg
        v = self.st.env[name]
        if v.k == "opt" and holds == nonnull_when:
            self.st.env[name] = v.t[1]

    def st_With(self, s):
        if len(s.items) == 1 and isinstance(s.items[0].context_expr, ast.Call) and isinstance(s.items[0].context_expr.func, ast.Attribute):
            call = s.items[0].context_expr
            try:
                recv = self.ev(call.func.value)
            except OutOfReach:
                recv = None
            if recv is not None and recv.k == "obj":
                im = self.reg.class_inline(recv.cls, call.func.attr)
                if im is not None:
                    return self._with_contextmanager(im, recv, call, s)
        # otherwise only context managers declared in the contract's externals as 'with:<dotted>' are accepted
        for item in s.items:
            name = self.dotted(item.context_expr.func) if isinstance(item.context_expr, ast.Call) else self.dotted(item.context_expr)
            summ = self.c.externals.get("with:" + str(name))
            if summ is None:
                raise OutOfReach(f"{self.c.key}: with {name}")
            if item.optional_vars is not None:
                self.assign(item.optional_vars, self.ext_result(summ, name))
        self.exec_block(s.body)

    def _with_contextmanager(self, spec, recv: V, call: ast.Call, s):
        """`with obj.cm(args):` where cm is a @contextlib.contextmanager generator of the real class with the shape
        `<stmts>; try: <stmts>; yield; finally: <stmts>`: the enter part, the with-body and the exit part are executed in order, the
        exit part on every way out of the body."""
        from .extract import extract
        relpath, qual = spec
        x = extract(relpath, qual)
        self.inlined[(relpath, qual)] = x.sha256
        fdef = x.node
        trys = [st_ for st_ in fdef.body if isinstance(st_, ast.Try)]
        if len(trys) != 1 or trys[0].handlers or not trys[0].finalbody:
            raise OutOfReach(f"context manager {qual}: unsupported shape")
        tr = trys[0]
        if not (isinstance(tr.body[-1], ast.Expr) and isinstance(tr.body[-1].value, ast.Yield) and tr.body[-1].value.value is None):
            raise OutOfReach(f"context manager {qual}: unsupported shape")
        params = [a.arg for a in fdef.args.args]
        env = {params[0]: recv}
        for p_, a in zip(params[1:], call.args):
            env[p_] = self.ev(a)
        for k in call.keywords:
            env[k.arg] = self.ev(k.value)
        outer_env, outer_x = self.st.env, self.x
        self.x = x
        try:
            for p_, d_ in zip(params[len(params) - len(fdef.args.defaults):], fdef.args.defaults):
                if p_ not in env:
                    env[p_] = self.ev(d_)
        finally:
            self.x = outer_x

        def in_cm(stmts):
            self.st.env, self.x = env, x
            try:
                self.exec_block(stmts)
            finally:
                self.st.env, self.x = outer_env, outer_x
        pre = fdef.body[:fdef.body.index(tr)]
        in_cm(pre + tr.body[:-1])
        try:
            self.exec_block(s.body)
        except (PyRaise, _Return, _Break, _Continue):
            in_cm(tr.finalbody)
            raise
        in_cm(tr.finalbody)

    def _trivial_catch_all(self, s) -> bool:
        if s.orelse or s.finalbody or len(s.handlers) != 1:
            return False
        h = s.handlers[0]
        if h.type is not None and self.dotted(h.type) not in ("Exception", "BaseException"):
            return False
        return self._only_dropped(h.body)

    def _only_dropped(self, body) -> bool:
        for st_ in body:
            if isinstance(st_, ast.Pass):
                continue
            if isinstance(st_, ast.Expr) and isinstance(st_.value, ast.Call):
                d = self.dotted(st_.value.func)
                if is_dropped_callee(d):
                    continue
            return False
        return True

    def st_Try(self, s):
        saved_label_len = None
        prev_merge = self._merge_raise_stmt
        if self._trivial_catch_all(s) and isinstance(s.body[-1], ast.Expr):
            # a raise from the last statement of `try: ...; f() except: log` continues exactly like a normal return of
            # f() (the external's effects are applied in both outcomes): one path instead of two
            self._merge_raise_stmt = s.body[-1].value
        try:
            try:
                try:
                    self.exec_block(s.body)
                finally:
                    self._merge_raise_stmt = prev_merge
            except PyRaise as e:
                handled = False
                for h in s.handlers:
                    names = self.handler_names(h)
                    if names is None or any(self.exc_matches(e.exc, n, f"exc{h.lineno - self.x.lineno}") for n in names):
                        handled = True
                        if h.name:
                            self.st.env[h.name] = V("excv", e.exc)
                        prev = getattr(self, "_cur_exc", None)
                        self._cur_exc = e
                        try:
                            self.exec_block(h.body)
                        finally:
                            self._cur_exc = prev
                        break
                if not handled:
                    raise
            else:
                self.exec_block(s.orelse)
        except (PyRaise, _Return, _Break, _Continue) as ctl:
            if s.finalbody:
                self.exec_block(s.finalbody)
            raise
        else:
            if s.finalbody:
                self.exec_block(s.finalbody)

    def handler_names(self, h):
        if h.type is None:
            return None
        if isinstance(h.type, ast.Tuple):
            return [self.dotted(e) for e in h.type.elts]
        return [self.dotted(h.type)]

    def exc_matches(self, exc: str, handler: str, label: str) -> bool:
        if handler in ("Exception", "BaseException") and exc not in ("asyncio.CancelledError", "CancelledError", "KeyboardInterrupt"):
            return True
        if handler == "BaseException":
            return True
        if self.is_subclass(exc, handler):
            return True
        if exc == "AnyException":
            # unknown Exception subclass: may or may not match a specific handler
            return self.choose(label, ["match", "nomatch"]) == 0
        return False

    # ---- loops
    def _loop_spec(self, s):
        """loop contracts are keyed by the loop's header text ('for x in xs', 'while cond') or by its ordinal in source order
        within the verified function; loops of inlined helper bodies keep the order in which a path meets them"""
        dyn = self.loop_ord
        self.loop_ord += 1
        if self.inline_depth:
            return dyn, self.c.loops.get(dyn)
        tab = self.__dict__.get("_static_loops")
        if tab is None:
            loops_ = [n_ for n_ in ast.walk(self.x.node) if isinstance(n_, (ast.For, ast.While, ast.AsyncFor))]
            loops_.sort(key=lambda n_: (n_.lineno, n_.col_offset))
            tab = {id(n_): i_ for i_, n_ in enumerate(loops_)}
            self._static_loops = tab
        ordn = tab.get(id(s), dyn)
        if isinstance(s, ast.While):
            head = "while " + ast.unparse(s.test)
        else:
            head = f"for {ast.unparse(s.target)} in {ast.unparse(s.iter)}"
        spec = self.c.loops.get(head)
        if spec is None:
            spec = self.c.loops.get(ordn)
        return ordn, spec

    def st_While(self, s):
        ordn, spec = self._loop_spec(s)
        if spec is None:
            raise OutOfReach(f"{self.c.key}: while loop #{ordn} has no invariant")
        lab = f"L{ordn}"
        st = self.st
        genv0 = {}
        for k, srcg in spec.get("ghost_init", {}).items():
            genv0[k] = self.clause_val(srcg, st, self.entry, genv0)
        self._loop_head(s, spec, lab, {"init": genv0})
        genv = {k: self._havoc_value(v, k) for k, v in genv0.items()}
        for inv in spec["inv"]:
            st.pc.append(self.clause_bool(inv, st, self.entry, genv))
        n_before = {k: len(v) for k, v in st.calls.items()}
        # assume invariant holds, decide enter/exit
        c = self.truth(self.ev(s.test))
        if self.branch(c, lab + "c"):
            try:
                self.exec_block(s.body)
            except _Continue:
                pass
            except _Return:
                st.ghost[f"L{ordn}_left_early"] = z3.IntVal(1)
                raise
            except _Break:
                st.ghost[f"L{ordn}_left_early"] = z3.IntVal(1)
                return
            genv2 = dict(genv)
            full_, win_ = self._iter_window(n_before)
            st.calls = win_
            try:
                for k, srcg in spec.get("ghost_step", {}).items():
                    genv2[k] = self.clause_val(srcg, st, self.entry, genv)
            finally:
                st.calls = full_
            self._loop_preserve(spec, lab, genv2, n_before)
            raise PathAbort()
        else:
            st.ghost[f"L{ordn}_left_early"] = z3.IntVal(0)
            for k, v in genv.items():
                st.env[k] = v          # ghost values stay visible to the postcondition
            self.exec_block(s.orelse)

    def _collect_effects(self, body):
        names, attrs, mutated, calls = set(), set(), set(), []
        closures = self.closures

        def visit(n, in_closure=False, nonlocals=()):
            for x in ast.walk(n):
                if isinstance(x, ast.Name) and isinstance(x.ctx, ast.Store):
                    if not in_closure or x.id in nonlocals:
                        names.add(x.id)
                elif isinstance(x, ast.Attribute) and isinstance(x.ctx, ast.Store):
                    attrs.add(ast.unparse(x))
                elif isinstance(x, ast.AugAssign):
                    if isinstance(x.target, ast.Attribute):
                        attrs.add(ast.unparse(x.target))
                    elif isinstance(x.target, ast.Subscript):
                        mutated.add(ast.unparse(x.target.value))
                elif isinstance(x, ast.Subscript) and isinstance(x.ctx, ast.Store):
                    mutated.add(ast.unparse(x.value))
                elif isinstance(x, ast.Call):
                    if isinstance(x.func, ast.Attribute) and x.func.attr in (
                            "append", "extend", "insert", "pop", "popleft", "appendleft", "clear", "add", "remove",
                            "discard", "update", "setdefault", "sort", "reverse"):
                        mutated.add(ast.unparse(x.func.value))
                    calls.append(x)
                    if isinstance(x.func, ast.Name) and x.func.id in closures and not in_closure:
                        cf = closures[x.func.id]
                        nl = set()
                        for y in ast.walk(cf):
                            if isinstance(y, ast.Nonlocal):
                                nl.update(y.names)
                        for b in cf.body:
                            visit(b, True, nl)
        for b in body:
            visit(b)
        return names, attrs, mutated, calls

    def _havoc_value(self, v: V, base: str) -> V:
        facts: List[Any] = []
        if v.k == "int":
            nv = fresh_of_sort(("int",), base, facts)
        elif v.k == "bool":
            nv = fresh_of_sort(("bool",), base, facts)
        elif v.k == "bytes":
            nv = fresh_of_sort(("bytes",), base, facts)
        elif v.k == "ilist":
            nv = fresh_of_sort(("ideque",) if v.t[2] is not None else ("ilist",), base, facts)
            if v.t[2] is not None:
                nv = V("ilist", (nv.t[0], nv.t[1], v.t[2]))
                facts.append(nv.t[1] <= v.t[2])
        elif v.k == "float":
            nv = fresh_of_sort(("float",), base, facts)
        elif v.k == "opt":
            nv = mk_opt(z3.Bool(fresh_name(base + "_isnone")), self._havoc_value(v.t[1], base))
        elif v.k == "tuple":
            nv = mk_tuple([self._havoc_value(x, f"{base}_{i}") for i, x in enumerate(v.t)])
        elif v.k == "opaque":
            nv = fresh_of_sort(("opaque", v.cls), base, facts)
        elif v.k == "str":
            nv = fresh_of_sort(("str",), base, facts)
        elif v.k == "dir":
            nv = V("dir", z3.Bool(fresh_name(base)))
        elif v.k in ("none", "obj", "py", "excv", "func"):
            nv = v
        elif v.k == "dictv":
            nv = fresh_of_sort(("opaque", "Dict"), base, facts)     # a literal dict changed by the loop: an unknown dict
        else:
            raise OutOfReach(f"havoc {v.k}")
        for f in facts:
            self.st.pc.append(f)
        return nv

    def _loop_head(self, s, spec, lab, ghost_env):
        """assert invariant on entry, havoc everything the body may change, assume invariant"""
        st = self.st
        genv = ghost_env or {}
        for inv in spec["inv"]:
            g = self.clause_bool(inv, st, self.entry, genv.get("init", {}))
            self.path_label.append(lab + "init")
            self.emit("inv-init", g, clause=inv)
            self.path_label.pop()
        names, attrs, mutated, calls = self._collect_effects(s.body)
        for n in sorted(names | {m for m in mutated if m in st.env}):
            if n in spec.get("havoc_sorts", {}):
                facts_: List[Any] = []
                st.env[n] = fresh_of_sort(parse_sort(spec["havoc_sorts"][n]), n, facts_)
                st.pc.extend(facts_)
            elif n in st.env:
                st.env[n] = self._havoc_value(st.env[n], n)
        for a in sorted(attrs | {m for m in mutated if "." in m}):
            node = ast.parse(a, mode="eval").body
            root = a.split(".")[0]
            if root not in st.env:
                continue        # the object is created inside the loop body: nothing of it exists at the loop head
            objv = self.ev(node.value)
            if objv.k == "obj":
                cur = self.heap_get(objv, node.attr)
                self.heap_set(objv, node.attr, self._havoc_value(cur, a))
        # contract callees in the body: havoc their frames
        broad = False
        for call in calls:
            dn = self.dotted(call.func)
            summ = self.c.externals.get(dn or "")
            if summ is None and isinstance(call.func, ast.Attribute):
                summ = self.c.externals.get("*." + call.func.attr)
            if summ is not None:
                self._ext_havoc(summ, [])             # what the summary says the call modifies
                continue
            if is_dropped_callee(dn):
                continue
            if isinstance(call.func, ast.Name) and call.func.id in _PURE_BUILTINS and call.func.id not in self.closures:
                continue
            if self._havoc_call_frame(call):
                continue
            broad = True          # an inlined helper / method of a live object / constructor: its stores are not visible here
        if broad:
            # everything the function may change at all is unknown at the loop head: its frame and its own local objects
            for key in list(dict.fromkeys(list(st.heap.keys()) + list(st.init_heap.keys()))):
                oid, fld = key
                if not isinstance(oid, str) or not self._may_change(oid, fld):
                    continue
                cur = st.heap.get(key, st.init_heap.get(key))
                if cur is None or cur.k == "obj":
                    continue
                st.heap[key] = self._havoc_value(cur, f"{oid}.{fld}")
            st.broad = True
        for g in spec.get("havoc_ghost", []):
            if g in st.ghost:
                st.ghost[g] = z3.Int(fresh_name(g))

    def _havoc_call_frame(self, call: ast.Call) -> bool:
        """a call to a method under contract: its declared frame on the receiver is unknown at the loop head. False when the
        call is not such a call (or its frame cannot be resolved here): the caller then falls back to the broad havoc"""
        if not isinstance(call.func, ast.Attribute):
            return False
        try:
            recv = self.ev(call.func.value)
        except (OutOfReach, PyRaise, KeyError):
            return False
        if recv.k != "obj":
            return False
        cc = self.reg.method_contract(recv.cls, call.func.attr)
        if cc is None or cc.frame is None or any("." in f for f in cc.frame):
            return False
        for f in cc.frame:
            cur = self.heap_get(recv, f)
            self.heap_set(recv, f, self._havoc_value(cur, f"{recv.t}.{f}"))
        return True

    def _iter_window(self, base):
        """the call log of the current iteration only: what was recorded after the loop head"""
        full = self.st.calls
        return full, {k: v[base.get(k, 0):] for k, v in full.items()}

    def _loop_preserve(self, spec, lab, env, base=None):
        full, win = self._iter_window(base or {})
        self.st.calls = win              # iter_post talks about this iteration's calls, not about what ran before the loop
        try:
            for cl in spec.get("iter_post", []):
                g = self.clause_bool(cl, self.st, self.entry, env)
                self.path_label.append(lab + "iter")
                self.emit("iter-post", g, clause=cl)
                self.path_label.pop()
        finally:
            self.st.calls = full
        for inv in spec["inv"]:
            g = self.clause_bool(inv, self.st, self.entry, env)
            self.path_label.append(lab + "keep")
            self.emit("inv-preserve", g, clause=inv)
            self.path_label.pop()

    def st_For(self, s):
        it = self.ev_iter(s.iter)
        if it["kind"] == "concrete":
            broke = False
            for v in it["items"]:
                self.assign(s.target, v)
                try:
                    self.exec_block(s.body)
                except _Continue:
                    continue
                except _Break:
                    broke = True
                    break
            if not broke:
                self.exec_block(s.orelse)
            return
        ordn, spec = self._loop_spec(s)
        if spec is None:
            raise OutOfReach(f"{self.c.key}: for loop #{ordn} (line {s.lineno}) has no invariant")
        # the iterable must not be a live container the body (or an external it calls) may modify: a copy ([:], list(), tuple()) is
        # required for the per-element reasoning of the loop cut to be meaningful
        live = self.dotted(s.iter)
        if live is not None:
            mods = set()
            for call in [x_ for b_ in s.body for x_ in ast.walk(b_) if isinstance(x_, ast.Call)]:
                dn = self.dotted(call.func)
                summ = self.c.externals.get(dn or "")
                if summ is None and isinstance(call.func, ast.Attribute):
                    summ = self.c.externals.get("*." + call.func.attr)
                mods.update((summ or {}).get("modifies", []))
            if live in mods:
                self.path_label.append(f"L{ordn}")
                self.emit("iter-mutation", z3.BoolVal(False), clause=f"loop iterates over {live}, which its body may modify (snapshot required)")
                self.path_label.pop()
        lab = f"L{ordn}"
        st = self.st
        n = it["len"]
        # ghost loop variables: _i completed iterations, _done consumed prefix (bytes only)
        gi0 = mk_int(0)
        genv0 = {"_i": gi0}
        if it["kind"] == "bytes":
            genv0["_done"] = mk_bytes(b"")
        for k, srcg in spec.get("ghost_init", {}).items():
            genv0[k] = self.clause_val(srcg, st, self.entry, genv0)
        self._loop_head(s, spec, lab, {"init": genv0})
        gi = z3.Int(fresh_name("_i"))
        st.pc.append(z3.And(0 <= gi, gi <= n))
        genv = {"_i": mk_int(gi)}
        if it["kind"] == "bytes":
            done = z3.Const(fresh_name("_done"), IntSeq)
            st.pc.append(done == z3.SubSeq(it["seq"], 0, gi))
            st.pc.append(z3.Length(done) == gi)
            genv["_done"] = mk_bytes(done)
        for k in spec.get("ghost_init", {}):
            facts = []
            if k in spec.get("ghost_step", {}) or k not in spec.get("ghost_const", ()):
                genv[k] = self._havoc_value(genv0[k], k)
            else:
                genv[k] = genv0[k]          # a snapshot taken where the loop is entered: the same value in every iteration
        for inv in spec["inv"]:
            st.pc.append(self.clause_bool(inv, st, self.entry, genv))
        # the invariant holds for every value of a universally quantified ghost parameter: further instances may be named
        for gname, exprs in spec.get("ghost_instances", {}).items():
            for ex_ in exprs:
                inst = dict(genv)
                inst[gname] = self.clause_val(ex_, st, self.entry, genv)
                for inv in spec["inv"]:
                    if re.search(r"\b" + re.escape(gname) + r"\b", inv):
                        st.pc.append(self.clause_bool(inv, st, self.entry, inst))
        n_before = {k: len(v) for k, v in st.calls.items()}
        if self.branch(gi < n, lab + "c"):
            elem = it["elem"](gi)
            if spec.get("elem_sort") and it["kind"] == "opaque":
                # elements of an unmodelled iterable, given the declared class (its fields are unknown values of their sorts)
                facts_e: List[Any] = []
                elem = fresh_of_sort(parse_sort(spec["elem_sort"]), fresh_name("elem"), facts_e)
                st.pc.extend(facts_e)
                if elem.k == "obj":
                    st.objcls[elem.t] = elem.cls
            if it["kind"] in ("bytes", "seq"):
                st.pc.append(z3.And(0 <= elem.t, elem.t <= 255))
            self.assign(s.target, elem)
            self._loop_ghost_env = genv
            # ghost_pre: named snapshots of the state at the start of the iteration (for lemmas about what one iteration did)
            for k, srcg in spec.get("ghost_pre", {}).items():
                genv[k] = self.clause_val(srcg, st, self.entry, genv)
            try:
                self.exec_block(s.body)
            except _Continue:
                pass
            except _Return:
                st.ghost[f"L{ordn}_left_early"] = z3.IntVal(1)      # left by `return` from inside the body
                for k in spec.get("ghost_pre", {}):
                    st.env[k] = genv[k]      # the iteration's start snapshots stay readable in the postcondition
                for k in spec.get("ghost_init", {}):
                    st.env[k] = genv[k]      # user ghosts: their value over the completed iterations
                raise
            except _Break:
                st.ghost[f"L{ordn}_left_early"] = z3.IntVal(1)      # ghost: the loop was left by `break` before exhausting its iterable
                for k in spec.get("ghost_init", {}):
                    st.env[k] = genv[k]      # user ghosts: their value over the completed iterations (the step of the iteration left is not applied)
                return
            # lemmas: small facts about this iteration, each proved on its own and then available to the obligations that follow
            lem_ = []
            for cl in spec.get("lemmas", []):
                g = self.clause_bool(cl, st, self.entry, genv)
                self.path_label.append(lab + "lemma")
                self.emit("iter-lemma", g, clause=cl)
                self.path_label.pop()
                lem_.append(g)
            st.pc.extend(lem_)      # each lemma is proved from the path condition alone, all are available afterwards
            genv2 = {"_i": mk_int(gi + 1)}
            if it["kind"] == "bytes":
                d2 = snoc(genv["_done"].t, self.as_int(elem))
                st.pc.append(d2 == z3.SubSeq(it["seq"], 0, gi + 1))
                st.pc.append(z3.Implies(gi + 1 == n, d2 == it["seq"]))
                genv2["_done"] = mk_bytes(d2)
            full_, win_ = self._iter_window(n_before)
            st.calls = win_
            try:
                for k, srcg in spec.get("ghost_step", {}).items():
                    genv2[k] = self.clause_val(srcg, st, self.entry, genv)
            finally:
                st.calls = full_
            for k in spec.get("ghost_init", {}):
                if k not in genv2:
                    genv2[k] = genv[k]
            for k in spec.get("ghost_pre", {}):
                genv2[k] = genv[k]          # snapshots of the iteration's start stay readable in iter_post
            self._loop_preserve(spec, lab, genv2, n_before)
            raise PathAbort()
        else:
            if it["kind"] == "bytes":
                st.pc.append(genv["_done"].t == it["seq"])
            # user ghosts stay visible to clauses evaluated after the loop (enclosing iter_post, postcondition), as for while loops
            for k in spec.get("ghost_init", {}):
                st.env[k] = genv[k]
            st.ghost[f"L{ordn}_left_early"] = z3.IntVal(0)
            self.exec_block(s.orelse)

    def ev_iter(self, node) -> dict:
        rev = False
        if isinstance(node, ast.Call) and isinstance(node.func, ast.Name) and node.func.id == "reversed":
            rev = True
            node = node.args[0]
        if isinstance(node, ast.Call) and isinstance(node.func, ast.Name) and node.func.id == "range":
            args = [self.as_int(self.ev(a)) for a in node.args]
            if len(args) == 1:
                lo, hi = z3.IntVal(0), args[0]
            elif len(args) == 2:
                lo, hi = args
            else:
                raise OutOfReach("range with step")
            n = z3.If(hi > lo, hi - lo, 0)
            if rev:
                return {"kind": "range", "len": n, "elem": lambda i: mk_int(hi - 1 - i)}
            return {"kind": "range", "len": n, "elem": lambda i: mk_int(lo + i)}
        if isinstance(node, ast.Call) and isinstance(node.func, ast.Name) and node.func.id == "zip":
            cols = []
            for a in node.args:
                av = self.ev(a)
                if av.k == "py" and isinstance(av.t, (tuple, list)):
                    cols.append([self.pyval(x) for x in av.t])
                elif av.k == "tuple":
                    cols.append(list(av.t))
                else:
                    raise OutOfReach(f"{self.c.key}: zip over {av.k}")
            n_ = min(len(c) for c in cols)
            return {"kind": "concrete", "items": [mk_tuple([c[i] for c in cols]) for i in range(n_)]}
        v = self.ev(node)
        if v.k == "py" and isinstance(v.t, (tuple, list)):
            items = [self.pyval(x) for x in v.t]
            return {"kind": "concrete", "items": items[::-1] if rev else items}
        if v.k == "tuple":
            items = list(v.t)
            return {"kind": "concrete", "items": items[::-1] if rev else items}
        if v.k == "range":
            lo, hi = v.t
            n = z3.If(hi > lo, hi - lo, 0)
            if rev:
                return {"kind": "range", "len": n, "elem": lambda i: mk_int(hi - 1 - i)}
            return {"kind": "range", "len": n, "elem": lambda i: mk_int(lo + i)}
        if v.k == "bytes":
            seq = v.t
            n = z3.Length(seq)
            if rev:
                return {"kind": "seq", "len": n, "elem": lambda i: mk_int(seq[n - 1 - i])}
            return {"kind": "bytes", "len": n, "seq": seq, "elem": lambda i: mk_int(seq[i])}
        if v.k == "ilist":
            a, n, _ = v.t
            if rev:
                return {"kind": "ilist", "len": n, "elem": lambda i: mk_int(a[n - 1 - i])}
            return {"kind": "ilist", "len": n, "elem": lambda i: mk_int(a[i])}
        if v.k == "opaque":
            n_ = z3.Int(fresh_name("n_items"))
            self.assume(n_ >= 0)
            # the number of iterations is what len() reports for that (unchanged) container
            self.assume(n_ == z3.Function("len_" + v.cls, opaque_sort(v.cls), z3.IntSort())(v.t))
            strs = v.cls == "StrList"
            return {"kind": "opaque", "len": n_,
                    "elem": (lambda i: V("str", z3.String(fresh_name("item")))) if strs else
                            (lambda i: V("opaque", z3.Const(fresh_name("item"), opaque_sort("Any")), "Any"))}
        raise OutOfReach(f"{self.c.key}: iteration over {v.k}")

    # ------------------------------------------------------------------ expressions
    def dotted(self, node) -> Optional[str]:
        if isinstance(node, ast.Name):
            return node.id
        if isinstance(node, ast.Attribute):
            b = self.dotted(node.value)
            return None if b is None else f"{b}.{node.attr}"
        return None

    def ev(self, node) -> V:
        m = getattr(self, "ev_" + type(node).__name__, None)
        if m is None:
            raise OutOfReach(f"{self.c.key}: expression {type(node).__name__}")
        return m(node)

    def ev_Constant(self, n):
        v = n.value
        if v is None:
            return NONE
        if isinstance(v, bool):
            return mk_bool(v)
        if isinstance(v, int):
            return mk_int(v)
        if isinstance(v, float):
            return mk_float(v)
        if isinstance(v, bytes):
            return mk_bytes(v)
        if isinstance(v, str):
            return mk_str(v)
        raise OutOfReach(f"constant {v!r}")

    def ev_JoinedStr(self, n):
        return V("str", z3.String(fresh_name("fstr")))

    def ev_Name(self, n):
        nm = n.id
        if self.spec_mode:
            for env in reversed(self.clause_env_stack):
                if nm in env:
                    return env[nm]
        if nm in self.st.env:
            return self.st.env[nm]
        if nm in ("True", "False"):
            return mk_bool(nm == "True")
        if nm in self.closures:
            return V("func", self.closures[nm])
        k = self.c.consts
        if nm in k:
            return self.pyval(k[nm])
        if nm in self.reg.consts:
            return self.pyval(self.reg.consts[nm])
        if self.spec_mode and nm in self.st.ghost:
            return mk_int(self.st.ghost[nm])
        # a module-level name of the file the (inlined) function was extracted from: read from the live module
        rel = getattr(self.x, "relpath", "") or ""
        if rel.endswith(".py") and not rel.startswith("<"):
            import importlib
            try:
                mod = importlib.import_module(rel[:-3].replace("/", "."))
                if hasattr(mod, nm):
                    return self.pyval(getattr(mod, nm))
            except ImportError:
                pass
        if self.spec_mode and re.fullmatch(r"L\d+_left_early", nm):
            return mk_int(z3.IntVal(0))          # the loop was not reached on this path: it was not left early either
        raise OutOfReach(f"{self.c.key}: unresolved name {nm}")

    def pyval(self, x) -> V:
        if isinstance(x, V):
            return x
        if isinstance(x, bool):
            return mk_bool(x)
        if isinstance(x, int):
            return mk_int(int(x))
        if isinstance(x, float):
            return mk_float(x)
        if isinstance(x, (bytes, bytearray)):
            return mk_bytes(bytes(x))
        if isinstance(x, str):
            return mk_str(x)
        if x is None:
            return NONE
        if isinstance(x, tuple):
            return mk_tuple([self.pyval(e) for e in x])
        return V("py", x)

    def ev_Attribute(self, n):
        d = self.dotted(n)
        if d is not None:
            root = d.split(".")[0]
            if root not in self.st.env and not (self.spec_mode and any(root in e for e in self.clause_env_stack)):
                if d in self.c.consts:
                    return self.pyval(self.c.consts[d])
                if d in self.reg.consts:
                    return self.pyval(self.reg.consts[d])
                if root in self.c.consts:
                    # attribute chain on a live constant (module, class, enum member): read natively
                    cur_ = self.c.consts[root]
                    try:
                        for p_ in d.split(".")[1:]:
                            cur_ = getattr(cur_, p_)
                        return self.pyval(cur_)
                    except AttributeError:
                        pass
        obj = self.ev(n.value)
        if obj.k == "opt" and obj.t[1].k in ("obj", "opaque"):
            if self.spec_mode:
                obj = obj.t[1]
            else:
                if self.branch(obj.t[0], f"none{getattr(n, 'lineno', 0) - self.x.lineno}"):
                    raise PyRaise("AttributeError")
                obj = obj.t[1]
        if obj.k == "obj":
            pr = self.reg.class_prop(obj.cls, n.attr)
            if pr is not None:
                return self.inline_method(pr, obj, [], {})
            return self.heap_get(obj, n.attr)
        if obj.k == "ilist" and n.attr == "maxlen":
            return mk_int(obj.t[2]) if obj.t[2] is not None else NONE
        if obj.k == "py":
            try:
                return self.pyval(getattr(obj.t, n.attr))
            except AttributeError:
                raise OutOfReach(f"py attr {n.attr}")
        if obj.k == "opaque" and d is not None and ("attr:" + d) in self.c.externals:
            summ_ = self.c.externals["attr:" + d]
            v_ = self.ext_result(summ_, d)
            if summ_.get("record_as") and not self.spec_mode:
                # a read of a mutable attribute of an unmodelled object, logged with the ghost facts the contract asks for
                # (e.g. how many calls of some other external had happened by then)
                self._hit_external(summ_)
                rec_ = {"result": v_}
                for k_, ex_ in summ_.get("record_ghost", {}).items():
                    rec_[k_] = self.clause_val(ex_, self.st, self.st, {})
                self.st.calls.setdefault(summ_["record_as"], []).append(rec_)
            return v_
        if obj.k == "opaque":
            # attribute of an unmodelled object: an opaque pure read (same value for the same object and attribute)
            fn_ = z3.Function(f"attr_{n.attr}", opaque_sort(obj.cls), opaque_sort("Any"))
            return V("opaque", fn_(obj.t), "Any")
        raise OutOfReach(f"{self.c.key}: attribute {n.attr} of {obj.k}")

    def ev_attr_of(self, obj, attr):
        if obj.k == "obj":
            return self.heap_get(obj, attr)
        raise OutOfReach(f"attr {attr} of {obj.k}")

    def ev_Tuple(self, n):
        out = []
        for e in n.elts:
            if isinstance(e, ast.Starred):
                v = self.ev(e.value)
                if v.k != "tuple":
                    raise OutOfReach("starred non-tuple")
                out.extend(v.t)
            else:
                out.append(self.ev(e))
        return mk_tuple(out)

    def ev_List(self, n):
        # list literal of ints -> ilist; otherwise concrete tuple-like
        vals = [self.ev(e) for e in n.elts]
        if not vals:
            return mk_tuple([])       # a list built element by element at concrete positions: modelled as a concrete sequence
        if all(v.k == "int" for v in vals):
            a = z3.K(z3.IntSort(), z3.IntVal(0))
            for i, v in enumerate(vals):
                a = z3.Store(a, i, v.t)
            return V("ilist", (a, z3.IntVal(len(vals)), None))
        return mk_tuple(vals)

    def ev_IfExp(self, n):
        c = self.truth(self.ev(n.test))
        cs = z3.simplify(c)
        if z3.is_true(cs):
            return self.ev(n.body)
        if z3.is_false(cs):
            return self.ev(n.orelse)
        if self.spec_mode:
            a, b = self.ev(n.body), self.ev(n.orelse)
            return self.ite(c, a, b)
        if self.branch(c, f"ifx{n.lineno - self.x.lineno}"):
            return self.ev(n.body)
        return self.ev(n.orelse)

    def ite(self, c, a: V, b: V) -> V:
        if a.k == b.k and a.k in ("int", "bool", "bytes", "float", "str", "opaque", "dir"):
            return V(a.k, z3.If(c, a.t, b.t), a.cls)
        if a.k == "bool" and b.k == "int" or a.k == "int" and b.k == "bool":
            return mk_int(z3.If(c, self.as_int(a), self.as_int(b)))
        if a.k == "tuple" and b.k == "tuple" and len(a.t) == len(b.t):
            return mk_tuple([self.ite(c, x, y) for x, y in zip(a.t, b.t)])
        if a.k == "opt" or b.k == "opt" or a.k == "none" or b.k == "none":
            ao, bo = self._as_opt(a, b), self._as_opt(b, a)
            return mk_opt(z3.If(c, ao.t[0], bo.t[0]), self.ite(c, ao.t[1], bo.t[1]))
        raise OutOfReach(f"ite {a.k}/{b.k}")

    def _as_opt(self, v: V, other: V) -> V:
        if v.k == "opt":
            return v
        if v.k == "none":
            inner = other.t[1] if other.k == "opt" else other
            return mk_opt(z3.BoolVal(True), inner)
        return mk_opt(z3.BoolVal(False), v)

    def ev_BoolOp(self, n):
        vals = n.values
        is_and = isinstance(n.op, ast.And)
        if self.spec_mode:
            ts = []
            for v in vals:
                t = self.truth(self.ev(v))
                ts.append(t)
                ts_ = z3.simplify(t)
                if (is_and and z3.is_false(ts_)) or (not is_and and z3.is_true(ts_)):
                    break       # lazy, like Python: later operands may mention locals undefined on this path
            return mk_bool(z3.And(ts) if is_and else z3.Or(ts))
        # value semantics with short-circuit
        cur = self.ev(vals[0])
        for idx, nxt in enumerate(vals[1:]):
            t = z3.simplify(self.truth(cur))
            decided = z3.is_true(t) or z3.is_false(t)
            if decided:
                if z3.is_true(t) == is_and:
                    cur = self.ev(nxt)
                # else: short-circuit, keep cur
                else:
                    return cur
                continue
            if self._pure(nxt) and cur.k in ("bool", "int", "opt", "bytes", "ilist"):
                try:
                    saved_pc_len = len(self.st.pc)
                    # the right operand only matters when the left one let evaluation continue: an Optional local tested by the
                    # left operand (`x is not None and x < n`) is known non-None there
                    saved_env_ = dict(self.st.env)
                    self.refine(vals[idx], is_and)
                    # ... and more generally the right operand is evaluated under what the left one established (`not r.c or
                    # not r.c.is_alive`: r.c is not None on the right); facts learnt there are kept conditionally
                    tcur_ = self.truth(cur)
                    asm_ = tcur_ if is_and else z3.Not(tcur_)
                    base_len_ = len(self.st.pc)
                    self.st.pc.append(asm_)
                    try:
                        nv = self.ev(nxt)
                    finally:
                        self.st.env = saved_env_
                        learnt_ = self.st.pc[base_len_ + 1:]
                        del self.st.pc[base_len_:]
                        self.st.pc.extend(z3.Implies(asm_, f_) for f_ in learnt_)
                    if cur.k == "bool" and nv.k == "bool":
                        cur = mk_bool(z3.And(cur.t, nv.t) if is_and else z3.Or(cur.t, nv.t))
                        continue
                    if not is_and and cur.k == "opt" and nv.k == cur.t[1].k and nv.k in ("int", "bytes"):
                        cur = V(nv.k, z3.If(self.truth(cur), cur.t[1].t, nv.t))
                        continue
                    if not is_and and cur.k == "int" and nv.k == "int":
                        cur = mk_int(z3.If(cur.t != 0, cur.t, nv.t))
                        continue
                except OutOfReach:
                    raise
            # general: fork
            lab = f"bo{getattr(n, 'lineno', 0) - self.x.lineno}_{idx}"
            tv = self.branch(self.truth(cur), lab)
            if tv == is_and:
                cur = self.ev(nxt)
            else:
                return cur
        return cur

    def _pure(self, node) -> bool:
        for x in ast.walk(node):
            if isinstance(x, ast.Call):
                d = self.dotted(x.func)
                if isinstance(x.func, ast.Name) and x.func.id in ("len", "abs", "min", "max", "int", "bool", "isinstance"):
                    continue
                return False
            if isinstance(x, (ast.Subscript,)):
                return False
        return True

    def ev_UnaryOp(self, n):
        v = self.ev(n.operand)
        if isinstance(n.op, ast.Not):
            return mk_bool(z3.Not(self.truth(v)))
        if isinstance(n.op, ast.USub):
            if v.k == "float":
                return mk_float(z3.fpNeg(v.t))
            return mk_int(-self.as_int(v))
        if isinstance(n.op, ast.UAdd):
            return v
        if isinstance(n.op, ast.Invert):
            if v.k == "dir":
                return V("dir", z3.Not(v.t))
            if v.k == "py":
                return self.pyval(~v.t)
            return mk_int(-self.as_int(v) - 1)
        raise OutOfReach("unary")

    def ev_BinOp(self, n):
        return self.binop(n.op, self.ev(n.left), self.ev(n.right))

    def binop(self, op, a: V, b: V) -> V:
        if a.k == "py" and b.k == "py":
            import operator
            ops = {ast.Add: operator.add, ast.Sub: operator.sub, ast.Mult: operator.mul, ast.BitOr: operator.or_,
                   ast.BitAnd: operator.and_, ast.LShift: operator.lshift}
            return self.pyval(ops[type(op)](a.t, b.t))
        if a.k == "py" and isinstance(a.t, int):
            a = mk_int(int(a.t))
        if b.k == "py" and isinstance(b.t, int):
            b = mk_int(int(b.t))
        # arithmetic on an Optional number: None raises TypeError, otherwise the number
        if a.k == "opt" and a.t[1].k in ("int", "bool") and b.k in ("int", "bool"):
            a = mk_int(self.as_int(a))
        if b.k == "opt" and b.t[1].k in ("int", "bool") and a.k in ("int", "bool"):
            b = mk_int(self.as_int(b))
        if a.k == "float" or b.k == "float":
            if isinstance(op, (ast.Add, ast.Sub, ast.Mult, ast.Div)):
                fa, fb = self.to_float(a), self.to_float(b)
                f = {ast.Add: z3.fpAdd, ast.Sub: z3.fpSub, ast.Mult: z3.fpMul, ast.Div: z3.fpDiv}[type(op)]
                return mk_float(f(RNE, fa, fb))
            raise OutOfReach("float op")
        if a.k == "bytes" and b.k == "opaque" and isinstance(op, ast.Add):
            return mk_bytes(z3.Concat(a.t, z3.Const(fresh_name("byteslike"), IntSeq)))    # bytes + bytes-like object
        if (a.k == "opaque") != (b.k == "opaque") and (a.k == "opaque" or b.k == "opaque"):
            o_ = a if a.k == "opaque" else b
            return V("opaque", z3.Const(fresh_name("binop"), opaque_sort(o_.cls)), o_.cls)     # operation on an unmodelled value
        if a.k == "opaque" and b.k == "opaque":
            return V("opaque", z3.Const(fresh_name("cat"), opaque_sort(a.cls)), a.cls)   # concatenation of unmodelled lists
        if a.k == "str" and b.k == "str" and isinstance(op, ast.Add):
            return V("str", z3.Concat(a.t, b.t))
        if a.k == "str" and isinstance(op, ast.Mod):
            return V("str", z3.String(fresh_name("fmt")))
        if a.k == "bytes" and b.k == "bytes" and isinstance(op, ast.Add):
            return mk_bytes(z3.Concat(a.t, b.t))
        if a.k == "bytes" and b.k in ("int", "bool") and isinstance(op, ast.Mult):
            return self.bytes_repeat(a, self.as_int(b))
        if a.k == "tuple" and b.k == "tuple" and isinstance(op, ast.Add):
            return mk_tuple(list(a.t) + list(b.t))
        if a.k in ("int", "bool") and b.k in ("int", "bool"):
            x, y = self.as_int(a), self.as_int(b)
            if isinstance(op, ast.Add):
                return mk_int(x + y)
            if isinstance(op, ast.Sub):
                return mk_int(x - y)
            if isinstance(op, ast.Mult):
                return mk_int(x * y)
            if isinstance(op, ast.FloorDiv):
                if not self.spec_mode and self.branch(y == 0, "div0"):
                    raise PyRaise("ZeroDivisionError")
                return mk_int(self.floordiv(x, y))
            if isinstance(op, ast.Mod):
                if not self.spec_mode and self.branch(y == 0, "mod0"):
                    raise PyRaise("ZeroDivisionError")
                return mk_int(x - y * self.floordiv(x, y))
            if isinstance(op, ast.Pow):
                xs, ys = z3.simplify(x), z3.simplify(y)
                if z3.is_int_value(xs) and z3.is_int_value(ys) and ys.as_long() >= 0:
                    return mk_int(xs.as_long() ** ys.as_long())
                raise OutOfReach("symbolic **")
            if isinstance(op, (ast.BitAnd, ast.BitOr, ast.BitXor, ast.LShift, ast.RShift)):
                return mk_int(self.bitop(op, x, y))
            if isinstance(op, ast.Div):
                return mk_float(z3.fpDiv(RNE, self.to_float(a), self.to_float(b)))
        raise OutOfReach(f"{self.c.key}: binop {type(op).__name__} on {a.k},{b.k}")

    def floordiv(self, x, y):
        # Python floor division; z3 div is Euclidean (rounds so that remainder >= 0)
        ys = z3.simplify(y)
        if z3.is_int_value(ys) and ys.as_long() > 0:
            return x / y
        return z3.If(y > 0, x / y, z3.If((x % y) == 0, x / y, -((-x) / y) - z3.If(((-x) % y) == 0, 0, 1) + 0))

    def bitop(self, op, x, y):
        xs, ys = z3.simplify(x), z3.simplify(y)
        if z3.is_int_value(xs) and z3.is_int_value(ys):
            import operator
            f = {ast.BitAnd: operator.and_, ast.BitOr: operator.or_, ast.BitXor: operator.xor,
                 ast.LShift: operator.lshift, ast.RShift: operator.rshift}[type(op)]
            return z3.IntVal(f(xs.as_long(), ys.as_long()))
        if isinstance(op, ast.LShift) and z3.is_int_value(ys):
            return x * (2 ** ys.as_long())
        if isinstance(op, ast.RShift) and z3.is_int_value(ys):
            return x / (2 ** ys.as_long())     # floor for positive divisor: matches Python >> on all ints
        if z3.is_int_value(xs) and not z3.is_int_value(ys):
            if isinstance(op, (ast.BitAnd, ast.BitOr, ast.BitXor)):
                xs, ys, x, y = ys, xs, y, x
        if z3.is_int_value(ys):
            c = ys.as_long()
            # exact on all Python ints (infinite two's complement): bit k of x is (x div 2^k) mod 2, introduced
            # through definitional variables x == 2^k*q + r, 0 <= r < 2^k, q == 2*h + b, 0 <= b <= 1 (linear)
            def bit(k):
                return self.bit_of(x, k)
            if c >= 0:
                bits = [k for k in range(c.bit_length()) if (c >> k) & 1]
                andv = _sum([bit(k) * (2 ** k) for k in bits])
                if isinstance(op, ast.BitAnd):
                    return andv
                if isinstance(op, ast.BitOr):
                    return x + c - andv
                if isinstance(op, ast.BitXor):
                    return x + c - 2 * andv
            else:
                m = -c - 1     # c == ~m with m >= 0
                bits = [k for k in range(m.bit_length()) if (m >> k) & 1]
                andm = _sum([bit(k) * (2 ** k) for k in bits])
                if isinstance(op, ast.BitAnd):
                    return x - andm          # x & ~m
                if isinstance(op, ast.BitOr):
                    return -(m - andm) - 1   # x | ~m == ~(m & ~x)
        raise OutOfReach("symbolic bit operation on two unknowns")

    # ---- struct: exact model for integer formats (B H I Q, b h i q, Ns, x) with explicit byte order
    _STRUCT_SIZES = {"B": 1, "b": 1, "H": 2, "h": 2, "I": 4, "i": 4, "L": 4, "l": 4, "Q": 8, "q": 8}

    def _struct_items(self, fmt: str):
        import re
        if not fmt or fmt[0] not in "!<>":
            raise OutOfReach(f"struct format without explicit byte order: {fmt!r}")
        big = fmt[0] in "!>"
        items = []
        for cnt, ch in re.findall(r"(\d*)([a-zA-Z?])", fmt[1:]):
            if ch == "s":
                items.append(("s", int(cnt or 1)))
            elif ch == "x":
                items.append(("x", int(cnt or 1)))
            elif ch in self._STRUCT_SIZES:
                for _ in range(int(cnt or 1)):
                    items.append((ch, self._STRUCT_SIZES[ch]))
            else:
                raise OutOfReach(f"struct format char {ch}")
        return big, items

    def struct_size(self, fmt):
        return sum(sz for _, sz in self._struct_items(fmt)[1])

    def struct_unpack(self, fmt: str, data: V) -> V:
        big, items = self._struct_items(fmt)
        total = sum(sz for _, sz in items)
        if data.k != "bytes":
            raise OutOfReach("struct.unpack of non-bytes")
        if self.branch(z3.Length(data.t) != total, "structlen"):
            raise PyRaise("struct.error")
        out = []
        off = 0
        for ch, sz in items:
            if ch == "x":
                off += sz
                continue
            if ch == "s":
                out.append(mk_bytes(z3.SubSeq(data.t, off, sz)))
                off += sz
                continue
            bs = [data.t[off + i] for i in range(sz)]
            for i, b in enumerate(bs):
                self.assume(z3.And(0 <= b, b <= 255))
                self._link_extract(data.t, z3.IntVal(off + i))
            if not big:
                bs = bs[::-1]
            val = bs[0]
            for b in bs[1:]:
                val = val * 256 + b
            if ch.islower():
                val = z3.If(val >= 2 ** (8 * sz - 1), val - 2 ** (8 * sz), val)
            out.append(mk_int(val))
            off += sz
        return mk_tuple(out)

    def seq_nth(self, t, i, depth=0):
        """t[i] with concatenations unfolded by the executor: nth(a ++ b, i) = ite(i < |a|, nth(a, i), nth(b, i - |a|)), a unit's
        element is the element. Neither solver unfolds nth-of-concat at a symbolic index reliably; unfolded, the obligation is
        arithmetic over the pieces. Agrees with seq.nth for every index inside the sequence."""
        if depth > 12 or not z3.is_app(t):
            return t[i]
        k = t.decl().kind()
        if k == z3.Z3_OP_SEQ_UNIT:
            return t.arg(0)
        if k == z3.Z3_OP_SEQ_CONCAT:
            parts = [t.arg(j) for j in range(t.num_args())]
            off = z3.IntVal(0)
            res = None
            terms = []
            for p_ in parts:
                terms.append((off, p_))
                off = z3.simplify(off + z3.Length(p_))
            res = self.seq_nth(terms[-1][1], z3.simplify(i - terms[-1][0]), depth + 1)
            for (o_, p_), (o_next, _) in reversed(list(zip(terms[:-1], terms[1:]))):
                res = z3.If(i < o_next, self.seq_nth(p_, z3.simplify(i - o_), depth + 1), res)
            return res
        return t[i]

    def _link_extract(self, t, i, depth=0):
        """t[i] == base[off + i] for t = seq.extract(base, off, len): stated explicitly, because neither solver unfolds
        nth-of-extract reliably. Valid whenever 0 <= off and i < len(t)."""
        if depth > 4 or not z3.is_app(t) or t.decl().kind() != z3.Z3_OP_SEQ_EXTRACT:
            return
        base, off, ln = t.arg(0), t.arg(1), t.arg(2)
        self.assume(z3.Implies(z3.And(off >= 0, 0 <= i, i < z3.Length(t)), t[i] == base[off + i]))
        self._link_extract(base, z3.simplify(off + i), depth + 1)

    def struct_pack(self, fmt: str, vals: List[V]) -> V:
        big, items = self._struct_items(fmt)
        vi = 0
        parts = []
        for ch, sz in items:
            if ch == "x":
                parts.extend([z3.Unit(z3.IntVal(0))] * sz)
                continue
            v = vals[vi]
            vi += 1
            if ch == "s":
                if v.k != "bytes":
                    raise OutOfReach("struct 's' of non-bytes")
                # struct pads/truncates to the field size; the model requires the exact size
                if self.branch(z3.Length(v.t) != sz, "structs"):
                    raise OutOfReach("struct 's' with a value of another length (padding/truncation not modelled)")
                parts.append(v.t)
                continue
            x = self.as_int(v)
            lo, hi = (-(2 ** (8 * sz - 1)), 2 ** (8 * sz - 1) - 1) if ch.islower() else (0, 2 ** (8 * sz) - 1)
            if not self.branch(z3.And(lo <= x, x <= hi), "structrange"):
                raise PyRaise("struct.error")
            u = z3.If(x < 0, x + 2 ** (8 * sz), x) if ch.islower() else x
            bs = []
            for i in range(sz):      # little-endian digits via definitional variables (linear)
                d = z3.Int(fresh_name("pb"))
                bs.append(d)
            acc = bs[sz - 1]
            for i in range(sz - 2, -1, -1):
                acc = acc * 256 + bs[i]
            self.assume(z3.And([z3.And(0 <= d, d <= 255) for d in bs] + [acc == u]))
            order = bs[::-1] if big else bs
            parts.extend(z3.Unit(d) for d in order)
        if vi != len(vals):
            raise PyRaise("struct.error")
        if not parts:
            return mk_bytes(b"")
        return mk_bytes(z3.Concat(*parts) if len(parts) > 1 else parts[0])

    def bit_of(self, x, k: int):
        key = (x.hash(), k)
        cache = self.__dict__.setdefault("_bitcache", {})
        hit = cache.get(key)
        if hit is not None and hit[0].eq(x):
            return hit[1]
        q = z3.Int(fresh_name("bq"))
        r = z3.Int(fresh_name("br"))
        h = z3.Int(fresh_name("bh"))
        b = z3.Int(fresh_name("bb"))
        m = 2 ** k
        self.st.pc.append(z3.And(x == m * q + r, 0 <= r, r < m, q == 2 * h + b, 0 <= b, b <= 1))
        cache[key] = (x, b)
        return b

    def bytes_repeat(self, a: V, n):
        zs = self.reg.spec_fn("rep")
        sa = z3.simplify(a.t)
        ns = z3.simplify(n)
        if z3.is_int_value(ns):
            k = ns.as_long()
            if k <= 0:
                return mk_bytes(b"")
            if k <= 64:
                return mk_bytes(z3.Concat(*([a.t] * k)) if k > 1 else a.t)
        # b"\x00" * n -> zeros(n) spec function when a is the single zero byte
        if sa.eq(z3.simplify(z3.Unit(z3.IntVal(0)))):
            zf = self.reg.spec_fn("zeros")
            return mk_bytes(zf.z3(z3.If(n > 0, n, 0)))
        raise OutOfReach("bytes * symbolic int")

    def ev_Compare(self, n):
        left = self.ev(n.left)
        conj = []
        for op, rn in zip(n.ops, n.comparators):
            right = self.ev(rn)
            conj.append(self.compare(op, left, right))
            left = right
        return mk_bool(z3.And(conj) if len(conj) > 1 else conj[0])

    def compare(self, op, a: V, b: V):
        if isinstance(op, (ast.Eq,)):
            return self.veq(a, b)
        if isinstance(op, ast.NotEq):
            return z3.Not(self.veq(a, b))
        if isinstance(op, ast.Is):
            if b.k == "none":
                return a.t[0] if a.k == "opt" else z3.BoolVal(a.k == "none")
            return self.veq(a, b)
        if isinstance(op, ast.IsNot):
            return z3.Not(self.compare(ast.Is(), a, b))
        if isinstance(op, (ast.In, ast.NotIn)):
            r = self.contains(b, a)
            return r if isinstance(op, ast.In) else z3.Not(r)
        if a.k == "py" and isinstance(a.t, int):
            a = mk_int(int(a.t))
        if b.k == "py" and isinstance(b.t, int):
            b = mk_int(int(b.t))
        if a.k == "float" or b.k == "float":
            fa, fb = self.to_float(a), self.to_float(b)
            return {ast.Lt: z3.fpLT, ast.LtE: z3.fpLEQ, ast.Gt: z3.fpGT, ast.GtE: z3.fpGEQ}[type(op)](fa, fb)
        if a.k == "opt" or b.k == "opt":
            # ordering against None raises TypeError in Python
            for o in (a, b):
                if o.k == "opt" and not self.spec_mode:
                    if self.branch(o.t[0], "cmpnone"):
                        raise PyRaise("TypeError")
            a = a.t[1] if a.k == "opt" else a
            b = b.t[1] if b.k == "opt" else b
        x, y = self.as_int(a), self.as_int(b)
        return {ast.Lt: lambda: x < y, ast.LtE: lambda: x <= y, ast.Gt: lambda: x > y, ast.GtE: lambda: x >= y}[type(op)]()

    def contains(self, cont: V, item: V):
        if cont.k == "ilist":
            a, n, _ = cont.t
            x = self.as_int(item)
            i = z3.Int(fresh_name("ci"))
            return z3.Exists([i], z3.And(0 <= i, i < n, a[i] == x))
        if cont.k == "tuple":
            return z3.Or([self.veq(item, e) for e in cont.t]) if cont.t else z3.BoolVal(False)
        if cont.k == "bytes" and item.k in ("int", "bool"):
            return z3.Contains(cont.t, z3.Unit(self.as_int(item)))
        if cont.k == "str" and item.k == "str":
            return z3.Contains(cont.t, item.t)
        if cont.k == "obj":
            cc = self.reg.method_contract(cont.cls, "__contains__")
            if cc is not None:
                return self.truth(self.contract_call(cc, cont, [item], ast.Call(func=ast.Name(id="contains"), args=[], keywords=[])))
        if cont.k == "opaque":
            return z3.Bool(fresh_name("member_of"))       # membership in an unmodelled container: unknown
        if cont.k == "py" and item.k in ("opaque", "str") and not (item.k == "str" and z3.is_string_value(z3.simplify(item.t))):
            return z3.Bool(fresh_name("member_of"))       # membership of a symbolic key in a live table: unknown
        if cont.k == "py" and isinstance(cont.t, (set, frozenset, tuple, list)):
            return z3.Or([self.veq(item, self.pyval(e)) for e in cont.t]) if cont.t else z3.BoolVal(False)
        raise OutOfReach(f"{self.c.key}: `in` on {cont.k}")

    def ev_Dict(self, n):
        vals = [self.ev(v_) for v_ in n.values]
        if all(isinstance(k, ast.Constant) and isinstance(k.value, (str, int)) for k in n.keys):
            return V("dictv", tuple((k.value, v_) for k, v_ in zip(n.keys, vals)))       # small dict with literal keys: concrete map
        return V("opaque", z3.Const(fresh_name("dict"), opaque_sort("Dict")), "Dict")

    def ev_Set(self, n):
        return V("py", frozenset()) if not n.elts else mk_tuple([self.ev(e) for e in n.elts])

    def ev_Subscript(self, n):
        base = self.ev(n.value)
        sl = n.slice
        if base.k == "none" and self.spec_mode:
            return NONE
        if base.k == "opt":
            if not self.spec_mode and self.branch(base.t[0], "subnone"):
                raise PyRaise("TypeError")
            base = base.t[1]
        if isinstance(sl, ast.Slice):
            if sl.step is not None:
                raise OutOfReach("slice step")
            if base.k == "bytes":
                ln = z3.Length(base.t)
                lo = z3.simplify(self._slice_idx(sl.lower, ln, 0))
                hi = z3.simplify(self._slice_idx(sl.upper, ln, None))
                t = z3.SubSeq(base.t, lo, z3.simplify(z3.If(hi > lo, hi - lo, 0)))
                if not self.spec_mode:
                    # word-equation view of the slice (what the sequence solvers reason with best):
                    # base == p ++ slice ++ q with |p| == lo
                    pfx = z3.Const(fresh_name("slp"), IntSeq)
                    sfx = z3.Const(fresh_name("slq"), IntSeq)
                    self.assume(z3.And(base.t == z3.Concat(pfx, t, sfx), z3.Length(pfx) == lo,
                                       z3.Length(t) == z3.If(hi > lo, hi - lo, 0)))
                return mk_bytes(t)
            if base.k == "str":
                return V("str", z3.String(fresh_name("substr")))      # an unspecified string (over-approximation)
            if base.k == "opaque":
                return V("opaque", z3.Const(fresh_name("slice"), opaque_sort(base.cls)), base.cls)
            if base.k == "tuple":
                lo = self._const_idx(sl.lower, 0, len(base.t))
                hi = self._const_idx(sl.upper, len(base.t), len(base.t))
                return mk_tuple(base.t[lo:hi])
            if base.k == "ilist" and sl.step is None:
                a_, n_, _ml = base.t
                lo = self._slice_idx(sl.lower, n_, 0)
                hi = self._slice_idx(sl.upper, n_, 1)
                a2 = z3.Array(fresh_name("sl_a"), z3.IntSort(), z3.IntSort())
                qi = z3.Int(fresh_name("qi"))
                n2 = z3.If(hi > lo, hi - lo, 0)
                self.assume(z3.ForAll([qi], z3.Implies(z3.And(0 <= qi, qi < n2), a2[qi] == a_[qi + lo]), patterns=[a2[qi]]))
                return V("ilist", (a2, n2, None))
            raise OutOfReach(f"slice of {base.k}")
        idx = self.ev(sl)
        if base.k == "dictv":
            key = self._const_key(idx)
            for k_, v_ in base.t:
                if k_ == key:
                    return v_
            raise PyRaise("KeyError")
        if base.k == "tuple":
            i = z3.simplify(self.as_int(idx))
            if z3.is_bv_value(i):
                i = z3.IntVal(i.as_signed_long())
            if not z3.is_int_value(i):
                raise OutOfReach("symbolic tuple index")
            try:
                return base.t[i.as_long()]
            except IndexError:
                raise PyRaise("IndexError")
        if base.k == "bytes":
            i = self.as_int(idx)
            ln = z3.Length(base.t)
            if not self.spec_mode:
                if not self.branch(z3.And(-ln <= i, i < ln), "idx"):
                    raise PyRaise("IndexError")
            if self.spec_mode:
                return mk_int(self.seq_nth(base.t, i))      # clauses index mathematically (authors guard 0 <= i < len)
            el = self.seq_nth(base.t, z3.If(i < 0, ln + i, i))
            self.assume(z3.And(0 <= el, el <= 255))
            self._link_extract(base.t, z3.simplify(z3.If(i < 0, ln + i, i)))
            return mk_int(el)
        if base.k == "ilist":
            a, nn, _ = base.t
            i = self.as_int(idx)
            if not self.spec_mode:
                if not self.branch(z3.And(-nn <= i, i < nn), "idx"):
                    raise PyRaise("IndexError")
            if self.spec_mode:
                return mk_int(a[i])
            return mk_int(a[z3.If(i < 0, nn + i, i)])
        if base.k == "py" and idx.k in ("str", "opaque") and not (idx.k == "str" and z3.is_string_value(z3.simplify(idx.t))):
            # lookup in a live table (enum class, dict) by a symbolic key: KeyError or some unmodelled member
            if not self.spec_mode and self.choose(f"lookup{getattr(n, 'lineno', 0) - self.x.lineno}", ["ok", "KeyError"]) == 1:
                raise PyRaise("KeyError")
            return V("opaque", z3.Const(fresh_name("member"), opaque_sort("Any")), "Any")
        if base.k == "py":
            i = z3.simplify(self.as_int(idx)) if idx.k in ("int", "bool") else None
            if i is not None and z3.is_int_value(i):
                return self.pyval(base.t[i.as_long()])
            if idx.k == "str" and z3.is_string_value(z3.simplify(idx.t)):
                return self.pyval(base.t[z3.simplify(idx.t).as_string()])
        if base.k == "obj" and self.reg.method_contract(base.cls, "__getitem__") is not None:
            return self.contract_call(self.reg.method_contract(base.cls, "__getitem__"), base, [idx], n)
        if base.k in ("obj", "opaque") and ("sub:" + ast.unparse(n)) in self.c.externals and not self.spec_mode:
            # a declared lookup on message-like data: a value of the declared sort (recorded in the ghost log when asked)
            summ_ = self.c.externals["sub:" + ast.unparse(n)]
            self._hit_external(summ_)
            self.used_assumptions.append(f"lookup {ast.unparse(n)}: {summ_.get('doc', 'declared summary')}")
            res_ = self.ext_result(summ_, "sub_" + re.sub(r"\W+", "_", ast.unparse(n)))
            if summ_.get("record_as"):
                self.st.calls.setdefault(summ_["record_as"], []).append({"result": res_})
            return res_
        if base.k in ("obj", "opaque"):
            # block / variable lookup on message-like data: an opaque pure read (assumption recorded)
            self.used_assumptions.append("subscript lookups on message/block data are pure reads that do not raise")
            if not self.spec_mode:
                self.st.calls.setdefault("getitem:" + ast.unparse(n.value), []).append({})
            if base.k == "opaque" and idx.k in ("int", "str"):
                ks_ = z3.simplify(idx.t)
                if z3.is_int_value(ks_) or z3.is_string_value(ks_):
                    # the same constant key on the same (unchanged) container reads the same item
                    fn_ = z3.Function("lookup_" + (base.cls or "Any") + ("_i" if idx.k == "int" else "_s"), opaque_sort(base.cls),
                                      z3.IntSort() if idx.k == "int" else z3.StringSort(), opaque_sort("Any"))
                    return V("opaque", fn_(base.t, ks_), "Any")
            return V("opaque", z3.Const(fresh_name("item"), opaque_sort("Any")), "Any")
        raise OutOfReach(f"{self.c.key}: subscript of {base.k}")

    def _slice_idx(self, node, ln, default):
        if node is None:
            return z3.IntVal(0) if default == 0 else ln
        i = self.as_int(self.ev(node))
        isimp = z3.simplify(i)
        if z3.is_int_value(isimp) and isimp.as_long() >= 0:
            return z3.If(isimp > ln, ln, isimp)
        i = z3.If(i < 0, z3.If(ln + i < 0, 0, ln + i), i)
        return z3.If(i > ln, ln, i)

    def _const_idx(self, node, default, ln):
        if node is None:
            return default
        i = z3.simplify(self.as_int(self.ev(node)))
        if not z3.is_int_value(i):
            raise OutOfReach("symbolic tuple slice")
        return i.as_long()

    def _const_key(self, idx: V):
        if idx.k == "str":
            sv = z3.simplify(idx.t)
            if z3.is_string_value(sv):
                return sv.as_string()
        if idx.k == "int":
            iv = z3.simplify(idx.t)
            if z3.is_int_value(iv):
                return iv.as_long()
            if z3.is_bv_value(iv):
                return iv.as_signed_long()
        if idx.k == "py":
            return idx.t
        raise OutOfReach("symbolic key into a concrete dict")

    def subscript_store(self, t, v):
        base = self.ev(t.value)
        if base.k == "dictv":
            key = self._const_key(self.ev(t.slice))
            items = [(k_, v_) for k_, v_ in base.t if k_ != key] + [(key, v)]
            self.store_back(t.value, V("dictv", tuple(items)))
            return
        if base.k in ("obj", "opaque"):
            # ghost log of the store (key, value): postconditions may use ncalls('store:<target>') / called_with
            try:
                key = self.ev(t.slice)
            except OutOfReach:
                key = NONE
            self.st.calls.setdefault("store:" + ast.unparse(t.value), []).append({"key": key, "value": v})
            if base.k == "opaque" and isinstance(t.value, (ast.Name, ast.Attribute)):
                # the container is a different value after the store (its len(), its lookups): nothing about it carries over
                try:
                    self.store_back(t.value, V("opaque", z3.Const(fresh_name("stored_" + (base.cls or "Any")), opaque_sort(base.cls)), base.cls))
                except OutOfReach:
                    pass
            return
        raise OutOfReach(f"{self.c.key}: subscript store on {base.k}")

    def ev_Await(self, n):
        # per-activation obligations only: no interleaving with other tasks is modelled (listed assumption)
        self.used_assumptions.append("await points: other tasks' interleavings are not modelled; obligations are per activation")
        return self.ev(n.value)

    def ev_Lambda(self, n):
        return V("func", n)

    def ev_GeneratorExp(self, n):
        return self.comprehension(n)

    ev_ListComp = ev_GeneratorExp

    # ------------------------------------------------------------------ calls
    def ev_Call(self, n):
        f = n.func
        d = self.dotted(f)
        # dropped callees (no effect on modelled state)
        if is_dropped_callee(d):
            return NONE
        # spec forms
        if isinstance(f, ast.Name):
            nm = f.id
            if self.spec_mode:
                r = self.spec_call(nm, n)
                if r is not None:
                    return r
            if nm in self.closures and nm not in self.st.env:
                return self.call_closure(self.closures[nm], n)
            if nm in self.st.env and self.st.env[nm].k == "func" and isinstance(self.st.env[nm].t, ast.FunctionDef):
                return self.call_closure(self.st.env[nm].t, n)
            if nm in self.st.env and self.st.env[nm].k in ("opaque", "opt") and f"call:{nm}" in self.c.externals:
                return self.ext_call(self.c.externals[f"call:{nm}"], nm, n)
            if nm in self.st.env and self.st.env[nm].k in ("opaque", "opt") and "call:opaque" in self.c.externals:
                return self.ext_call(self.c.externals["call:opaque"], nm, n)
            r = self.builtin_call(nm, n)
            if r is not None:
                return r
            fc = self.reg.function_contract(nm, getattr(self.x, "relpath", None))
            if fc is not None:
                return self.contract_call(fc, None, [self.ev(a) for a in n.args], n, {k.arg: self.ev(k.value) for k in n.keywords})
            sf = self.reg.spec_fn(nm) if self.spec_mode else None
            if sf is not None:
                return sf.apply(self, [self.ev(a) for a in n.args])
        if d is not None:
            cd = self.reg.class_by_callname(d)
            if cd is not None and cd.ctor is not None and d.split(".")[0] not in self.st.env:
                return self.construct(cd, n)
        if d in ("struct.unpack", "struct.pack") and n.args and isinstance(n.args[0], ast.Constant):
            fmt_ = n.args[0].value
            floaty = any(ch in fmt_ for ch in "fde")
            if not (floaty and d in self.c.externals):
                if d == "struct.unpack":
                    return self.struct_unpack(fmt_, self.ev(n.args[1]))
                return self.struct_pack(fmt_, [self.ev(a) for a in n.args[1:]])
        if d is not None and d.endswith((".pack", ".unpack")) and d.rsplit(".", 1)[0] in self.c.consts \
                and isinstance(self.c.consts[d.rsplit(".", 1)[0]], str):
            fmt = self.c.consts[d.rsplit(".", 1)[0]]       # a struct.Struct constant whose format is read from the live class
            if d.endswith(".unpack"):
                return self.struct_unpack(fmt, self.ev(n.args[0]))
            return self.struct_pack(fmt, [self.ev(a) for a in n.args])
        # externals by dotted pattern
        if d is not None and d in self.c.externals:
            return self.ext_call(self.c.externals[d], d, n)
        if isinstance(f, ast.Attribute) and isinstance(f.value, ast.Call) and isinstance(f.value.func, ast.Name) \
                and f.value.func.id == "super" and "self" in self.st.env and self.st.env["self"].k == "py":
            return self.py_super_call(self.st.env["self"], f.attr, n)
        if isinstance(f, ast.Attribute) and isinstance(f.value, ast.Call) and isinstance(f.value.func, ast.Name) \
                and f.value.func.id == "super" and "self" in self.st.env and self.st.env["self"].k == "obj":
            recv = self.st.env["self"]
            cur = getattr(self.x, "qualname", "").split(".")[0]
            for sup in self.reg._mro(cur)[1:]:
                cd = self.reg.classes.get(sup)
                spec = None
                if cd is not None:
                    spec = cd.ctor if f.attr == "__init__" else cd.inline.get(f.attr)
                if spec is not None:
                    args = [self.ev(a) for a in n.args]
                    kw = {k.arg: self.ev(k.value) for k in n.keywords}
                    return self.inline_method(spec, recv, args, kw)
            raise OutOfReach(f"{self.c.key}: super().{f.attr} of {cur}")
        if isinstance(f, ast.Attribute):
            return self.method_call(n)
        raise OutOfReach(f"{self.c.key}: call to {d or ast.unparse(f)}")

    def py_super_call(self, recv: V, meth: str, n: ast.Call) -> V:
        import inspect
        import os
        from .extract import REPO
        cur = getattr(self.x, "qualname", "").split(".")[0]
        mro = type(recv.t).__mro__
        start = 0
        for i, k in enumerate(mro):
            if k.__name__ == cur:
                start = i + 1
        for klass in mro[start:]:
            if meth in klass.__dict__ and klass.__module__.startswith("hippolyzer"):
                rel = os.path.relpath(inspect.getsourcefile(klass), REPO)
                args = [self.ev(a) for a in n.args]
                kw = {k.arg: self.ev(k.value) for k in n.keywords}
                return self.inline_method((rel, f"{klass.__qualname__}.{meth}"), recv, args, kw)
        raise OutOfReach(f"super().{meth}")

    def spec_call(self, nm, n) -> Optional[V]:
        if nm == "old":
            cur_old = self.old_stack[-1]
            saved = self.st
            view = cur_old.snapshot()
            view.pc = saved.pc
            self.st = view
            try:
                return self.ev(n.args[0])
            finally:
                self.st = saved
        if nm == "implies":
            a = self.truth(self.ev(n.args[0]))
            if z3.is_false(z3.simplify(a)):
                return mk_bool(True)       # lazy: the consequent may mention locals that do not exist on this path
            b = self.truth(self.ev(n.args[1]))
            return mk_bool(z3.Implies(a, b))
        if nm == "truthy":
            return mk_bool(self.truth(self.ev(n.args[0])))
        if nm == "intval":
            return mk_int(self.as_int(self.ev(n.args[0])))       # the integer an int-like (possibly unmodelled) value stands for
        if nm == "isa":
            return self.isinstance_model(self.ev(n.args[0]), n.args[1].value)
        if nm == "defined":
            return mk_bool(n.args[0].value in self.st.env)
        if nm == "iff":
            return mk_bool(self.truth(self.ev(n.args[0])) == self.truth(self.ev(n.args[1])))
        if nm in ("forall", "exists"):
            lam = n.args[0]
            if not isinstance(lam, ast.Lambda):
                raise OutOfReach("forall needs a lambda")
            names = [a.arg for a in lam.args.args]
            bound = [z3.Int(fresh_name("q_" + x)) for x in names]
            env = {x: mk_int(b) for x, b in zip(names, bound)}
            self.clause_env_stack.append(env)
            try:
                body = self.truth(self.ev(lam.body))
            finally:
                self.clause_env_stack.pop()
            return mk_bool(z3.ForAll(bound, body) if nm == "forall" else z3.Exists(bound, body))
        if nm == "ite":
            return self.ite(self.truth(self.ev(n.args[0])), self.ev(n.args[1]), self.ev(n.args[2]))
        if nm == "is_none":
            v = self.ev(n.args[0])
            return mk_bool(v.t[0] if v.k == "opt" else z3.BoolVal(v.k == "none"))
        if nm == "val":
            v = self.ev(n.args[0])
            return v.t[1] if v.k == "opt" else v
        if nm == "count":
            g = n.args[0].value
            return mk_int(self.st.ghost.get(g, z3.IntVal(0)))
        if nm == "ncalls":
            return self.pyval(len(self.st.calls.get(n.args[0].value, [])))
        if nm == "call_index":
            # index of the first recorded call satisfying the predicate, -1 if none (concrete along a path)
            lam = n.args[1]
            names = [a.arg for a in lam.args.args]
            for i_, rec in enumerate(self.st.calls.get(n.args[0].value, [])):
                vals = list(rec.values())
                envl = {nm_: (rec[nm_] if nm_ in rec else vals[j_]) for j_, nm_ in enumerate(names) if nm_ in rec or j_ < len(vals)}
                self.clause_env_stack.append(envl)
                try:
                    t_ = z3.simplify(self.truth(self.ev(lam.body)))
                finally:
                    self.clause_env_stack.pop()
                if z3.is_true(t_):
                    return self.pyval(i_)
                if not z3.is_false(t_):
                    raise OutOfReach("call_index: predicate not decided on a recorded call")
            return self.pyval(-1)
        if nm in ("stored_value", "stored_key"):
            recs = self.st.calls.get(n.args[0].value, [])
            if not recs:
                raise OutOfReach(f"{nm}: no store recorded for {n.args[0].value}")
            return recs[-1]["value" if nm == "stored_value" else "key"]
        if nm == "called_with":
            # called_with("name", lambda a, b, ...: pred) : some recorded call satisfies pred (args by position)
            lam = n.args[1]
            names = [a.arg for a in lam.args.args]
            outs = []
            for rec in self.st.calls.get(n.args[0].value, []):
                vals = list(rec.values())
                envl = {}
                for i_, nm_ in enumerate(names):
                    if nm_ in rec:
                        envl[nm_] = rec[nm_]
                    elif nm_.rstrip("_") in rec:
                        envl[nm_] = rec[nm_.rstrip("_")]     # 'result_' etc.: the same key, renamed so that nested lambdas can tell them apart
                    elif i_ < len(vals):
                        envl[nm_] = vals[i_]
                self.clause_env_stack.append(envl)
                try:
                    outs.append(self.truth(self.ev(lam.body)))
                finally:
                    self.clause_env_stack.pop()
            return mk_bool(z3.Or(outs) if outs else z3.BoolVal(False))
        if nm == "wf":
            v = self.ev(n.args[0])
            cd = self.reg.classes.get(v.cls)
            if cd is None:
                raise OutOfReach(f"wf of {v.cls}")
            ts = []
            self.clause_env_stack.append({"self": v})
            try:
                for inv in cd.inv:
                    node = ast.parse(inv, mode="eval").body
                    ts.append(self.truth(self.ev(node)))
            finally:
                self.clause_env_stack.pop()
            return mk_bool(z3.And(ts) if ts else z3.BoolVal(True))
        md = self.reg.macros.get(nm)
        if md is not None:
            params, body = md
            args = [self.ev(a) for a in n.args]
            self.clause_env_stack.append(dict(zip(params, args)))
            try:
                return self.ev(ast.parse(body, mode="eval").body)
            finally:
                self.clause_env_stack.pop()
        pd = self.reg.predicates.get(nm)
        if pd is not None:
            params, body = pd
            args = [self.ev(a) for a in n.args]
            if len(args) != len(params):
                raise OutOfReach(f"predicate {nm} arity")
            self.clause_env_stack.append(dict(zip(params, args)))
            try:
                return mk_bool(self.truth(self.ev(ast.parse(body, mode="eval").body)))
            finally:
                self.clause_env_stack.pop()
        sf = self.reg.spec_fn(nm)
        if sf is not None:
            return sf.apply(self, [self.ev(a) for a in n.args])
        return None

    def call_closure(self, fdef: ast.FunctionDef, n: ast.Call):
        if isinstance(fdef, ast.AsyncFunctionDef):
            return V("opaque", z3.Const(fresh_name("coroutine"), opaque_sort("Coroutine")), "Coroutine")
        # inline: shares the enclosing environment (reads of free variables, nonlocal writes);
        # parameters and plain locals shadow and are restored afterwards
        params = [a.arg for a in fdef.args.args]
        args = [self.ev(a) for a in n.args if not isinstance(a, ast.Starred)]
        extra = {}
        if fdef.args.vararg is not None:
            extra[fdef.args.vararg.arg] = V("opaque", z3.Const(fresh_name("varargs"), opaque_sort("Any")), "Any")
        if fdef.args.kwarg is not None:
            extra[fdef.args.kwarg.arg] = V("opaque", z3.Const(fresh_name("kwargs"), opaque_sort("Any")), "Any")
        if len(params) != len(args) or (n.keywords and not extra):
            raise OutOfReach("closure call shape")
        nonlocals = set()
        for y in ast.walk(fdef):
            if isinstance(y, ast.Nonlocal):
                nonlocals.update(y.names)
        stored = {x.id for x in ast.walk(fdef) if isinstance(x, ast.Name) and isinstance(x.ctx, ast.Store)}
        shadow = (stored - nonlocals) | set(params) | set(extra)
        saved = {k: self.st.env.get(k) for k in shadow}
        for p, a in zip(params, args):
            self.st.env[p] = a
        self.st.env.update(extra)
        try:
            try:
                self.exec_block(fdef.body)
                ret = NONE
            except _Return as r:
                ret = r.v
        finally:
            for k, v in saved.items():
                if v is None:
                    self.st.env.pop(k, None)
                else:
                    self.st.env[k] = v
        return ret

    def builtin_call(self, nm, n) -> Optional[V]:
        if nm == "range" and 1 <= len(n.args) <= 2 and not n.keywords:
            # a range object kept in a variable: only iteration over it is modelled
            a_ = [self.as_int(self.ev(x)) for x in n.args]
            return V("range", (z3.IntVal(0), a_[0]) if len(a_) == 1 else (a_[0], a_[1]))
        if nm == "len":
            v = self.ev(n.args[0])
            if v.k == "opt" and self.spec_mode:
                v = v.t[1]
            if v.k in ("bytes", "str"):
                return mk_int(z3.Length(v.t))
            if v.k == "ilist":
                return mk_int(v.t[1])
            if v.k == "tuple":
                return mk_int(len(v.t))
            if v.k == "obj":
                cc = self.reg.method_contract(v.cls, "__len__")
                if cc is not None:
                    return self.contract_call(cc, v, [], n)
                im = self.reg.class_inline(v.cls, "__len__")
                if im is not None:
                    return self.inline_method(im, v, [], {})
            if v.k == "py":
                return self.pyval(len(v.t))
            if v.k == "opaque":
                fn_ = z3.Function("len_" + v.cls, opaque_sort(v.cls), z3.IntSort())
                self.assume(fn_(v.t) >= 0)
                return mk_int(fn_(v.t))
            raise OutOfReach(f"{self.c.key}: len of {v.k}")
        if nm == "bytearray" or nm == "bytes":
            if not n.args:
                return mk_bytes(b"")
            v = self.ev(n.args[0])
            if v.k == "bytes":
                return v
            raise OutOfReach(f"bytes({v.k})")
        if nm in ("min", "max"):
            vals = [self.ev(a) for a in n.args]
            if len(vals) == 1 and vals[0].k == "tuple":
                vals = list(vals[0].t)
            if any(v.k == "float" for v in vals):
                cur = self.to_float(vals[0])
                for v in vals[1:]:
                    fv = self.to_float(v)
                    # Python: min(a,b) = b if b < a else a
                    cur = z3.If(z3.fpLT(fv, cur), fv, cur) if nm == "min" else z3.If(z3.fpGT(fv, cur), fv, cur)
                return mk_float(cur)
            cur = self.as_int(vals[0])
            for v in vals[1:]:
                x = self.as_int(v)
                cur = z3.If(x < cur, x, cur) if nm == "min" else z3.If(x > cur, x, cur)
            return mk_int(cur)
        if nm == "abs":
            v = self.ev(n.args[0])
            if v.k == "float":
                return mk_float(z3.fpAbs(v.t))
            x = self.as_int(v)
            return mk_int(z3.If(x < 0, -x, x))
        if nm == "int":
            v = self.ev(n.args[0])
            if v.k in ("int", "bool"):
                return mk_int(self.as_int(v))
            if v.k == "float":
                # int() truncates toward zero; the engine models it for finite values only
                r = z3.fpToReal(z3.fpRoundToIntegral(z3.RTZ(), v.t))
                return mk_int(z3.ToInt(r))
            if v.k == "py":
                return mk_int(int(v.t))
            if v.k == "opaque":
                return V("opaque", z3.Const(fresh_name("int_of"), opaque_sort(v.cls)), v.cls)
            if v.k == "str":
                if not self.spec_mode and self.choose(f"intparse{getattr(n, 'lineno', 0) - self.x.lineno}", ["ok", "ValueError"]) == 1:
                    raise PyRaise("ValueError")
                return mk_int(z3.Int(fresh_name("parsed")))
            raise OutOfReach(f"int({v.k})")
        if nm == "float":
            v = self.ev(n.args[0])
            if v.k in ("str", "opaque"):
                if not self.spec_mode and self.choose(f"floatparse{getattr(n, 'lineno', 0) - self.x.lineno}", ["ok", "ValueError"]) == 1:
                    raise PyRaise("ValueError")
                return mk_float(z3.FP(fresh_name("parsed"), FP64))
            return mk_float(self.to_float(v))
        if nm == "round":
            v = self.ev(n.args[0])
            if v.k == "float" and len(n.args) == 1:
                r = z3.fpToReal(z3.fpRoundToIntegral(RNE, v.t))
                return mk_int(z3.ToInt(r))
            raise OutOfReach("round")
        if nm == "bool":
            return mk_bool(self.truth(self.ev(n.args[0])))
        if nm == "tuple":
            if not n.args:
                return mk_tuple([])
            if isinstance(n.args[0], (ast.GeneratorExp, ast.ListComp)):
                return self.comprehension(n.args[0])
            v = self.ev(n.args[0])
            if v.k in ("tuple", "ilist", "opaque"):
                return v
            raise OutOfReach(f"tuple({v.k})")
        if nm == "str":
            for a_ in n.args:
                self.ev(a_)          # evaluation of the argument may raise
            return V("str", z3.String(fresh_name("str")))
        if nm == "list":
            if not n.args:
                return V("ilist", (z3.K(z3.IntSort(), z3.IntVal(0)), z3.IntVal(0), None))
            v = self.ev(n.args[0])
            if v.k in ("tuple", "ilist"):
                return v
            if v.k == "opaque":
                return V("opaque", z3.Const(fresh_name("copy"), opaque_sort(v.cls)), v.cls)      # a snapshot of an unmodelled iterable
            raise OutOfReach(f"list({v.k})")
        if nm == "isinstance":
            v = self.ev(n.args[0])
            if isinstance(n.args[1], ast.Tuple):
                return mk_bool(z3.Or([self.isinstance_model(v, self.dotted(e)).t for e in n.args[1].elts]))
            cls = self.dotted(n.args[1])
            return self.isinstance_model(v, cls)
        if nm == "RawBytes":
            v = self.ev(n.args[0])
            if v.k != "bytes":
                raise OutOfReach("RawBytes of non-bytes")
            return V("bytes", v.t, "RawBytes")
        if nm == "deque":
            ml = None
            for k in n.keywords:
                if k.arg == "maxlen":
                    mv = self.ev(k.value)
                    ml = None if mv.k == "none" else self.as_int(mv)
            if n.args:
                raise OutOfReach("deque(iterable)")
            return V("ilist", (z3.K(z3.IntSort(), z3.IntVal(0)), z3.IntVal(0), ml))
        return None

    def isinstance_model(self, v: V, cls: str) -> V:
        if v.k == "opt":
            inner = self.isinstance_model(v.t[1], cls)
            return mk_bool(z3.And(z3.Not(v.t[0]), inner.t))
        if v.k == "none":
            return mk_bool(False)
        table = {"int": ("int", "bool"), "bool": ("bool",), "bytes": ("bytes",), "float": ("float",), "str": ("str",),
                 "tuple": ("tuple",), "list": ("ilist",)}
        if cls == "RawBytes":
            return mk_bool(v.k == "bytes" and v.cls == "RawBytes")
        if cls in table and v.k in ("int", "bool", "bytes", "float", "str", "tuple", "ilist", "none"):
            return mk_bool(v.k in table[cls])
        if v.k == "obj":
            sup = self.reg.class_supers(v.cls)
            return mk_bool(cls in sup or cls.split(".")[-1] in sup)
        if v.k == "py":
            return mk_bool(cls.split(".")[-1] in [k_.__name__ for k_ in type(v.t).__mro__])
        if v.k == "opaque":
            # dynamic type of an unmodelled value: an uninterpreted predicate per class name
            fn_ = z3.Function("isinstance_" + cls.replace(".", "_"), opaque_sort(v.cls), z3.BoolSort())
            return mk_bool(fn_(v.t))
        raise OutOfReach(f"isinstance({v.k},{cls})")

    def inline_method(self, spec, recv: V, args: List[V], kw: Dict[str, V]) -> V:
        """execute the body of a small helper / @property of the real class in a fresh local frame"""
        from .extract import extract
        relpath, qual = spec
        x = extract(relpath, qual)
        self.inlined[(relpath, qual)] = x.sha256
        fdef = x.node
        if self.inline_depth > 12:
            raise OutOfReach("inline depth")
        for sub in ast.walk(fdef):
            if isinstance(sub, (ast.While,)):
                raise OutOfReach(f"inlined helper {qual} has a loop")
        params = [a.arg for a in fdef.args.args]
        env: Dict[str, V] = {}
        pi = 0
        if params and params[0] in ("self", "cls"):
            env[params[0]] = recv
            pi = 1
        rest = params[pi:]
        for p_, a in zip(rest, args):
            env[p_] = a
        for k, v in kw.items():
            env[k] = v
        defaults = fdef.args.defaults
        saved_x0 = self.x
        self.x = x            # default expressions are evaluated in the defining module's namespace
        try:
            for p_, d in zip(rest[len(rest) - len(defaults):], defaults):
                if p_ not in env:
                    env[p_] = self.ev(d)
        finally:
            self.x = saved_x0
        missing = [p_ for p_ in rest if p_ not in env]
        if missing:
            raise OutOfReach(f"inline {qual}: missing {missing}")
        saved_env, saved_x, saved_cl = self.st.env, self.x, self.closures
        saved_ord = (self.loop_ord, self.if_ord)
        self.st.env = env
        self.closures = {}
        self.x = x
        self.inline_depth += 1
        self.path_label.append(f"[{qual.split('.')[-1]}")
        try:
            try:
                self.exec_block(fdef.body)
                ret = NONE
            except _Return as r:
                ret = r.v
        finally:
            self.path_label.append("]")
            self.inline_depth -= 1
            self.st.env, self.x, self.closures = saved_env, saved_x, saved_cl
        return ret

    def comprehension(self, n):
        """[elt(x) for x in S if cond(x)] over an integer sequence S, where elt/cond are pure expressions or calls to
        contract methods with an empty frame. Built-in model of comprehension semantics: the result is the image under
        elt of the subsequence of S selected by cond, order kept (strictly increasing ghost index map)."""
        if len(n.generators) != 1 or n.generators[0].is_async or not isinstance(n.generators[0].target, ast.Name):
            raise OutOfReach(f"{self.c.key}: comprehension shape")
        gen = n.generators[0]
        S = self.ev(gen.iter)
        if S.k in ("opaque", "str"):
            # comprehension over an unmodelled iterable: the body is evaluated once on an arbitrary element (its calls may fork /
            # raise), the result is an unmodelled sequence
            tname_ = gen.target.id
            saved_ = self.st.env.get(tname_)
            self.st.env[tname_] = V("str", z3.String(fresh_name("elem"))) if S.cls == "StrList" or S.k == "str" else \
                V("opaque", z3.Const(fresh_name("elem"), opaque_sort("Any")), "Any")
            try:
                for c_ in gen.ifs:
                    self.ev(c_)
                self.ev(n.elt)
            finally:
                if saved_ is None:
                    self.st.env.pop(tname_, None)
                else:
                    self.st.env[tname_] = saved_
            keep = isinstance(n.elt, ast.Name) and n.elt.id == tname_ and S.k == "opaque"
            cls_ = S.cls if keep else "List"
            return V("opaque", z3.Const(fresh_name("comp"), opaque_sort(cls_)), cls_)
        if S.k != "ilist":
            raise OutOfReach(f"{self.c.key}: comprehension over {S.k}")
        sa, sn, _ = S.t
        xq = z3.Int(fresh_name("cx"))
        tname = gen.target.id
        saved = self.st.env.get(tname)
        comp = {"bound": xq, "posts": [], "oblig": [], "guard": z3.BoolVal(True)}
        outer = self._comp
        self._comp = comp
        self.st.env[tname] = mk_int(xq)
        try:
            conds = [self.truth(self.ev(c)) for c in gen.ifs]
            P = z3.And(conds) if conds else z3.BoolVal(True)
            comp["guard"] = P
            elt = self.ev(n.elt)
        finally:
            self._comp = outer
            if saved is None:
                self.st.env.pop(tname, None)
            else:
                self.st.env[tname] = saved
        if elt.k not in ("int", "bool"):
            raise OutOfReach(f"{self.c.key}: comprehension element {elt.k}")
        E = self.as_int(elt)
        i = z3.Int(fresh_name("qi"))
        j = z3.Int(fresh_name("qj"))
        k = z3.Int(fresh_name("qk"))
        inst = lambda f, term: z3.substitute(f, (xq, term))
        for pst in comp["posts"]:
            self.assume(z3.ForAll([xq], pst))
        # obligations: every call made inside is within its precondition and does not raise
        for lab, ob in comp["oblig"]:
            g = z3.ForAll([i], z3.Implies(z3.And(0 <= i, i < sn), inst(ob, sa[i])))
            self.path_label.append(f"comp{getattr(n, 'lineno', 0) - self.x.lineno}")
            self.emit("comp-pre", g, clause=lab)
            self.path_label.pop()
        oa = z3.Array(fresh_name("comp_a"), z3.IntSort(), z3.IntSort())
        on = z3.Int(fresh_name("comp_n"))
        idx = z3.Function(fresh_name("comp_idx"), z3.IntSort(), z3.IntSort())
        self.assume(z3.And(0 <= on, on <= sn))
        self.assume(z3.ForAll([j], z3.Implies(z3.And(0 <= j, j < on),
                                              z3.And(0 <= idx(j), idx(j) < sn, inst(P, sa[idx(j)]),
                                                     oa[j] == inst(E, sa[idx(j)]))), patterns=[idx(j)]))
        self.assume(z3.ForAll([j, k], z3.Implies(z3.And(0 <= j, j < k, k < on), idx(j) < idx(k)), patterns=[z3.MultiPattern(idx(j), idx(k))]))
        self.assume(z3.ForAll([i], z3.Implies(z3.And(0 <= i, i < sn, inst(P, sa[i])),
                                              z3.Exists([j], z3.And(0 <= j, j < on, idx(j) == i)))))
        self.used_assumptions.append("comprehension semantics: built-in model (filtered image, order kept)")
        return V("ilist", (oa, on, None))

    def method_call(self, n: ast.Call) -> V:
        f = n.func
        meth = f.attr
        recv = self.ev(f.value)
        if recv.k == "opt" and recv.t[1].k == "obj":
            if not self.spec_mode and self.branch(recv.t[0], f"nonecall{getattr(n, 'lineno', 0) - self.x.lineno}"):
                raise PyRaise("AttributeError")
            recv = recv.t[1]
        if recv.k == "dictv" and meth == "get" and 1 <= len(n.args) <= 2 and not n.keywords:
            key = self.ev(n.args[0])
            dflt = self.ev(n.args[1]) if len(n.args) == 2 else NONE
            if not recv.t:
                return dflt                     # {}.get(k, d) is d for every key
            ks = z3.simplify(key.t) if key.k in ("int", "str") else None
            if ks is not None and (z3.is_int_value(ks) or z3.is_string_value(ks)):
                kc = ks.as_long() if z3.is_int_value(ks) else ks.as_string()
                for k_, v_ in recv.t:
                    if k_ == kc:
                        return v_
                return dflt
            raise OutOfReach(f"{self.c.key}: dict.get with a symbolic key on a non-empty literal dict")
        if recv.k == "obj":
            im = self.reg.class_inline(recv.cls, meth)
            if im is not None:
                args = [self.ev(a) for a in n.args]
                kw = {k.arg: self.ev(k.value) for k in n.keywords}
                return self.inline_method(im, recv, args, kw)
        if recv.k == "py":
            r = self.py_method(recv, meth, n)
            if r is not None:
                return r
        if recv.k == "str":
            if meth in ("startswith", "endswith") and len(n.args) == 1:
                a0 = self.ev(n.args[0])
                if a0.k == "str":
                    return mk_bool(z3.PrefixOf(a0.t, recv.t) if meth == "startswith" else z3.SuffixOf(a0.t, recv.t))
            if meth in ("strip", "rstrip", "lstrip", "upper", "lower", "split"):
                for a_ in n.args:
                    self.ev(a_)
                if meth == "split":
                    return V("opaque", z3.Const(fresh_name("split"), opaque_sort("StrList")), "StrList")
                return V("str", z3.String(fresh_name("s_" + meth)))       # an unspecified string (over-approximation)
        if recv.k == "bytes":
            if meth == "append":
                x = self.as_int(self.ev(n.args[0]))
                if not self.spec_mode:
                    if not self.branch(z3.And(0 <= x, x <= 255), "byterange"):
                        raise PyRaise("ValueError")
                self.store_back(f.value, mk_bytes(snoc(recv.t, x)))
                return NONE
            if meth == "extend":
                b = self.ev(n.args[0])
                if b.k != "bytes":
                    raise OutOfReach("extend non-bytes")
                self.store_back(f.value, mk_bytes(z3.Concat(recv.t, b.t)))
                return NONE
            if meth == "endswith":
                b = self.ev(n.args[0])
                return mk_bool(z3.SuffixOf(b.t, recv.t))
            if meth == "startswith":
                b = self.ev(n.args[0])
                return mk_bool(z3.PrefixOf(b.t, recv.t))
        if recv.k == "tuple" and meth in ("append", "insert", "extend"):
            if meth == "append":
                self.store_back(f.value, mk_tuple(list(recv.t) + [self.ev(n.args[0])]))
                return NONE
            if meth == "insert":
                idx = z3.simplify(self.as_int(self.ev(n.args[0])))
                if z3.is_int_value(idx):
                    lst = list(recv.t)
                    lst.insert(idx.as_long(), self.ev(n.args[1]))
                    self.store_back(f.value, mk_tuple(lst))
                    return NONE
            if meth == "extend":
                other = self.ev(n.args[0])
                if other.k == "tuple":
                    self.store_back(f.value, mk_tuple(list(recv.t) + list(other.t)))
                    return NONE
                if other.k == "ilist" and not recv.t:
                    self.store_back(f.value, other)
                    return NONE
        if recv.k == "ilist":
            a, nn, ml = recv.t
            if meth == "append":
                x = self.as_int(self.ev(n.args[0]))
                if ml is None:
                    self.store_back(f.value, V("ilist", (z3.Store(a, nn, x), nn + 1, None)))
                    return NONE
                a2 = z3.Array(fresh_name("dq_a"), z3.IntSort(), z3.IntSort())
                n2 = z3.Int(fresh_name("dq_n"))
                i = z3.Int(fresh_name("qi"))
                self.assume(z3.Implies(nn < ml, z3.And(a2 == z3.Store(a, nn, x), n2 == nn + 1)))
                self.assume(z3.Implies(nn >= ml, z3.And(
                    z3.ForAll([i], z3.Implies(z3.And(0 <= i, i < nn - 1), a2[i] == a[i + 1]), patterns=[a2[i]]),
                    a2[nn - 1] == x, n2 == nn)))
                self.store_back(f.value, V("ilist", (a2, n2, ml)))
                return NONE
            if meth == "clear":
                self.store_back(f.value, V("ilist", (z3.K(z3.IntSort(), z3.IntVal(0)), z3.IntVal(0), ml)))
                return NONE
            if meth == "insert":
                idx = z3.simplify(self.as_int(self.ev(n.args[0])))
                x = self.as_int(self.ev(n.args[1]))
                if z3.is_int_value(idx) and idx.as_long() == 0 and ml is None:
                    a2 = z3.Array(fresh_name("ins_a"), z3.IntSort(), z3.IntSort())
                    i = z3.Int(fresh_name("qi"))
                    # shifted copy, stated for the pattern a2[i] (the form reads of the new list take) as well as a2[i + 1]
                    self.assume(z3.ForAll([i], z3.Implies(z3.And(1 <= i, i <= nn), a2[i] == a[i - 1]), patterns=[a2[i]]))
                    self.assume(a2[0] == x)
                    self.store_back(f.value, V("ilist", (a2, nn + 1, None)))
                    return NONE
        if recv.k == "obj":
            cc = self.reg.method_contract(recv.cls, meth)
            if cc is not None:
                args = [self.ev(a) for a in n.args]
                kw = {k.arg: self.ev(k.value) for k in n.keywords}
                return self.contract_call(cc, recv, args, n, kw)
            d = f"{recv.cls}.{meth}"
            if d in self.c.externals:
                return self.ext_call(self.c.externals[d], d, n, recv)
            for fc in self.reg.fns.values():
                if fc.cls is None and fc.qualname == f"{recv.cls}.{meth}" and not fc.source:
                    # a @staticmethod under contract, called through the instance
                    return self.contract_call(fc, None, [self.ev(a) for a in n.args], n, {k.arg: self.ev(k.value) for k in n.keywords})
        if recv.k in ("opaque", "opt", "none") and f"*.{meth}" in self.c.externals:
            if recv.k in ("opt", "none") and not self.spec_mode:
                isnone = recv.t[0] if recv.k == "opt" else z3.BoolVal(True)
                if self.branch(isnone, f"nonecall{getattr(n, 'lineno', 0) - self.x.lineno}"):
                    raise PyRaise("AttributeError")
            return self.ext_call(self.c.externals[f"*.{meth}"], f"*.{meth}", n)
        raise OutOfReach(f"{self.c.key}: method {meth} on {recv.k}{':'+recv.cls if recv.cls else ''}")

    def construct(self, cd, n: ast.Call) -> V:
        obj = V("obj", fresh_name("new_" + cd.name), cd.name)
        self.fresh_objs.add(obj.t)
        args = [self.ev(a) for a in n.args]
        kw = {k.arg: self.ev(k.value) for k in n.keywords}
        self.inline_method(cd.ctor, obj, args, kw)
        return obj

    def py_method(self, recv: V, meth: str, n: ast.Call) -> Optional[V]:
        """method call on a concrete Python object taken from the live module (e.g. se.U8): struct.Struct is a built-in
        model; methods of hippolyzer classes are inlined from their source in /repo"""
        import inspect
        import struct as _struct
        o = recv.t
        if isinstance(o, dict) and meth in ("items", "keys", "values") and not n.args:
            return V("py", tuple(getattr(o, meth)()))
        if isinstance(o, _struct.Struct):
            if meth == "pack":
                return self.struct_pack(o.format, [self.ev(a) for a in n.args])
            if meth == "unpack":
                return self.struct_unpack(o.format, self.ev(n.args[0]))
            return None
        for klass in type(o).__mro__:
            if meth in klass.__dict__ and klass.__module__.startswith("hippolyzer"):
                try:
                    src = inspect.getsourcefile(klass)
                except TypeError:
                    return None
                from .extract import REPO
                import os
                rel = os.path.relpath(src, REPO)
                if rel.startswith(".."):
                    raise OutOfReach(f"class {klass.__name__} is not loaded from {REPO}")
                args = [self.ev(a) for a in n.args]
                kw = {k.arg: self.ev(k.value) for k in n.keywords}
                return self.inline_method((rel, f"{klass.__qualname__}.{meth}"), recv, args, kw)
        return None

    def store_back(self, target_node, v: V):
        if isinstance(target_node, ast.Name):
            self.st.env[target_node.id] = v
        elif isinstance(target_node, ast.Attribute):
            obj = self.ev(target_node.value)
            if obj.k != "obj":
                raise OutOfReach("mutation through an attribute of an unmodelled object")
            self.heap_set(obj, target_node.attr, v)
        else:
            raise OutOfReach("mutation through expression")

    # ---- contract calls: assert pre, havoc frame, assume post
    def contract_call(self, cc, recv: Optional[V], args: List[V], n, kw=None) -> V:
        kw = kw or {}
        env: Dict[str, V] = {}
        if recv is not None:
            env["self"] = recv
        pnames = cc.param_names
        for p, a in zip(pnames, args):
            env[p] = a
        for k, v in kw.items():
            env[k] = v
        for p in list(env):
            if p in cc.params and env[p].k == "opt" and not cc.params[p].startswith("Opt["):
                if self.branch(env[p].t[0], f"argnone_{p}"):
                    raise PyRaise("TypeError")
                env[p] = env[p].t[1]
        for p in list(env):
            if p in cc.params:
                env[p] = self.coerce(env[p], parse_sort(cc.params[p]))
        for p in pnames:
            if p not in env:
                if p in cc.defaults:
                    env[p] = self.pyval(cc.defaults[p])
                else:
                    raise OutOfReach(f"{self.c.key}: call to {cc.key} misses argument {p}")
        lab = f"call{getattr(n, 'lineno', 0) - self.x.lineno}"
        if self._comp is not None and not self.spec_mode:
            return self._comp_call(cc, env)
        pre_state = self.st.snapshot()
        for r in cc.all_requires(self.reg):
            g = self.clause_bool(r, self.st, pre_state, env)
            self.path_label.append(lab)
            self.emit("call-pre", g, clause=f"{cc.key}: {r}")
            self.path_label.pop()
            self.assume(g)
        # exceptional outcomes
        outcomes = ["ok"] + list(cc.raises.keys()) + [e for e in cc.may_raise if e not in cc.raises]
        which = 0
        if len(outcomes) > 1:
            which = self.choose(lab, outcomes)
        if which > 0:
            exc = outcomes[which]
            cond = cc.raises.get(exc, cc.may_raise.get(exc))
            if cond:
                self.assume(self.clause_bool(cond, self.st, pre_state, env))
            if self.quick_prune and not self._feasible():
                raise PathAbort()
            # exceptional frame: state may be partially modified unless the callee says otherwise
            if not cc.raise_preserves_state:
                self._havoc_frame(cc, recv, env)
            for cl in cc.ensures_on_raise:
                if "ncalls(" in cl or "called_with(" in cl or "count(" in cl:
                    continue
                self.assume(self.clause_bool(cl, self.st, pre_state, env))
            raise PyRaise(exc)
        for exc, cond in cc.raises.items():
            self.assume(z3.Not(self.clause_bool(cond, self.st, pre_state, env)))
        if self.quick_prune and len(outcomes) > 1 and not self._feasible():
            raise PathAbort()
        self._havoc_frame(cc, recv, env)
        facts: List[Any] = []
        res = fresh_of_sort(parse_sort(cc.returns), "ret_" + cc.qualname.split(".")[-1], facts) if cc.returns else NONE
        for fct in facts:
            self.assume(fct)
        env2 = dict(env)
        env2["result"] = res
        for e in cc.all_ensures(self.reg):
            if "ncalls(" in e or "called_with(" in e or "count(" in e:
                continue        # clauses about the callee's own ghost call log say nothing in the caller's frame
            self.assume(self.clause_bool(e, self.st, pre_state, env2))
        for g, inc in cc.ghost_effects.items():
            cur = self.st.ghost.get(g, z3.IntVal(0))
            self.st.ghost[g] = cur + inc
        if cc.record_as:
            self.st.calls.setdefault(cc.record_as, []).append(dict(env, result=res))
        return res

    def _comp_call(self, cc, env) -> V:
        """call to a pure contract method inside a comprehension body (argument contains the bound variable)"""
        comp = self._comp
        if cc.frame:
            raise OutOfReach(f"{self.c.key}: impure call to {cc.key} inside a comprehension")
        st = self.st
        guard = comp["guard"]
        pre = [self.clause_bool(r, st, st, env) for r in cc.all_requires(self.reg)]
        rcs = [self.clause_bool(cond, st, st, env) for cond in cc.raises.values() if cond]
        if cc.may_raise:
            raise OutOfReach(f"{self.c.key}: callee {cc.key} may raise unconditionally inside a comprehension")
        for r, g in zip(cc.all_requires(self.reg), pre):
            comp["oblig"].append((f"{cc.key}: {r}", z3.Implies(guard, g)))
        for (exc, cond), g in zip(cc.raises.items(), rcs):
            comp["oblig"].append((f"{cc.key}: no {exc} ({cond})", z3.Implies(guard, z3.Not(g))))
        srt = parse_sort(cc.returns)
        zs = {"int": z3.IntSort(), "bool": z3.BoolSort()}.get(srt[0])
        if zs is None:
            raise OutOfReach("comprehension callee result sort")
        fn_ = z3.Function(fresh_name("cf_" + cc.qualname.split(".")[-1]), z3.IntSort(), zs)
        res = V(srt[0], fn_(comp["bound"]))
        env2 = dict(env)
        env2["result"] = res
        ok = z3.And(pre + [z3.Not(g) for g in rcs]) if (pre or rcs) else z3.BoolVal(True)
        for e in cc.ensures:
            comp["posts"].append(z3.Implies(ok, self.clause_bool(e, st, st, env2)))
        return res

    def _havoc_frame(self, cc, recv, env):
        if cc.frame is None:
            raise OutOfReach(f"callee {cc.key} has no frame")
        for path in cc.frame:
            if path.startswith("*."):
                # the callee may change this field of any object
                fld = path[2:]
                st_ = self.st
                st_.wild = st_.wild | {fld}
                for (o_, f_) in set(st_.heap) | set(st_.init_heap):
                    if f_ == fld:
                        cur_ = st_.heap.get((o_, f_), st_.init_heap.get((o_, f_)))
                        if cur_.k != "obj":
                            st_.heap[(o_, f_)] = self._havoc_value(cur_, f"{o_}.{f_}")
                continue
            if "." in path:
                root, fld = path.rsplit(".", 1)
                try:
                    objv = self.clause_val(root, self.st, self.st, env)
                except OutOfReach:
                    continue
            else:
                objv, fld = recv, path
            if objv is None or objv.k != "obj":
                continue
            cur = self.heap_get(objv, fld)
            self.heap_set(objv, fld, self._havoc_value(cur, f"{objv.t}.{fld}"))

    # ---- externals: declared effect summaries (assumptions, listed in evidence)
    def ext_call(self, summ: dict, d: str, n: ast.Call, recv: Optional[V] = None) -> V:
        self._hit_external(summ)
        args = []
        for a in n.args:
            if isinstance(a, ast.Starred):
                if not isinstance(a.value, ast.Name):       # a bare name has nothing to execute
                    try:
                        self.ev(a.value)        # evaluating the unpacked expression may itself call, raise or fork
                    except OutOfReach:
                        if not summ.get("ignore_args"):
                            raise
                args.append(NONE)
                continue
            try:
                args.append(self.ev(a))
            except OutOfReach:
                if summ.get("ignore_args"):
                    args.append(NONE)
                else:
                    raise
        kwvals = {}
        for kw_ in n.keywords:
            if kw_.arg:
                try:
                    kwvals[kw_.arg] = self.ev(kw_.value)       # evaluating an argument may itself raise / fork
                except OutOfReach:
                    if not summ.get("ignore_args"):
                        raise
        self.used_assumptions.append(f"external {d}: {summ.get('doc', 'declared summary')}")
        lab = f"ext{getattr(n, 'lineno', 0) - self.x.lineno}"
        if summ.get("pure"):
            # a pure observer: the same call yields the same value along a path
            cache = self.st.ghost.setdefault("__pure__", {})
            if d in cache:
                return cache[d]
            r_ = self.ext_result(summ, d)
            cache[d] = r_
            return r_
        if summ.get("uses_recv") and recv is None and isinstance(n.func, ast.Attribute):
            recv = self.ev(n.func.value)        # the receiver the summary's clauses talk about
        if summ.get("record_as"):
            rec_ = {f"arg{i}": a for i, a in enumerate(args)}
            rec_.update(kwvals)                 # keyword arguments by their own names
            if recv is not None:
                rec_["recv"] = recv
            self.st.calls.setdefault(summ["record_as"], []).append(rec_)
        mr = summ.get("may_raise")
        if mr and n is self._merge_raise_stmt:
            mr = None       # swallowed by the enclosing effect-free catch-all: same continuation either way
        if mr and self._raise_is_free(n, [mr] if isinstance(mr, str) else list(mr)):
            mr = None       # that raise ends the function with an exception its contract admits unconditionally: no obligation
        if mr:
            excs = [mr] if isinstance(mr, str) else list(mr)
            w = self.choose(lab, ["ok"] + excs)
            if w > 0 and summ.get("raise_only_if"):
                envr = {f"arg{i}": a for i, a in enumerate(args)}
                if recv is not None:
                    envr["recv"] = recv
                self.assume(self.clause_bool(summ["raise_only_if"], self.st, self.st, envr))
                if self.quick_prune and not self._feasible():
                    raise PathAbort()
            if w > 0:
                for g, inc in summ.get("ghost_on_raise", {}).items():
                    self.st.ghost[g] = self.st.ghost.get(g, z3.IntVal(0)) + inc
                self._ext_havoc(summ, args)
                self._ext_snapshot(summ)
                raise PyRaise(excs[w - 1])
        for g, inc in summ.get("ghost", {}).items():
            self.st.ghost[g] = self.st.ghost.get(g, z3.IntVal(0)) + inc
        self._ext_havoc(summ, args)
        self._ext_snapshot(summ)
        if summ.get("native_call") is not None and all(a_.k == "py" for a_ in args) and not kwvals:
            # pure constructor over live constants only: run it
            res = self.pyval(summ["native_call"](*[a_.t for a_ in args]))
        else:
            res = self.ext_result(summ, d, args)
        if summ.get("record_as") and self.st.calls.get(summ["record_as"]):
            self.st.calls[summ["record_as"]][-1]["result"] = res
        post = summ.get("post")
        if post:
            env = dict(self.entry.env)       # parameters of the function under verification (visible from inlined frames too)
            env["result"] = res
            for i, a in enumerate(args):
                env[f"arg{i}"] = a
            for k_, v_ in kwvals.items():
                env[f"kw_{k_}"] = v_
            if recv is not None:
                env["recv"] = recv
            for p in ([post] if isinstance(post, str) else post):
                self.assume(self.clause_bool(p, self.st, self.st, env))
        return res

    def _rooted_at_local(self, key: str) -> bool:
        """is the external named through something a harmless edit may rename - a local variable or a parameter (other than
        self / cls) of the verified function as the contract knew it? Keys rooted at self, a module, a class or a built-in are not:
        when such a call disappears the obligations are left to fail."""
        k = key
        for pre in ("sub:", "with:", "attr:", "call:"):
            if k.startswith(pre):
                k = k[len(pre):]
        m_ = re.match(r"[A-Za-z_][A-Za-z_0-9]*", k)
        if not m_ or k.startswith("*."):
            return False
        root = m_.group(0)
        if root in ("self", "cls"):
            return False
        # the contract's own view of the function's locals: parameters it declares and names its clauses / loop specs mention
        c = self.c
        declared = set(c.params) | set(c.param_names)
        text = " ".join(list(c.ensures) + list(c.requires) + [str(v_) for v_ in c.loops.values()] + [str(k_) for k_ in c.loops])
        fn_locals = set()
        node = getattr(self.x, "node", None)
        if node is not None:
            for n_ in ast.walk(node):
                if isinstance(n_, ast.Name) and isinstance(n_.ctx, ast.Store):
                    fn_locals.add(n_.id)
                elif isinstance(n_, ast.arg) and n_.arg not in ("self", "cls"):
                    fn_locals.add(n_.arg)
        import builtins as _b
        if hasattr(_b, root):
            return False
        if root in fn_locals:
            return False          # still a local of the code: the call itself is gone, not renamed
        return root in declared or bool(re.search(r"\b" + re.escape(root) + r"\b", text)) or root.islower()

    def _occurs_in_source(self, key: str) -> bool:
        """does the verified function (or a helper inlined into it) contain a call / lookup written as this external key?"""
        from .extract import extract
        nodes = [self.x.node] if getattr(self.x, "node", None) is not None else []
        for (rel_, qual_) in list(self.inlined):
            try:
                nodes.append(extract(rel_, qual_).node)
            except StaleContract:
                pass
        for fn_ in nodes:
            for n_ in ast.walk(fn_):
                if key.startswith("sub:") and isinstance(n_, ast.Subscript) and ast.unparse(n_) == key[4:]:
                    return True
                if key.startswith("with:") and isinstance(n_, ast.With):
                    for it_ in n_.items:
                        ce_ = it_.context_expr
                        if self.dotted(ce_.func if isinstance(ce_, ast.Call) else ce_) == key[5:]:
                            return True
                if key.startswith("attr:") and isinstance(n_, ast.Attribute) and self.dotted(n_) == key[5:]:
                    return True
                if isinstance(n_, ast.Call):
                    d_ = self.dotted(n_.func)
                    if d_ == key or (key.startswith("*.") and isinstance(n_.func, ast.Attribute) and n_.func.attr == key[2:]):
                        return True
                    if key.startswith("call:"):
                        return True
        return False

    def _ext_snapshot(self, summ):
        """snapshot: ghost names bound to the value of an expression right after the external's effects (also when it raises)"""
        for k_, expr_ in summ.get("snapshot", {}).items():
            for p_ in ([summ["post"]] if isinstance(summ.get("post"), str) else summ.get("post", [])):
                pass
            self.st.env[k_] = self.clause_val(expr_, self.st, self.st, {})

    def _hit_external(self, summ):
        hits = self.__dict__.setdefault("_ext_hits", {})
        for k_, v_ in self.c.externals.items():
            if v_ is summ:
                hits[k_] = hits.get(k_, 0) + 1

    def _ext_havoc(self, summ, args):
        for path in summ.get("modifies", []):
            node = ast.parse(path, mode="eval").body
            if isinstance(node, ast.Attribute):
                objv = self.ev(node.value)
                if objv.k == "obj":
                    cur = self.heap_get(objv, node.attr)
                    self.heap_set(objv, node.attr, self._havoc_value(cur, path))
            elif isinstance(node, ast.Name) and node.id in self.st.env:
                self.st.env[node.id] = self._havoc_value(self.st.env[node.id], node.id)

    def ext_result(self, summ, d, args=None) -> V:
        r = summ.get("returns")
        if summ.get("returns_fn") is not None and args is not None:
            r = summ["returns_fn"](args)
        if not r:
            return NONE
        facts: List[Any] = []
        v = fresh_of_sort(parse_sort(r), "ext_" + d.replace(".", "_"), facts)
        for f in facts:
            self.assume(f)
        if summ.get("fresh", True):
            for o in ([v] if v.k == "obj" else [v.t[1]] if v.k == "opt" and v.t[1].k == "obj" else []):
                self.fresh_objs.add(o.t)
        return v


def lemma_vcs(reg, spec: dict, prop: str):
    """code-free lemma over contracts. spec keys: name, cls, vars{name:sort}, post_of (contract key, optional:
    its ensures relate old state and current state of one object `self`), hyps[clauses], goal clause.
    In two-state lemmas old(...) refers to the state before the operation."""
    from .contracts import FnContract
    from .extract import Extracted
    dummy = FnContract(key=f"lemma:{spec['name']}", relpath="", qualname="lemma", cls=spec.get("cls"))
    dummy.spec_modules = spec.get("spec_modules", [])
    eng = Engine(reg, dummy, None, prop, quick_prune=False)
    eng.ch = Chooser([])
    st = State()
    eng.st = st
    eng.x = type("X", (), {"lineno": 0, "decorators": []})()
    facts = []
    if spec.get("cls"):
        st.env["self"] = V("obj", "self", spec["cls"])
    for nm, srt in spec.get("vars", {}).items():
        st.env[nm] = fresh_of_sort(parse_sort(srt), nm, facts)
    st.pc.extend(facts)
    old = st.snapshot()
    old.heap = {}
    eng.entry = old
    hyps = []
    po = spec.get("post_of")
    if po:
        cc = reg.fns[po]
        # current state: every frame field of the callee is a fresh value
        for f in cc.frame or []:
            cur = eng.heap_get(st.env["self"], f)
            st.heap[("self", f)] = eng._havoc_value(cur, "post_" + f)
        env = {p: st.env[p] for p in cc.param_names if p in st.env}
        if cc.returns:
            env["result"] = st.env["result"]
        view = old.snapshot()
        view.pc = st.pc
        for r in cc.all_requires(reg):
            hyps.append(eng.clause_bool(r, view, old, env))
        for e in cc.all_ensures(reg):
            hyps.append(eng.clause_bool(e, st, old, env))
    for h in spec.get("hyps", []):
        hyps.append(eng.clause_bool(h, st, old, {}))
    goal = eng.clause_bool(spec["goal"], st, old, {})
    return [("claim", list(st.pc) + hyps, goal, spec.get("spec_modules", []))]
