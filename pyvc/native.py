"""Native (CPython) evaluation of contract clauses against the real code: replay of counter-models and
the bounded tier both go through here, so tier P and tier B read the same clause text."""
from __future__ import annotations
import ast
import copy
from typing import Any, Dict, List, Optional


class QWindow:
    size = 16


def _forall(f):
    n = f.__code__.co_argcount
    import itertools
    rng = range(-1, QWindow.size + 2)
    return all(f(*xs) for xs in itertools.product(rng, repeat=n))


def _exists(f):
    n = f.__code__.co_argcount
    import itertools
    rng = range(-1, QWindow.size + 2)
    return any(f(*xs) for xs in itertools.product(rng, repeat=n))


class _SafeSeq:
    """index access that returns a sentinel outside the range, like an SMT array does (any value)"""


def base_env(reg) -> Dict[str, Any]:
    env = {
        "forall": _forall, "exists": _exists,
        "implies": lambda a, b: (not a) or bool(b),
        "iff": lambda a, b: bool(a) == bool(b),
        "ite": lambda c, a, b: a if c else b,
        "is_none": lambda x: x is None,
        "val": lambda x: x,
    }
    for name, sf in reg.specs.items():
        if sf.native is not None:
            env[name] = sf.native
    env.update(reg.native_env)
    for name, (params, body) in list(reg.predicates.items()) + list(reg.macros.items()):
        env[name] = _make_pred(name, params, body, env)

    def wf(obj):
        cd = reg.classes.get(type(obj).__name__)
        if cd is None:
            return True
        return all(eval_clause(inv, dict(env, self=obj)) for inv in cd.inv)
    env["wf"] = wf
    return env


def _make_pred(name, params, body, env):
    tree = _LazyImplies().visit(ast.parse(body.strip(), mode="eval"))
    ast.fix_missing_locations(tree)
    code = compile(tree, f"<pred {name}>", "eval")

    def pred(*args):
        return eval(code, dict(env, **dict(zip(params, args))))
    return pred


class _Guard(dict):
    pass


def eval_clause(src: str, env: Dict[str, Any]):
    """evaluate; IndexError inside a quantifier body (index outside the concrete sequence) counts as the guard
    being false, because clauses always guard indices and `implies` is evaluated eagerly in CPython"""
    tree = ast.parse(src.strip(), mode="eval")
    tree = _LazyImplies().visit(tree)
    ast.fix_missing_locations(tree)
    return eval(compile(tree, "<clause>", "eval"), env)


class _LazyImplies(ast.NodeTransformer):
    """implies(a, b) -> ((not a) or b) so that b is not evaluated when the guard fails; same for ite"""

    def visit_Call(self, node):
        self.generic_visit(node)
        if isinstance(node.func, ast.Name) and node.func.id == "implies" and len(node.args) == 2:
            return ast.BoolOp(op=ast.Or(), values=[ast.UnaryOp(op=ast.Not(), operand=node.args[0]), node.args[1]])
        if isinstance(node.func, ast.Name) and node.func.id == "ite" and len(node.args) == 3:
            return ast.IfExp(test=node.args[0], body=node.args[1], orelse=node.args[2])
        return node

    def visit_BoolOp(self, node):
        self.generic_visit(node)
        return node


class _OldExtractor(ast.NodeTransformer):
    def __init__(self):
        self.olds: List[ast.expr] = []

    def visit_Call(self, node):
        if isinstance(node.func, ast.Name) and node.func.id == "old" and len(node.args) == 1:
            self.olds.append(node.args[0])
            return ast.Name(id=f"_old_{len(self.olds) - 1}", ctx=ast.Load())
        self.generic_visit(node)
        return node


def split_old(src: str):
    tree = ast.parse(src.strip(), mode="eval")
    ex = _OldExtractor()
    tree = ex.visit(tree)
    ast.fix_missing_locations(tree)
    return ast.unparse(tree), [ast.unparse(o) for o in ex.olds]


def check_call(reg, contract, fn, self_obj, args: Dict[str, Any], ghost: Optional[Dict[str, Any]] = None,
               check_pre=True) -> Dict[str, Any]:
    """run the real function under its contract. returns dict(pre_ok, failed=[clauses], outcome=...)"""
    env = base_env(reg)
    env.update(args)
    if ghost:
        env.update(ghost)
    if self_obj is not None:
        env["self"] = self_obj
    out = {"pre_ok": True, "failed": [], "outcome": None}
    if check_pre:
        for r in contract.all_requires(reg):
            try:
                ok = eval_clause(r, env)
            except Exception as e:  # noqa
                ok = False
            if not ok:
                out["pre_ok"] = False
                out["failed_pre"] = r
                return out
    # old() snapshots
    clauses = [("post", e) for e in contract.all_ensures(reg)]
    post_raise = [("post-raise", e) for e in contract.ensures_on_raise]
    all_clauses = []
    for kind, cl in clauses + post_raise:
        new_src, olds = split_old(cl)
        all_clauses.append((kind, cl, new_src, olds))
    # (re-number olds per clause deterministically)
    olds_env = {}
    renamed = []
    k = 0
    for kind, cl, new_src, olds in all_clauses:
        mapping = {}
        for i, o in enumerate(olds):
            nm = f"_oldv{k}"
            k += 1
            mapping[f"_old_{i}"] = nm
            try:
                olds_env[nm] = copy.deepcopy(eval_clause(o, env))
            except Exception as e:  # noqa
                olds_env[nm] = ("<old-eval-error>", repr(e))
        t = ast.parse(new_src, mode="eval")
        for node in ast.walk(t):
            if isinstance(node, ast.Name) and node.id in mapping:
                node.id = mapping[node.id]
        renamed.append((kind, cl, ast.unparse(t)))
    raise_conds = {}
    for exc, cond in list(contract.raises.items()):
        try:
            raise_conds[exc] = bool(eval_clause(cond, env))
        except Exception as e:  # noqa
            raise_conds[exc] = None
    may_conds = {}
    for exc, cond in contract.may_raise.items():
        try:
            may_conds[exc] = bool(eval_clause(cond, env)) if cond else True
        except Exception:  # noqa
            may_conds[exc] = None
    pre_self = copy.deepcopy(self_obj) if self_obj is not None and contract.frame is not None else None
    call_args = [args[p] for p in contract.param_names if p in args]
    try:
        result = fn(*call_args) if self_obj is None else fn(self_obj, *call_args)
        raised = None
    except Exception as e:  # noqa
        result = None
        raised = e
    env.update(olds_env)
    env["result"] = result
    if raised is None:
        out["outcome"] = {"returned": repr(result)[:300]}
        for kind, cl, src in renamed:
            if kind != "post":
                continue
            try:
                ok = bool(eval_clause(src, env))
            except Exception as e:  # noqa
                ok = True
                out.setdefault("eval_errors", []).append(f"{cl}: {e!r}")
            if not ok:
                out["failed"].append(cl)
        for exc, c in raise_conds.items():
            if c:
                out["failed"].append(f"not raised {exc} although: {contract.raises[exc]}")
    else:
        ename = type(raised).__name__
        out["outcome"] = {"raised": f"{ename}: {raised}"[:300]}
        mro = [c.__name__ for c in type(raised).__mro__]
        declared = False
        for exc, c in raise_conds.items():
            if exc.split(".")[-1] in mro:
                declared = True
                if c is False:
                    out["failed"].append(f"raise {exc} only if: {contract.raises[exc]}")
        for exc, c in may_conds.items():
            if exc.split(".")[-1] in mro:
                declared = True
                if c is False:
                    out["failed"].append(f"raise {exc} only if: {contract.may_raise[exc]}")
        if not declared:
            out["failed"].append(f"{ename} must not escape")
        for kind, cl, src in renamed:
            if kind != "post-raise":
                continue
            try:
                ok = bool(eval_clause(src, env))
            except Exception as e:  # noqa
                ok = True
                out.setdefault("eval_errors", []).append(f"{cl}: {e!r}")
            if not ok:
                out["failed"].append(cl)
    # frame
    if pre_self is not None and (raised is None or contract.frame_on_raise):
        cd = reg.classes.get(contract.cls)
        if cd is not None:
            for fld in cd.fields:
                if fld in (contract.frame or []):
                    continue
                try:
                    a, b = getattr(pre_self, fld), getattr(self_obj, fld)
                except AttributeError:
                    continue
                try:
                    same = (a == b)
                except Exception:  # noqa
                    same = True
                if not same:
                    out["failed"].append(f"self.{fld} unchanged")
    return out
