"""Run one property: generate VCs from /repo's current source, discharge, replay counter-models, run the
bounded tier, apply the known-findings file, write evidence, print verdict lines, return exit code.

exit 0 held / 1 violation / 2 undecided or stale / 3 checker error
"""
from __future__ import annotations
import importlib
import json
import os
import random
import re
import sys
import time
import traceback
from typing import Any, Dict, List
import z3

from . import values
from .contracts import Registry
from .engine import Engine, VC
from .extract import extract, StaleContract, REPO
from .values import OutOfReach
from . import solve, native

ROOT = os.path.dirname(os.path.dirname(os.path.abspath(__file__)))
OUT_ROOT = os.environ.get("VERIF_OUT") or ROOT
Z3_TIMEOUT = 10.0
FP_TIMEOUT = 240.0


def sanitize(s: str) -> str:
    return re.sub(r"[^A-Za-z0-9_.-]+", "_", s)[:180]


class Finding:
    def __init__(self, pid, key, text):
        self.pid, self.key, self.text = pid, key, text
        self.hit = False


def load_known_findings(pid):
    out = []
    p = os.path.join(ROOT, "known_findings.txt")
    if not os.path.exists(p):
        return out
    for line in open(p):
        line = line.strip()
        m = re.match(r"finding:\s+property=(\S+)\s+key=(\S+)\s+(.*)", line)
        if m and m.group(1) == pid:
            out.append(Finding(pid, m.group(2), m.group(3)))
    return out


def model_value(m, v: values.V, depth=0):
    k = v.k
    if k == "int":
        r = m.eval(v.t, model_completion=True)
        return r.as_long() if z3.is_int_value(r) else str(r)
    if k in ("bool", "dir"):
        return z3.is_true(m.eval(v.t, model_completion=True))
    if k == "none":
        return None
    if k == "bytes":
        n = m.eval(z3.Length(v.t), model_completion=True).as_long()
        return bytes([(m.eval(v.t[i], model_completion=True).as_long()) & 0xFF for i in range(min(n, 4096))])
    if k == "ilist":
        a, n, ml = v.t
        nn = m.eval(n, model_completion=True).as_long()
        lst = [m.eval(a[i], model_completion=True).as_long() for i in range(min(max(nn, 0), 512))]
        return {"list": lst, "maxlen": (m.eval(ml, model_completion=True).as_long() if ml is not None else None)}
    if k == "opt":
        if z3.is_true(m.eval(v.t[0], model_completion=True)):
            return None
        return model_value(m, v.t[1], depth + 1)
    if k == "tuple":
        return [model_value(m, x, depth + 1) for x in v.t]
    if k == "float":
        r = m.eval(v.t, model_completion=True)
        try:
            return float(eval(str(z3.simplify(z3.fpToReal(r))).replace("?", ""))) if not z3.is_fp_value(r) else _fpval(r)
        except Exception:  # noqa
            return str(r)
    if k == "str":
        r = m.eval(v.t, model_completion=True)
        return r.as_string() if z3.is_string_value(r) else str(r)
    return f"<{k}>"


def _fpval(r):
    if r.isNaN():
        return float("nan")
    if r.isInf():
        return float("-inf") if r.isNegative() else float("inf")
    import struct
    bv = z3.simplify(z3.fpToIEEEBV(r)).as_long()
    return struct.unpack("<d", struct.pack("<Q", bv))[0]


class PropertyRun:
    def __init__(self, pid: str, tier: str, seed: int):
        self.pid, self.tier, self.seed = pid, tier, seed
        self.reg = Registry()
        self.mod = importlib.import_module(f"contracts.{pid}")
        self.mod.register(self.reg)
        self.vcs: List[VC] = []
        self.fn_info: List[dict] = []
        self.out_of_reach: List[dict] = []
        self.stale: List[str] = []
        self.checker_errors: List[str] = []
        self.violations: List[dict] = []
        self.undecided: List[str] = []
        self.results: Dict[str, dict] = {}
        self.assumptions: List[str] = []
        self.bounded: List[dict] = []
        self.lemma_names: List[str] = []
        self.vc_axioms: Dict[str, list] = {}
        self.vc_contract: Dict[str, Any] = {}
        self.deferred: List[str] = []

    # ------------------------------------------------------------ tier P
    def gen_vcs(self):
        for key, c in self.reg.fns.items():
            if c.prop and c.prop != self.pid and self.pid not in c.also:
                # a contract verified under another property and used here as a callee: its function must still exist and still be
                # what its name denotes (not wrapped by a decorator) - otherwise what is assumed at its call sites is out of date
                if c.verify and not c.source and c.relpath:
                    try:
                        extract(c.relpath, c.qualname)
                    except StaleContract as e:
                        self.stale.append(f"{c.key} (callee contract, verified under {c.prop}): {e}")
                continue
            if not c.verify:
                self.assumptions.append(f"assumed contract (not verified here): {c.key} - {c.doc}")
                continue
            if c.tier == "thorough" and self.tier == "quick":
                self.deferred.append(c.key)
                continue
            try:
                if c.source:
                    import ast as _ast, hashlib as _hl
                    from .extract import Extracted
                    node = _ast.parse(c.source).body[0]
                    x = Extracted("<driver>", c.qualname, node, c.source, _hl.sha256(c.source.encode()).hexdigest(), 1,
                                  getattr(node, "end_lineno", 1), [])
                else:
                    x = extract(c.relpath, c.qualname)
            except StaleContract as e:
                self.stale.append(f"{c.key}: {e}")
                continue
            info = {"function": c.key, "file": c.relpath, "sha256": x.sha256, "lines": [x.lineno, x.end_lineno]}
            try:
                values.reset_names()
                if c.engine == "fp":
                    from .fpengine import FPEngine
                    eng = FPEngine(self.reg, c, x, self.pid, quick_prune=False)
                else:
                    eng = Engine(self.reg, c, x, self.pid)
                vcs = eng.run()
                if eng.inlined:
                    info["inlined_from_repo"] = [{"file": k[0], "function": k[1], "sha256": v} for k, v in sorted(eng.inlined.items())]
                info["paths"] = eng.paths
                info["obligations"] = sum(1 for v in vcs if v.expect == "unsat")
                for v in vcs:
                    self.vc_axioms[v.name] = self.reg.axioms_for(c)
                    self.vc_contract[v.name] = c
                self.vcs.extend(vcs)
                self.assumptions.extend(eng.used_assumptions)
            except OutOfReach as e:
                self.out_of_reach.append({"function": c.key, "reason": str(e)})
                info["out_of_reach"] = str(e)
            except StaleContract as e:
                self.stale.append(f"{c.key}: {e}")
                info["out_of_reach"] = f"stale contract: {e}"
            except Exception as e:  # noqa
                self.checker_errors.append(f"{c.key}: engine crash {e!r}\n{traceback.format_exc()[-1500:]}")
            self.fn_info.append(info)
        # code-free lemmas over contracts / spec functions
        for lem in self.reg.lemmas:
            if lem.prop and lem.prop != self.pid:
                continue
            try:
                for (nm, hyps, goal, groups) in lem.vcs():
                    name = f"{self.pid}/lemma:{lem.name}/{nm}"
                    vc = VC(name, "lemma", hyps, goal, "unsat", f"lemma:{lem.name}", lem.doc, nm, {})
                    ax = []
                    for g in ["snoc"] + list(groups):
                        ax.extend(self.reg.axiom_groups.get(g, []))
                    self.vc_axioms[name] = ax
                    self.vc_contract[name] = None
                    self.vcs.append(vc)
                    self.lemma_names.append(name)
            except Exception as e:  # noqa
                self.checker_errors.append(f"lemma {lem.name}: {e!r}\n{traceback.format_exc()[-800:]}")

    def solve_all(self):
        items = []
        for v in self.vcs:
            neg = z3.Not(v.goal) if v.expect == "unsat" else z3.BoolVal(True)
            smt = solve.vc_to_smt2(v.hyps, neg, self.vc_axioms[v.name])
            to = (FP_TIMEOUT if self.tier == "quick" else 3 * FP_TIMEOUT) if "fp." in smt else Z3_TIMEOUT
            if v.expect == "sat":
                to = 2.0      # reachability probes: only `unsat` (vacuity) matters; unknown = not refuted
            items.append((v.name, smt, to))
        self._smt = {n: s for n, s, _ in items}
        t0 = time.time()
        probes = {v.name for v in self.vcs if v.expect == "sat"}
        self.results = solve.discharge([i for i in items if i[0] not in probes], workers=16, scratch=os.path.join(ROOT, ".scratch"))
        self.results.update(solve.discharge([i for i in items if i[0] in probes], workers=16, scratch=os.path.join(ROOT, ".scratch"), use_cvc5=False))
        # escalation for unknowns on proof obligations: 10x budget
        unk = [(n, s, t * 3) for (n, s, t) in items if self.results[n]["result"] not in ("sat", "unsat")
               and self._vc(n).expect == "unsat"]
        if unk:
            r2 = solve.discharge(unk, workers=16, cvc5_timeout=30.0, scratch=os.path.join(ROOT, ".scratch"))
            for n, r in r2.items():
                if r["result"] in ("sat", "unsat"):
                    r["reason"] = "escalated 3x; " + r.get("reason", "")
                    self.results[n] = r
        self.solve_wall = time.time() - t0

    def _vc(self, name) -> VC:
        for v in self.vcs:
            if v.name == name:
                return v
        raise KeyError(name)

    def classify(self):
        per_fn_canary: Dict[str, List[str]] = {}
        undecided_fns: Dict[str, VC] = {}
        for v in self.vcs:
            r = self.results[v.name]["result"]
            if v.expect == "sat":
                if v.kind == "pre-sat":
                    if r == "unsat":
                        self.checker_errors.append(f"vacuous precondition: {v.fn}")
                else:
                    per_fn_canary.setdefault(v.fn, []).append(r)
                continue
            if r == "unsat":
                continue
            if r == "sat":
                self.handle_counterexample(v)
            else:
                self.undecided.append(v.name)
                undecided_fns.setdefault(v.fn, v)
        # an obligation neither solver decides: search for a failing input with the same contract on the real code
        for fn_key, v in undecided_fns.items():
            c = self.vc_contract.get(v.name)
            nat = getattr(c, "native", None) if c is not None else None
            if not nat or "search" not in nat:
                continue
            try:
                t0 = time.time()
                for vals in nat["search"](random.Random(self.seed)):
                    res = nat["run"](self.reg, c, vals)
                    if res.get("pre_ok") and res.get("failed"):
                        self.violations.append({"obligation": v.name, "function": v.fn, "kind": v.kind, "clause": res["failed"][0],
                                                "solver": self.results[v.name], "search_input": vals, "native_replay": res,
                                                "confirmed_on_real_code": True, "key": f"{v.fn.split(':')[-1]}/{v.kind}",
                                                "note": "solver undecided; failing input found by the contract evaluated on the real code"})
                        break
                    if time.time() - t0 > 30:
                        break
            except Exception as e:  # noqa
                self.checker_errors.append(f"native search for {fn_key} crashed: {e!r}")
        for fn, rs in per_fn_canary.items():
            if rs and all(x == "unsat" for x in rs):
                self.checker_errors.append(f"canary: no exit of {fn} is reachable (contradictory contract/axioms)")
        fns_with_vcs = {v.fn for v in self.vcs if v.expect == "unsat"}
        for info in self.fn_info:
            if "out_of_reach" not in info and info["function"] not in fns_with_vcs:
                self.checker_errors.append(f"zero obligations for {info['function']}")

    def handle_counterexample(self, v: VC):
        c = self.vc_contract.get(v.name)
        rec: Dict[str, Any] = {"obligation": v.name, "function": v.fn, "kind": v.kind, "clause": v.clause,
                               "path": v.path, "solver": self.results[v.name]}
        model_vals = None
        try:
            s = z3.Solver()
            s.set("timeout", 30000)
            # same text the CLI solver decided (names are shared with this context, so inputs evaluate by name)
            s.from_string(self._smt[v.name])
            if s.check() == z3.sat:
                m = s.model()
                model_vals = {k: model_value(m, val) for k, val in v.inputs.items()}
                rec["model"] = model_vals
                rec["solver_output"] = str(m)[:4000]
        except Exception as e:  # noqa
            rec["model_error"] = repr(e)
        confirmed = None
        nat = getattr(c, "native", None) if c is not None else None
        if nat and model_vals is not None and "run" in nat:
            try:
                res = nat["run"](self.reg, c, model_vals)
                rec["native_replay"] = res
                if res.get("pre_ok") and res.get("failed"):
                    confirmed = res
            except Exception as e:  # noqa
                rec["native_replay_error"] = repr(e) + traceback.format_exc()[-600:]
        if confirmed is None and nat and "search" in nat:
            # targeted bounded search with the same contract, evaluated on the real code
            try:
                t0 = time.time()
                rng = random.Random(self.seed)
                for vals in nat["search"](rng):
                    res = nat["run"](self.reg, c, vals)
                    if res.get("pre_ok") and res.get("failed"):
                        confirmed = res
                        rec["search_input"] = vals
                        rec["native_replay"] = res
                        break
                    if time.time() - t0 > 60:
                        break
            except Exception as e:  # noqa
                rec["search_error"] = repr(e) + traceback.format_exc()[-600:]
        rec["confirmed_on_real_code"] = confirmed is not None
        key = f"{v.fn.split(':')[-1]}/{v.kind}"
        rec["key"] = key
        self.violations.append(rec)

    # ------------------------------------------------------------ tier B
    def run_bounded(self):
        drivers = getattr(self.mod, "BOUNDED", [])
        for d in drivers:
            t0 = time.time()
            try:
                res = d(self.reg, self.tier, self.seed)
            except Exception as e:  # noqa
                self.checker_errors.append(f"bounded driver {getattr(d, '__name__', d)} crashed: {e!r}\n{traceback.format_exc()[-1500:]}")
                continue
            res["wall_s"] = round(time.time() - t0, 2)
            self.bounded.append(res)
            for f in res.get("failures", []):
                rec = {"obligation": f"{self.pid}/bounded:{res['name']}", "function": res["name"], "kind": "bounded",
                       "clause": f.get("clause", ""), "confirmed_on_real_code": True, "input": f.get("input"),
                       "observed": f.get("observed"), "key": f.get("key", res["name"])}
                self.violations.append(rec)
            if res.get("evaluations", 0) == 0:
                self.checker_errors.append(f"bounded driver {res['name']}: zero evaluations")

    # ------------------------------------------------------------ verdict
    def finish(self, t_start) -> int:
        pid = self.pid
        findings = load_known_findings(pid)
        lines = []
        new_violations = []
        for rec in self.violations:
            hit = None
            for f in findings:
                if f.key == rec["key"] or (f.key.endswith("*") and rec["key"].startswith(f.key[:-1])):
                    hit = f
            if hit is not None:
                hit.hit = True
                rec["known_finding"] = hit.text
            else:
                new_violations.append(rec)
        for f in findings:
            if f.hit:
                lines.append(f"KNOWN-FINDING: property={pid} {f.text}")
        rdir = os.path.join(OUT_ROOT, "replays", pid)
        by_key: Dict[str, list] = {}
        for rec in new_violations:
            by_key.setdefault(rec["key"], []).append(rec)
        for key, recs in by_key.items():
            os.makedirs(rdir, exist_ok=True)
            # one VIOLATION line per key; a record whose counterexample replayed on the real code is preferred
            recs.sort(key=lambda r: not r.get("confirmed_on_real_code"))
            rec = recs[0]
            rec["other_failed_obligations"] = [r["obligation"] for r in recs[1:]][:20]
            path = os.path.join(rdir, sanitize(rec["obligation"].split("/", 1)[-1] + "-" + rec["key"]) + ".json")
            with open(path, "w") as fh:
                json.dump(rec, fh, indent=1, default=repr)
            suffix = "" if rec.get("confirmed_on_real_code") else " no-failing-input-found"
            lines.append(f"VIOLATION property={pid} replay={path}{suffix}")
        proof_vcs = [v for v in self.vcs if v.expect == "unsat"]
        discharged = sum(1 for v in proof_vcs if self.results[v.name]["result"] == "unsat")
        by_solver: Dict[str, float] = {}
        for v in self.vcs:
            r = self.results[v.name]
            by_solver[r["solver"]] = round(by_solver.get(r["solver"], 0.0) + r["time_s"], 3)
        meta = getattr(self.mod, "META", {})
        level = meta.get("level", "other")
        evaluations = sum(b.get("evaluations", 0) for b in self.bounded)
        distinct = sum(b.get("distinct_nontrivial", 0) for b in self.bounded)
        samples = []
        for v in proof_vcs[:6]:
            samples.append({"obligation": v.name, "clause": v.clause, "result": self.results[v.name]["result"],
                            "solver": self.results[v.name]["solver"], "time_s": self.results[v.name]["time_s"]})
        for b in self.bounded:
            for smp in b.get("samples", [])[:3]:
                samples.append({"bounded": b["name"], "case": smp})
        cov: Dict[str, Any] = {
            "obligations": len(proof_vcs), "discharged": discharged,
            "checker_cmd": f"./vcheck {pid} --tier {self.tier}",
            "trusted_base": sorted(set(self.assumptions + meta.get("trusted_base", []))),
            "functions_under_contract": self.fn_info,
            "proved_lemmas": [n for n in self.lemma_names if self.results.get(n, {}).get("result") == "unsat"],
            "solver_time_s": by_solver, "solve_wall_s": round(getattr(self, "solve_wall", 0.0), 2),
            "reachability_checks": sum(1 for v in self.vcs if v.expect == "sat"),
            "deferred_to_thorough_tier": self.deferred,
            "out_of_reach": self.out_of_reach, "stale": self.stale, "undecided": self.undecided,
            "obligation_results": {v.name: {"result": self.results[v.name]["result"], "solver": self.results[v.name]["solver"],
                                            "time_s": self.results[v.name]["time_s"], "clause": v.clause}
                                   for v in proof_vcs},
            "bounded_tier": [{k: b[k] for k in b if k not in ("failures",)} for b in self.bounded],
            "evaluations": max(evaluations, len(self.vcs)), "distinct_nontrivial": max(distinct, len(proof_vcs)),
            "rule": meta.get("rule", "tier P: one case per generated verification condition (distinct by name); tier B: "
                                     "see bounded_tier[*].rule - distinct cases counted by hashing the generated inputs"),
            "samples": samples or [{"note": "no obligations"}],
            "explanation": meta.get("explanation", ""),
            "exhaustive": False,
            "known_findings_reported": [f.text for f in findings if f.hit],
            "assumptions_scan": meta.get("assumptions_scan", "no assume/admit in contracts outside trusted_base"),
        }
        ev = {"property_id": pid, "tier": self.tier, "seed": self.seed, "level": level, "coverage": cov,
              "assumptions": sorted(set(self.assumptions + meta.get("assumptions", []))),
              "wall_s": round(time.time() - t_start, 2), "violations": len(new_violations)}
        # VERIF_OUT: runs against a scratch copy of the repository (seeded changes) write their evidence and replays elsewhere
        os.makedirs(os.path.join(OUT_ROOT, "evidence"), exist_ok=True)
        with open(os.path.join(OUT_ROOT, "evidence", f"{pid}.json"), "w") as fh:
            json.dump(ev, fh, indent=1, default=repr)
        print(f"[{pid}] tier={self.tier} functions={len(self.fn_info)} obligations={len(proof_vcs)} discharged={discharged} "
              f"lemmas={len(self.lemma_names)} bounded_evals={evaluations} wall={ev['wall_s']}s")
        for ln in lines:
            print(ln)
        code = 0
        if new_violations:
            code = 1
        elif self.checker_errors:
            for e in self.checker_errors:
                print(f"CHECKER-ERROR {pid} {e}")
            code = 3
        elif self.undecided or self.stale or self.out_of_reach:
            for u in self.undecided:
                print(f"UNDECIDED {pid} {u} {self.results[u]['reason'][:120]}")
            for s_ in self.stale:
                print(f"STALE {pid} {s_}")
            for o in self.out_of_reach:
                print(f"STALE {pid} out-of-reach {o['function']}: {o['reason']}")
            code = 2
        if code == 1 and self.checker_errors:
            for e in self.checker_errors:
                print(f"CHECKER-ERROR {pid} {e}")
        return code


def run_property(pid: str, tier: str, seed: int, only=None) -> int:
    t0 = time.time()
    rdir = os.path.join(OUT_ROOT, "replays", pid)
    if os.path.isdir(rdir):
        for f in os.listdir(rdir):
            try:
                os.unlink(os.path.join(rdir, f))
            except OSError:
                pass
    run = PropertyRun(pid, tier, seed)
    if only in (None, "P"):
        run.gen_vcs()
        run.solve_all()
        run.classify()
    if only in (None, "B"):
        run.run_bounded()
    return run.finish(t0)


def replay_file(pid: str, path: str) -> int:
    rec = json.load(open(path))
    run = PropertyRun(pid, "quick", 0)
    fn = rec.get("function")
    print(json.dumps({k: rec.get(k) for k in ("obligation", "clause", "model", "input", "observed", "native_replay")},
                     indent=1, default=repr))
    c = run.reg.fns.get(fn)
    if c is not None and c.native and rec.get("model") is not None:
        vals = rec.get("search_input") or rec["model"]
        res = c.native["run"](run.reg, c, vals)
        print("replay on current tree:", json.dumps(res, default=repr))
        return 1 if (res.get("pre_ok") and res.get("failed")) else 0
    rp = getattr(run.mod, "REPLAY", None)
    if rp is not None and rec.get("input") is not None:
        res = rp(run.reg, rec)
        print("replay on current tree:", json.dumps(res, default=repr))
        return 1 if res.get("failed") else 0
    return 0
