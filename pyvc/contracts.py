"""Sidecar contract structures and registry."""
from __future__ import annotations
from dataclasses import dataclass, field
from typing import Any, Callable, Dict, List, Optional
import z3

from .values import V, mk_int, mk_bool, mk_bytes, IntSeq, snoc, snoc_axioms


@dataclass
class ClassDecl:
    name: str
    fields: Dict[str, str] = field(default_factory=dict)     # field -> sort string
    inv: List[str] = field(default_factory=list)              # class invariant clauses over `self`
    supers: List[str] = field(default_factory=list)
    props: Dict[str, Any] = field(default_factory=dict)       # @property name -> (relpath, qualname): inlined real code
    inline: Dict[str, Any] = field(default_factory=dict)      # small helper method -> (relpath, qualname): inlined
    truth: Optional[str] = None                               # expression over `self` giving bool(obj) (models __bool__)
    ctor: Optional[Any] = None                                # (relpath, qualname of __init__): constructor inlined
    py_names: List[str] = field(default_factory=list)         # dotted names under which the class is called


@dataclass
class FnContract:
    key: str                       # "relpath-module:Qual.name"
    relpath: str
    qualname: str
    cls: Optional[str] = None
    params: Dict[str, str] = field(default_factory=dict)
    param_names: List[str] = field(default_factory=list)      # positional order, without self
    defaults: Dict[str, Any] = field(default_factory=dict)
    returns: Optional[str] = None
    requires: List[str] = field(default_factory=list)
    ensures: List[str] = field(default_factory=list)
    raises: Dict[str, str] = field(default_factory=dict)      # exc -> condition on entry state (iff)
    may_raise: Dict[str, str] = field(default_factory=dict)   # exc -> necessary condition ('' = any)
    ensures_on_raise: List[str] = field(default_factory=list)
    raise_preserves_state: bool = False
    frame: Optional[List[str]] = field(default_factory=list)
    frame_on_raise: bool = False
    loops: Dict[int, dict] = field(default_factory=dict)
    externals: Dict[str, dict] = field(default_factory=dict)
    consts: Dict[str, Any] = field(default_factory=dict)
    ghost: Dict[str, str] = field(default_factory=dict)       # ghost inputs (universally quantified)
    ghost_effects: Dict[str, int] = field(default_factory=dict)
    max_paths: int = 4000          # give up (exit 2) beyond this many paths
    batch_post: bool = False       # emit the conjunction of the postconditions as one obligation per path (instances with very many paths)
    case_split: Dict[str, str] = field(default_factory=dict)  # local -> clause assumed right after it is assigned: this contract
    #                                                           instance covers that case only (the doc states which cases the instances cover)
    static_loops: Optional[int] = None   # number of loops the loop contracts were written for (a different count: contract is stale)
    record_as: Optional[str] = None   # ghost call log name: callers' postconditions may use ncalls()/called_with()
    use_wf: bool = True            # class invariant is pre and post
    wf_pre: bool = True
    wf_post: bool = True
    spec_modules: List[str] = field(default_factory=list)     # names of axiom groups needed
    prop: str = ""
    also: List[str] = field(default_factory=list)   # other properties whose check re-verifies this contract
    native: Optional[dict] = None  # replay scaffolding: {"setup": "<python source>"}
    verify: bool = True            # False: contract is assumed (trusted), listed as such
    doc: str = ""
    tier: str = "quick"               # "thorough": obligation too slow for the per-change check, discharged in the thorough tier only
    source: Optional[str] = None      # driver glue (one or two lines) written in /verif; the real bodies it calls are inlined from /repo
    engine: str = "int"              # "fp": ints as 64-bit vectors, floats as binary64 (QF_FPBV)
    param_values: Dict[str, Any] = field(default_factory=dict)   # concrete live objects bound to parameters (finite instantiation)

    def all_requires(self, reg) -> List[str]:
        r = []
        if self.cls and self.use_wf and self.wf_pre and reg.classes.get(self.cls) and reg.classes[self.cls].inv:
            r.append("wf(self)")
        return r + list(self.requires)

    def all_ensures(self, reg) -> List[str]:
        r = list(self.ensures)
        if self.cls and self.use_wf and self.wf_post and reg.classes.get(self.cls) and reg.classes[self.cls].inv:
            r.append("wf(self)")
        return r


@dataclass
class SpecFn:
    name: str
    z3: Any                                   # z3 FuncDeclRef
    arg_kinds: List[str]
    ret_kind: str
    native: Optional[Callable] = None
    group: str = ""

    def apply(self, eng, args: List[V]) -> V:
        zargs = []
        for a, k in zip(args, self.arg_kinds):
            if k == "int":
                zargs.append(eng.as_int(a))
            elif k == "bool":
                zargs.append(eng.truth(a))
            elif a.k == "obj":
                from .values import opaque_sort
                zargs.append(z3.Const("obj_" + a.t, opaque_sort("Obj")))
            else:
                zargs.append(a.t)
        r = self.z3(*zargs)
        return V(self.ret_kind, r)


@dataclass
class Lemma:
    name: str
    prop: str
    vcs: Callable            # () -> list of (vcname, hyps, goal)
    doc: str = ""


class Registry:
    def __init__(self):
        self.classes: Dict[str, ClassDecl] = {}
        self.fns: Dict[str, FnContract] = {}
        self.specs: Dict[str, SpecFn] = {}
        self.axiom_groups: Dict[str, List[Any]] = {"snoc": snoc_axioms()}
        self.predicates: Dict[str, Any] = {}
        self.macros: Dict[str, Any] = {}       # term-valued spec abbreviations: name -> (params, body)
        self.consts: Dict[str, Any] = {}
        self.exc_parents: Dict[str, str] = {}
        self.lemmas: List[Lemma] = []
        self.native_env: Dict[str, Any] = {}

    def add_class(self, cd: ClassDecl):
        self.classes[cd.name] = cd

    def add_fn(self, c: FnContract):
        self.fns[c.key] = c

    def add_spec(self, sf: SpecFn):
        self.specs[sf.name] = sf

    def spec_fn(self, name) -> Optional[SpecFn]:
        return self.specs.get(name)

    def field_sort(self, cls: Optional[str], fld: str) -> Optional[str]:
        seen = set()
        stack = [cls]
        while stack:
            c = stack.pop()
            if c is None or c in seen:
                continue
            seen.add(c)
            cd = self.classes.get(c)
            if cd is None:
                continue
            if fld in cd.fields:
                return cd.fields[fld]
            stack.extend(cd.supers)
        return None

    def class_by_callname(self, dotted: str):
        for cd in self.classes.values():
            if dotted in cd.py_names:
                return cd
        return None

    def class_prop(self, cls, name):
        for c in self._mro(cls):
            cd = self.classes.get(c)
            if cd and name in cd.props:
                return cd.props[name]
        return None

    def class_inline(self, cls, name):
        for c in self._mro(cls):
            cd = self.classes.get(c)
            if cd and name in cd.inline:
                return cd.inline[name]
        return None

    def _mro(self, cls):
        out, stack = [], [cls]
        while stack:
            c = stack.pop(0)
            if c is None or c in out:
                continue
            out.append(c)
            cd = self.classes.get(c)
            if cd:
                stack.extend(cd.supers)
        return out

    def class_supers(self, cls: str):
        out, stack = set(), [cls]
        while stack:
            c = stack.pop()
            if c in out:
                continue
            out.add(c)
            cd = self.classes.get(c)
            if cd:
                stack.extend(cd.supers)
        return out

    def method_contract(self, cls: str, meth: str) -> Optional[FnContract]:
        for c in [cls] + [s for s in self.class_supers(cls) if s != cls]:
            for k, fc in self.fns.items():
                if fc.cls == c and fc.qualname.split(".")[-1] == meth:
                    return fc
        return None

    def function_contract(self, name: str, relpath):
        for fc in self.fns.values():
            if fc.cls is None and fc.qualname == name and (relpath is None or fc.relpath == relpath) and not fc.source:
                return fc
        return None

    def axioms_for(self, c: FnContract) -> List[Any]:
        out = []
        for g in ["snoc"] + list(c.spec_modules):
            out.extend(self.axiom_groups.get(g, []))
        return out


def alias_loops_by_order(c: "FnContract"):
    """a contract that names ALL loops of its function by header text, in source order, also answers to their ordinals: an edit
    of a loop header then still meets the loop's contract (and fails its obligations) instead of leaving it without one"""
    for ordinal, head in enumerate([k for k in list(c.loops) if isinstance(k, str)]):
        c.loops.setdefault(ordinal, c.loops[head])
    return c
