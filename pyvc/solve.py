"""Discharge VCs: z3 (in a process pool, SMT-LIB text as the interchange), cvc5 CLI for z3's unknowns."""
from __future__ import annotations
import os
import subprocess
import tempfile
import time
from concurrent.futures import ProcessPoolExecutor
from typing import List, Tuple
import z3

CVC5 = "/usr/bin/cvc5"


def vc_to_smt2(hyps, negated_goal, axioms) -> str:
    s = z3.Solver()
    for a in axioms:
        s.add(a)
    for h in hyps:
        s.add(h)
    s.add(negated_goal)
    return s.to_smt2()


def _solve_z3(args) -> Tuple[str, float, str]:
    smt2, timeout_ms = args
    t0 = time.time()
    try:
        ctx = z3.Context()
        s = z3.Solver(ctx=ctx)
        s.set("timeout", int(timeout_ms))
        s.from_string(smt2)
        r = s.check()
        res = str(r)
        reason = s.reason_unknown() if res == "unknown" else ""
    except z3.Z3Exception as e:
        res, reason = "error", str(e)
    return res, time.time() - t0, reason


def solve_cvc5(smt2: str, timeout_s: float, scratch: str) -> Tuple[str, float, str]:
    t0 = time.time()
    os.makedirs(scratch, exist_ok=True)
    fd, path = tempfile.mkstemp(suffix=".smt2", dir=scratch)
    try:
        with os.fdopen(fd, "w") as f:
            # z3 prints (set-info :status ...) and uses logic-less scripts; cvc5 needs a logic
            f.write("(set-logic ALL)\n" + smt2)
        try:
            p = subprocess.run([CVC5, "--strings-exp", f"--tlimit={int(timeout_s * 1000)}", path],
                               capture_output=True, text=True, timeout=timeout_s + 5)
            out = (p.stdout or "").strip().splitlines()
            res = out[0].strip() if out else "unknown"
            if res not in ("sat", "unsat", "unknown"):
                res = "unknown"
            return res, time.time() - t0, (p.stderr or "")[:200]
        except subprocess.TimeoutExpired:
            return "unknown", time.time() - t0, "timeout"
    finally:
        try:
            os.unlink(path)
        except OSError:
            pass


def discharge(items: List[Tuple[str, str, float]], workers: int = 16, cvc5_timeout: float = 20.0,
              scratch: str = "/verif/.scratch"):
    """items: (name, smt2, z3_timeout_s). returns {name: dict(result, solver, time_s, reason)}"""
    out = {}
    if not items:
        return out
    with ProcessPoolExecutor(max_workers=min(workers, max(1, len(items)))) as ex:
        results = list(ex.map(_solve_z3, [(s, t * 1000) for _, s, t in items], chunksize=1))
    retry = []
    for (name, smt2, t), (res, dt, reason) in zip(items, results):
        out[name] = {"result": res, "solver": "z3-" + z3.get_version_string(), "time_s": round(dt, 3), "reason": reason}
        if res in ("unknown", "error"):
            retry.append((name, smt2))
    if retry and os.path.exists(CVC5):
        with ProcessPoolExecutor(max_workers=min(workers, len(retry))) as ex:
            futs = [ex.submit(solve_cvc5, s, cvc5_timeout, scratch) for _, s in retry]
            for (name, _), f in zip(retry, futs):
                res, dt, reason = f.result()
                if res in ("sat", "unsat"):
                    out[name] = {"result": res, "solver": "cvc5-1.0.3", "time_s": round(out[name]["time_s"] + dt, 3),
                                 "reason": "z3: " + out[name]["reason"]}
                else:
                    out[name]["time_s"] = round(out[name]["time_s"] + dt, 3)
                    out[name]["reason"] += " | cvc5: unknown " + reason
    return out
