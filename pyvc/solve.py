"""Discharge VCs: z3 5.1.0 CLI (hard per-query timeout, one process per query, 16 at a time), cvc5 CLI for
z3's unknowns. SMT-LIB text is the interchange format."""
from __future__ import annotations
import os
import subprocess
import tempfile
import time
from concurrent.futures import ThreadPoolExecutor
from typing import List, Tuple
import z3

CVC5 = "/usr/bin/cvc5"
Z3CLI = "/usr/local/bin/z3-new" if os.path.exists("/usr/local/bin/z3-new") else "/usr/bin/z3"


def vc_to_smt2(hyps, negated_goal, axioms) -> str:
    s = z3.Solver()
    for a in axioms:
        s.add(a)
    for h in hyps:
        s.add(h)
    s.add(negated_goal)
    return s.to_smt2()


def _run(cmd, timeout_s):
    t0 = time.time()
    try:
        p = subprocess.run(cmd, capture_output=True, text=True, timeout=timeout_s + 3)
        out = (p.stdout or "").strip().splitlines()
        res = out[0].strip() if out else "unknown"
        if res not in ("sat", "unsat", "unknown"):
            reason = (res + " " + (p.stderr or ""))[:200]
            res = "unknown" if res == "timeout" else "error"
            return res, time.time() - t0, reason
        return res, time.time() - t0, ""
    except subprocess.TimeoutExpired:
        return "unknown", time.time() - t0, "timeout(hard)"


def solve_one(name, smt2, z3_timeout, cvc5_timeout, scratch, use_cvc5=True):
    os.makedirs(scratch, exist_ok=True)
    fd, path = tempfile.mkstemp(suffix=".smt2", dir=scratch)
    try:
        with os.fdopen(fd, "w") as f:
            f.write(smt2)
        if "fp." in smt2:
            # floating-point obligations: cvc5's bit-blaster decides the 16-bit instances in ~20-60 s where z3 needs > 300 s
            cpath = path + ".cvc5.smt2"
            with open(cpath, "w") as f:
                f.write("(set-logic ALL)\n" + smt2)
            try:
                r2, dt2, reason2 = _run([CVC5, f"--tlimit={int(z3_timeout * 1000)}", cpath], z3_timeout)
            finally:
                os.unlink(cpath)
            if r2 in ("sat", "unsat"):
                return name, {"result": r2, "solver": "cvc5-1.0.3", "time_s": round(dt2, 3), "reason": ""}
            res, dt, reason = _run([Z3CLI, "-smt2", f"-T:{max(1, int(z3_timeout / 3))}", path], z3_timeout / 3)
            return name, {"result": res if res in ("sat", "unsat") else "unknown", "solver": "z3-5.1.0", "time_s": round(dt + dt2, 3),
                          "reason": f"cvc5: {r2} {reason2} | z3: {reason or res}"[:300]}
        # portfolio in sequence: z3 briefly, then cvc5, then z3 with the full budget
        first = min(2.0, z3_timeout)
        res, dt, reason = _run([Z3CLI, "-smt2", f"-T:{max(1, int(first))}", path], first)
        out = {"result": res, "solver": "z3-5.1.0", "time_s": round(dt, 3), "reason": reason}
        cvc_ok = use_cvc5 and os.path.exists(CVC5) and "seq.nth_u" not in smt2 and "FloatingPoint" not in smt2
        if res in ("unknown", "error") and cvc_ok:
            cpath = path + ".cvc5.smt2"
            with open(cpath, "w") as f:
                f.write("(set-logic ALL)\n" + smt2)
            try:
                r2, dt2, reason2 = _run([CVC5, "--strings-exp", f"--tlimit={int(cvc5_timeout * 1000)}", cpath], cvc5_timeout)
            finally:
                os.unlink(cpath)
            if r2 in ("sat", "unsat"):
                out = {"result": r2, "solver": "cvc5-1.0.3", "time_s": round(dt + dt2, 3), "reason": "z3(2s): " + (reason or res)}
                return name, out
            out["time_s"] = round(dt + dt2, 3)
            out["reason"] = f"z3: {reason or res} | cvc5: {r2} {reason2}"[:300]
        if out["result"] in ("unknown", "error") and z3_timeout > first:
            res, dt3, reason3 = _run([Z3CLI, "-smt2", f"-T:{max(1, int(z3_timeout))}", path], z3_timeout)
            out["time_s"] = round(out["time_s"] + dt3, 3)
            if res in ("sat", "unsat"):
                out["result"], out["solver"], out["reason"] = res, "z3-5.1.0", "after cvc5 unknown"
            else:
                out["reason"] = (out["reason"] + f" | z3 full: {reason3 or res}")[:300]
        return name, out
    finally:
        try:
            os.unlink(path)
        except OSError:
            pass


def discharge(items: List[Tuple[str, str, float]], workers: int = 16, cvc5_timeout: float = 10.0,
              scratch: str = "/verif/.scratch", use_cvc5=True):
    """items: (name, smt2, z3_timeout_s). returns {name: dict(result, solver, time_s, reason)}"""
    out = {}
    if not items:
        return out
    with ThreadPoolExecutor(max_workers=workers) as ex:
        futs = [ex.submit(solve_one, n, s, t, cvc5_timeout, scratch, use_cvc5) for n, s, t in items]
        for f in futs:
            n, r = f.result()
            out[n] = r
    return out
