from contracts import c20_contracts
PID = "X20"
META = {"level": "other", "explanation": "scratch", "trusted_base": []}


def register(reg):
    c20_contracts.register_p(reg, PID)


BOUNDED = []
