"""Native scaffolding for C05: build real ProxiedCircuit / Message objects from model values, replay contracts,
and the bounded history driver."""
import copy
import itertools
import random
from collections import deque

from pyvc import native


class FakeClock:
    """stands in for the `dt` module name inside hippolyzer.lib.base.message.circuit (virtual time)"""
    import datetime as _dt
    timedelta = _dt.timedelta

    def __init__(self):
        import datetime as _dt
        self._now = _dt.datetime(2020, 1, 1)
        self.datetime = self

    timezone = _dt.timezone

    def now(self, tz=None):
        # the process' zone is 8 hours west of UTC: an aware "now" is 8 hours ahead of the naive local one
        if tz is not None:
            import datetime as _d
            return (self._now + _d.timedelta(hours=8)).replace(tzinfo=tz)
        return self._now

    def advance(self, seconds):
        import datetime as _dt
        self._now = self._now + _dt.timedelta(seconds=seconds)


class RecTransport:
    def __init__(self):
        self.packets = []

    def send_packet(self, packet):
        self.packets.append(packet)

    def close(self):
        pass


def _tracker(vals, prefix, default_ml=8):
    from hippolyzer.lib.proxy.circuit import InjectionTracker
    inj = vals.get(f"{prefix}.injections") or {"list": [], "maxlen": None}
    ml = vals.get(f"{prefix}._maxlen")
    if not isinstance(ml, int) or ml < 1:
        ml = inj.get("maxlen") or max(default_ml, len(inj["list"]))
    t = InjectionTracker(0, maxlen=ml)
    t.injections = deque(inj["list"], maxlen=ml)
    dr = vals.get(f"{prefix}.dropped") or {"list": []}
    t.dropped = deque(dr["list"], maxlen=ml)
    b = vals.get(f"{prefix}._injection_base", 0)
    t._injection_base = b if isinstance(b, int) else 0
    p = vals.get(f"{prefix}._packet_id_base", 0)
    t._packet_id_base = p if isinstance(p, int) else 0
    return t


def build(vals):
    from hippolyzer.lib.proxy.circuit import ProxiedCircuit
    from hippolyzer.lib.base.message.message import Message, Block
    from hippolyzer.lib.base.network.transport import Direction
    tr = RecTransport()
    c = ProxiedCircuit(("127.0.0.1", 1), ("127.0.0.1", 2), tr)
    c.in_injections = _tracker(vals, "self.in_injections")
    c.out_injections = _tracker(vals, "self.out_injections")
    name = vals.get("message.name")
    if not isinstance(name, str) or name not in ("PacketAck", "StartPingCheck"):
        name = "CompletePingCheck"
    if name == "PacketAck":
        m = Message("PacketAck", Block("Packets", ID=0))
    elif name == "StartPingCheck":
        m = Message("StartPingCheck", Block("PingID", PingID=1, OldestUnacked=0))
    else:
        m = Message("CompletePingCheck", Block("PingID", PingID=1))
    pid = vals.get("message.packet_id")
    m.packet_id = pid if isinstance(pid, int) else None
    m.synthetic = bool(vals.get("message.synthetic", m.packet_id is None))
    fl = vals.get("message.send_flags", 0)
    m.send_flags = fl if isinstance(fl, int) and fl >= 0 else 0
    acks = vals.get("message.acks") or {"list": []}
    m.acks = tuple(acks["list"])
    m.finalized = bool(vals.get("message.finalized", False))
    m.queued = bool(vals.get("message.queued", False))
    m.dropped = bool(vals.get("message.dropped", False))
    d = vals.get("message.direction")
    m.direction = Direction.OUT if (d is None or d is True or d == "OUT") else Direction.IN
    return c, m, tr


def _call_log_env(calls):
    def ncalls(name):
        return len(calls.get(name, []))

    def called_with(name, pred):
        n = pred.__code__.co_argcount
        for rec in calls.get(name, []):
            args = list(rec)[:n] + [None] * max(0, n - len(rec))
            try:
                if pred(*args):
                    return True
            except Exception:  # noqa
                continue
        return False
    return {"ncalls": ncalls, "called_with": called_with}


def run_method(meth, owner="ProxiedCircuit"):
    def run(reg, c, vals):
        from hippolyzer.lib.base.network.transport import Direction
        circ, m, tr = build(vals)
        calls = {}
        orig_send_acks = circ.send_acks

        def send_acks(to_ack, direction=Direction.OUT, packet_id=None):
            calls.setdefault("send_acks", []).append((list(to_ack), direction, packet_id))
        circ.send_acks = send_acks
        orig_wire = circ._send_prepared_message

        def wire(message, transport=None):
            calls.setdefault("wire", []).append((message, transport))
            return None
        circ._send_prepared_message = wire

        class RecDict(dict):
            def __setitem__(self, k, v):
                calls.setdefault("store:self.unacked_reliable", []).append((k, v))
                super().__setitem__(k, v)
        circ.unacked_reliable = RecDict()
        env_extra = _call_log_env(calls)
        env_extra["Direction"] = Direction
        reg.native_env.update(env_extra)
        native.QWindow.size = max(len(circ.in_injections.injections), len(circ.out_injections.injections), len(m.acks)) + 2
        import hippolyzer.lib.proxy.circuit as pc
        import hippolyzer.lib.base.message.circuit as bc
        fn = getattr(pc.ProxiedCircuit, meth) if hasattr(pc.ProxiedCircuit, meth) and owner == "ProxiedCircuit" else getattr(bc.Circuit, meth)
        c2 = copy.copy(c)
        c2.frame = None     # frame over several objects is checked by the clauses' old() comparisons instead
        res = native.check_call(reg, c2, fn, circ, {"message": m})
        res["input"] = {"name": m.name, "packet_id": vals.get("message.packet_id"), "flags": m.send_flags, "acks": list(vals.get("message.acks", {}).get("list", [])) if isinstance(vals.get("message.acks"), dict) else [],
                        "direction": str(m.direction), "finalized": vals.get("message.finalized"), "queued": vals.get("message.queued"),
                        "in_inj": list(circ.in_injections.injections), "out_inj": list(circ.out_injections.injections)}
        return res
    return run


def search_inputs(rng):
    """small circuit states x messages: used when a solver cannot decide an obligation"""
    for in_inj, out_inj in (([], []), ([2], []), ([], [2]), ([2, 3], [1]), ([3], [2, 5])):
        for pid in (None, 1, 2, 4, 6):
            for acks in ([], [1], [2], [1, 2, 3], [4, 2]):
                for flags in (0, 0x40, 0x10, 0x50):
                    for d in (True, False):
                        for name in ("CompletePingCheck", "PacketAck"):
                            for synthetic in ((True,) if pid is None else (False, True)):
                                yield {"self.in_injections.injections": {"list": in_inj, "maxlen": 8}, "self.in_injections._maxlen": 8,
                                       "self.in_injections._packet_id_base": max(in_inj + [6]),
                                       "self.out_injections.injections": {"list": out_inj, "maxlen": 8}, "self.out_injections._maxlen": 8,
                                       "self.out_injections._packet_id_base": max(out_inj + [6]),
                                       "message.packet_id": pid, "message.acks": {"list": acks}, "message.send_flags": flags,
                                       "message.direction": d, "message.name": name, "message.synthetic": synthetic,
                                       "message.finalized": False, "message.queued": False}


# ---------------------------------------------------------------------------------------------------------
# bounded tier: whole-circuit histories
class Sim:
    """one proxied circuit between viewer V (near) and simulator S (far), driven event by event"""

    def __init__(self, maxlen=10000, resend_every=None):
        import hippolyzer.lib.base.message.circuit as bc
        from hippolyzer.lib.proxy.circuit import ProxiedCircuit, InjectionTracker
        self.clock = FakeClock()
        self._bc = bc
        self._saved_dt = bc.dt
        bc.dt = self.clock
        self.tr = RecTransport()
        self.near, self.far = ("127.0.0.1", 1), ("10.0.0.9", 2)
        self.c = ProxiedCircuit(self.near, self.far, self.tr)
        if resend_every is not None:
            self.c.resend_every = resend_every       # the cadence is configurable: integral, fractional and sub-second intervals
        self._ticks = 0
        self.c.in_injections = InjectionTracker(0, maxlen=maxlen)
        self.c.out_injections = InjectionTracker(0, maxlen=maxlen)
        self.ep = {e: {"next": 1, "sent": set(), "inbox": [], "acks_seen": [], "got": []} for e in "VS"}
        self.wire_to_orig = {"V": {}, "S": {}}       # wire id (as seen by the other side) -> sender's own id
        self.injected = {"V": {}, "S": {}}           # towards endpoint: wire id -> dict(future, reliable, acked)
        self.errors = []
        self.trace = []
        self.seen = 0

    def close(self):
        self._bc.dt = self._saved_dt

    def _dir(self, sender):
        from hippolyzer.lib.base.network.transport import Direction
        return Direction.OUT if sender == "V" else Direction.IN

    def _other(self, e):
        return "S" if e == "V" else "V"

    def _drain(self):
        """parse what reached the wire since the last call: list of (receiver, Message)"""
        from hippolyzer.lib.base.message.udpdeserializer import UDPMessageDeserializer
        from hippolyzer.lib.base.settings import Settings
        out = []
        s = Settings()
        s.ENABLE_DEFERRED_PACKET_PARSING = False
        d = UDPMessageDeserializer(settings=s)
        for p in self.tr.packets[self.seen:]:
            recv = "V" if p.dst_addr == self.near else "S"
            out.append((recv, d.deserialize(p.data)))
        self.seen = len(self.tr.packets)
        return out

    def err(self, what):
        self.errors.append({"violation": what, "trace": list(self.trace)})

    def _deliver(self, recv, msg, expect_acks=None):
        """endpoint `recv` receives `msg` from the wire: check what it is shown"""
        st = self.ep[recv]
        from hippolyzer.lib.base.message.msgtypes import PacketFlags
        shown = list(msg.acks)
        if msg.name == "PacketAck":
            shown += [b["ID"] for b in msg["Packets"]]
        for a in shown:
            if a not in st["sent"]:
                self.err(f"{recv} shown an ack for ID {a} it never sent")
        st["acks_seen"].extend(shown)
        if msg.send_flags & PacketFlags.RELIABLE and msg.name != "PacketAck":
            st["inbox"].append(msg.packet_id)
        st["got"].append((msg.packet_id, msg.name, bool(msg.send_flags & PacketFlags.RESENT)))
        return shown

    def endpoint_sends(self, e, reliable, ack_idx, as_packet_ack, drop, kind=None):
        """endpoint e sends its next packet carrying acks for the inbox entries selected by ack_idx"""
        from hippolyzer.lib.base.message.message import Message, Block
        from hippolyzer.lib.base.message.msgtypes import PacketFlags
        st, o = self.ep[e], self._other(e)
        acks = [st["inbox"][i] for i in ack_idx if i < len(st["inbox"])]
        for a in acks:
            st["inbox"].remove(a)
        pid = st["next"]
        st["next"] += 1
        st["sent"].add(pid)
        self.trace.append((e, "ack" if as_packet_ack else "send", pid, reliable, tuple(acks), "DROP" if drop else ""))
        if as_packet_ack:
            if not acks:
                return
            # as_packet_ack == 2: an explicit PacketAck that also carries appended acks (first selected ack in the body, the rest
            # appended) - the body must be rewritten even when only the appended acks keep the message alive
            body, appended = (acks[:1], acks[1:]) if as_packet_ack == 2 else (acks, [])
            msg = Message("PacketAck", *[Block("Packets", ID=a) for a in body], packet_id=pid, direction=self._dir(e),
                          acks=tuple(appended), flags=(PacketFlags.ACK if appended else 0))
            reliable = False
        elif kind == "ping_old":
            # a ping naming an OLDER packet of the sender as its oldest unacknowledged one (injections may lie in between)
            olds = sorted(x for x in st["sent"] if x != pid)
            old_id = olds[0] if olds else pid + 1
            msg = Message("StartPingCheck", Block("PingID", PingID=pid % 256, OldestUnacked=old_id), packet_id=pid, direction=self._dir(e),
                          acks=tuple(acks), flags=(PacketFlags.ACK if acks else 0))
        elif kind == "ping":
            # a ping that names the sender's oldest unacknowledged packet: with nothing outstanding that is the ID it will use next
            msg = Message("StartPingCheck", Block("PingID", PingID=pid % 256, OldestUnacked=pid + 1), packet_id=pid, direction=self._dir(e),
                          acks=tuple(acks), flags=(PacketFlags.ACK if acks else 0))
        else:
            # kind == "resent": the first copy the proxy ever sees of this packet already carries RESENT (the original was lost on the way)
            msg = Message("CompletePingCheck", Block("PingID", PingID=pid % 256), packet_id=pid, direction=self._dir(e),
                          acks=tuple(acks), flags=(PacketFlags.RELIABLE if reliable else 0) | (PacketFlags.ACK if acks else 0)
                          | (PacketFlags.RESENT if kind == "resent" else 0))
        # what the other endpoint should be shown: its own IDs for non-injected wire IDs, in order
        expect = [self.wire_to_orig[o][a] for a in acks if a in self.wire_to_orig[o]]
        inj_acked = [a for a in acks if a in self.injected[e]]
        c = self.c
        try:
            c.collect_acks(msg)
            if drop:
                c.drop_message(msg)
            else:
                c.send(msg)
        except Exception as ex:  # noqa
            self.err(f"proxy raised {type(ex).__name__}: {ex} while handling a packet from {e}")
            return
        for a in inj_acked:
            rec = self.injected[e][a]
            if rec["reliable"]:
                rec["acked"] = True
                if not rec["future"].done():
                    self.err(f"injected reliable {a} was acked by {e} but its completion did not fire")
        got = self._drain()
        shown_o, shown_e = [], []
        fwd = 0
        for recv, m in got:
            if recv == o:
                shown_o += self._deliver(o, m)
                if m.name != "PacketAck" or as_packet_ack:
                    if not drop:
                        fwd += 1
                        if m.packet_id in self.injected[o]:
                            self.err(f"packet {pid} from {e} went out under wire ID {m.packet_id}, which the proxy used for a packet it injected")
                        if m.packet_id in self.wire_to_orig[e] and self.wire_to_orig[e][m.packet_id] != pid:
                            self.err(f"packet {pid} from {e} went out under wire ID {m.packet_id}, already used for its packet {self.wire_to_orig[e][m.packet_id]}")
                        self.wire_to_orig[e][m.packet_id] = pid
                        if kind == "ping_old" and m.name == "StartPingCheck":
                            # the embedded ID is translated like a packet ID: it names the wire ID its packet went out under, unless the
                            # proxy itself has an older unacknowledged reliable packet in that direction
                            rev = {o_: w_ for w_, o_ in self.wire_to_orig[e].items()}
                            if old_id in rev:
                                own = [w_ for w_, r_ in self.injected[o].items() if r_["reliable"] and not r_["acked"] and not r_["given_up"]]
                                want_old = min([rev[old_id]] + own)
                                if m["PingID"]["OldestUnacked"] != want_old:
                                    self.err(f"StartPingCheck from {e} names its packet {old_id} (wire ID {rev[old_id]}) as oldest unacknowledged; "
                                             f"forwarded with OldestUnacked={m['PingID']['OldestUnacked']}, expected {want_old}")
            else:
                shown_e += self._deliver(e, m)
        if sorted(shown_o) != sorted(expect):
            self.err(f"{o} shown acks {shown_o}, expected exactly {expect} (acks {acks} from {e}, drop={drop})")
        if drop:
            want_e = [pid] if reliable else []
            if shown_e != want_e:
                self.err(f"dropped packet {pid} from {e} reliable={reliable}: sender shown acks {shown_e}, expected {want_e}")
            if any(m.name != "PacketAck" for _, m in got):
                self.err("a dropped packet reached the wire")
        else:
            if shown_e:
                self.err(f"sender {e} shown acks {shown_e} on a forwarded packet")
            want_fwd = 0 if (as_packet_ack and not expect) else 1
            if fwd != want_fwd:
                self.err(f"packet {pid} from {e} put on the wire {fwd} times, expected {want_fwd}")

    def inject(self, toward, reliable):
        from hippolyzer.lib.base.message.message import Message, Block
        from hippolyzer.lib.base.message.msgtypes import PacketFlags
        sender = self._other(toward)     # direction of travel: as if from `sender`
        msg = Message("CompletePingCheck", Block("PingID", PingID=7), direction=self._dir(sender))
        self.trace.append(("P", "inject->" + toward, reliable))
        try:
            if reliable:
                fut = self.c.send_reliable(msg)
            else:
                self.c.send(msg)
                fut = None
        except Exception as ex:  # noqa
            self.err(f"inject raised {type(ex).__name__}: {ex}")
            return
        got = self._drain()
        if len(got) != 1 or got[0][0] != toward:
            self.err(f"injection put {len(got)} packets on the wire")
            return
        m = got[0][1]
        self._deliver(toward, m)
        if m.packet_id in self.wire_to_orig[sender] or m.packet_id in self.injected[toward]:
            self.err(f"the injected packet got wire ID {m.packet_id}, which is already in use in that direction")
        self.injected[toward][m.packet_id] = {"future": fut, "reliable": reliable, "acked": False, "resends": 0, "given_up": False}

    def tick(self):
        """advance past the resend interval and run the resend pass"""
        # every sweep comes after more than the interval has passed: by a little, by a fraction, by more than a day
        gap = (0.5, 0.05, 0.25, 86400.0 + 2.0, 0.75)[self._ticks % 5]
        self._ticks += 1
        self.clock.advance(self.c.resend_every + gap)
        self.trace.append(("P", "tick", self.c.resend_every, gap))
        try:
            self.c.resend_unacked()
        except Exception as ex:  # noqa
            self.err(f"resend_unacked raised {type(ex).__name__}: {ex}")
            return
        got = self._drain()
        resent = {}
        for recv, m in got:
            self._deliver(recv, m)
            # resends of reliable packets must not be re-acked twice by the model endpoint: drop duplicate inbox entry
            if m.packet_id in self.ep[recv]["inbox"][:-1]:
                self.ep[recv]["inbox"].pop()
            resent.setdefault(recv, []).append(m)
        for toward in "VS":
            for wid, rec in self.injected[toward].items():
                if not rec["reliable"]:
                    continue
                ms = [m for m in resent.get(toward, []) if m.packet_id == wid]
                should = (not rec["acked"]) and (not rec["given_up"]) and rec["resends"] < 9
                if should and len(ms) != 1:
                    self.err(f"unacked injected reliable {wid} resent {len(ms)} times in one pass, expected 1")
                if not should and ms:
                    self.err(f"injected reliable {wid} retransmitted although acked or budget spent")
                from hippolyzer.lib.base.message.msgtypes import PacketFlags
                for m in ms:
                    if not (m.send_flags & PacketFlags.RESENT):
                        self.err(f"retransmission of {wid} lacks the RESENT flag")
                if should:
                    rec["resends"] += 1
                elif not rec["acked"] and not rec["given_up"]:
                    rec["given_up"] = True
                    f = rec["future"]
                    if not (f.done() and f.exception() is not None):
                        self.err(f"retry budget of {wid} spent but its completion did not fail")
                if rec["acked"] and rec["future"].done() and rec["future"].exception() is not None:
                    self.err(f"acked injected reliable {wid} completed with failure")
                if not rec["acked"] and not rec["given_up"] and rec["future"].done():
                    self.err(f"completion of {wid} fired before ack or exhaustion")
        other = [m for ms in resent.values() for m in ms if not any(m.packet_id in self.injected[t] for t in "VS")]
        if other:
            self.err("a non-injected packet was retransmitted by the proxy")


EVENTS = [
    ("V", True, (0,), False, False), ("V", False, (), False, False), ("S", True, (0,), False, False), ("S", False, (0, 1), False, False),
    ("V", True, (0,), False, True), ("S", True, (0,), False, True), ("V", False, (0, 1, 2), True, False), ("S", False, (0, 1, 2), True, False),
    ("inject", "V", True), ("inject", "S", True), ("inject", "S", False), ("tick",),
    ("V", False, (0, 1, 2), 2, False), ("S", False, (0, 1, 2), 2, False),
    ("V", False, (), False, False, "ping_old"), ("S", False, (), False, False, "ping_old"),
    ("V", False, (), False, False, "ping"), ("S", False, (0,), False, False, "ping"), ("V", True, (), False, False, "resent"), ("S", True, (0,), False, False, "resent"),
]


def apply(sim, ev):
    if ev[0] == "inject":
        sim.inject(ev[1], ev[2])
    elif ev[0] == "tick":
        sim.tick()
    else:
        sim.endpoint_sends(*ev)


def bounded_circuit_histories(reg, tier, seed):
    import asyncio
    loop = asyncio.new_event_loop()
    asyncio.set_event_loop(loop)
    depth = 3 if tier == "quick" else 4
    walks, walk_len = (150, 40) if tier == "quick" else (1500, 60)
    evals, failures, seen, samples = 0, [], set(), []

    def run_seq(seq, resend_every=None):
        nonlocal evals
        sim = Sim(resend_every=resend_every)
        try:
            for ev in seq:
                apply(sim, ev)
                evals += 1
                if sim.errors:
                    break
        finally:
            sim.close()
        return sim

    try:
        for n in range(1, depth + 1):
            for seq in itertools.product(range(len(EVENTS)), repeat=n):
                seen.add(seq)
                sim = run_seq([EVENTS[i] for i in seq])
                if sim.errors and len(failures) < 5:
                    e = sim.errors[0]
                    failures.append({"key": "circuit-history/bounded", "clause": e["violation"], "input": {"events": [list(map(str, x)) for x in e["trace"]]},
                                     "observed": e["violation"]})
        rng = random.Random(seed)
        for w in range(walks):
            seq = tuple(rng.randrange(len(EVENTS)) for _ in range(walk_len))
            seen.add(seq)
            sim = run_seq([EVENTS[i] for i in seq], resend_every=rng.choice([None, None, 0.5, 2.5, 0.25]))
            if w < 2:
                samples.append([str(t) for t in sim.trace[:8]])
            if sim.errors and len(failures) < 5:
                e = sim.errors[0]
                failures.append({"key": "circuit-history/bounded", "clause": e["violation"], "input": {"events": [list(map(str, x)) for x in e["trace"][-12:]]},
                                 "observed": e["violation"]})
    finally:
        loop.close()
    return {"name": "proxied-circuit-histories", "evaluations": evals, "distinct_nontrivial": len(seen),
            "rule": f"all event sequences up to length {depth} over a 20-letter alphabet (viewer/sim send reliable/unreliable with piggy-backed or "
                    f"PacketAck acks, StartPingCheck naming the next unused ID or an older packet, first sighting already RESENT, proxy drops, proxy injects either way, clock tick past the resend interval) + {walks} seeded random walks of "
                    f"length {walk_len}; distinct = distinct event sequences; monitors: wire IDs never shared between forwarded and injected packets, acks shown only for own IDs, exactly the expected ones, "
                    "injected acks never forwarded, drop => ack to sender, resend with same ID + RESENT until acked or 10 tries, completion exactly then",
            "bounded": True, "bounds": {"depth": depth, "walks": walks, "walk_len": walk_len}, "samples": samples, "failures": failures}
