"""Template-directed generation of LLUDP messages (shared by the bounded tiers of C01, C02, C06, C11, C12)."""
import math
import random
import struct
import uuid


def templates():
    from hippolyzer.lib.base.message.template_dict import DEFAULT_TEMPLATE_DICT
    return [t for t in DEFAULT_TEMPLATE_DICT.message_templates.values()] if hasattr(DEFAULT_TEMPLATE_DICT, "message_templates") \
        else list(DEFAULT_TEMPLATE_DICT.template_list)


def f32(x):
    return struct.unpack("<f", struct.pack("<f", x))[0]


def gen_f32(rng, boundary):
    if boundary:
        return rng.choice([0.0, -0.0, 1.0, -1.0, f32(3.4028234663852886e38), f32(-3.4028234663852886e38), f32(1.401298464324817e-45), 0.5])
    return f32(rng.uniform(-1e6, 1e6) if rng.random() < 0.7 else rng.uniform(-1, 1))


def gen_value(tv, rng, boundary=False, text_mode="auto"):
    from hippolyzer.lib.base.message.msgtypes import MsgType
    from hippolyzer.lib.base.datatypes import UUID, Vector3, Vector4, Quaternion
    t = tv.type
    ints = {MsgType.MVT_U8: (0, 255), MsgType.MVT_U16: (0, 65535), MsgType.MVT_U32: (0, 2 ** 32 - 1), MsgType.MVT_U64: (0, 2 ** 64 - 1),
            MsgType.MVT_S8: (-128, 127), MsgType.MVT_S16: (-32768, 32767), MsgType.MVT_S32: (-2 ** 31, 2 ** 31 - 1),
            MsgType.MVT_S64: (-2 ** 63, 2 ** 63 - 1), MsgType.MVT_IP_PORT: (0, 65535), MsgType.MVT_BOOL: (0, 1)}
    if t in ints:
        lo, hi = ints[t]
        if boundary:
            return rng.choice([lo, hi, 0, 1 if hi >= 1 else 0])
        return rng.randint(lo, hi)
    if t == MsgType.MVT_F32:
        return gen_f32(rng, boundary)
    if t == MsgType.MVT_F64:
        # (1e-05, 5e-324, 1e+22: doubles whose repr has an exponent and no decimal point)
        return rng.choice([0.0, -0.0, 1e300, -1e-300, 1e-05, 3e-07, 5e-324, 1e+22, -2e-09]) if boundary else rng.uniform(-1e9, 1e9)
    if t == MsgType.MVT_LLVector3:
        return Vector3(*[gen_f32(rng, boundary) for _ in range(3)])
    if t == MsgType.MVT_LLVector3d:
        return Vector3(*[rng.uniform(-1e6, 1e6) for _ in range(3)])
    if t == MsgType.MVT_LLVector4:
        return Vector4(*[gen_f32(rng, boundary) for _ in range(4)])
    if t == MsgType.MVT_LLQuaternion:
        # unit quaternion with non-negative W, components exactly F32 (what the wire can carry)
        while True:
            x, y, z = [f32(rng.uniform(-0.57, 0.57)) for _ in range(3)]
            if x * x + y * y + z * z <= 1.0:
                return Quaternion(x, y, z)
    if t == MsgType.MVT_LLUUID:
        return UUID(int=rng.getrandbits(128)) if not boundary else rng.choice([UUID(int=0), UUID(int=2 ** 128 - 1)])
    if t == MsgType.MVT_IP_ADDR:
        return ".".join(str(rng.randint(0, 255)) for _ in range(4))
    if t == MsgType.MVT_FIXED:
        return bytes(rng.getrandbits(8) for _ in range(tv.size))
    if t == MsgType.MVT_VARIABLE:
        maxlen = 255 if tv.size == 1 else 65535
        if boundary:
            ln = rng.choice([0, 1, 255 if tv.size == 1 else 1200])
        else:
            ln = rng.choice([0, 1, 2, 7, 31, rng.randint(0, 120)])
        ln = min(ln, maxlen)
        if tv.probably_text and not tv.probably_binary and text_mode != "bytes":
            # decoded form of a NUL-terminated UTF-8 field: a str without trailing NULs
            if ln <= 1 and boundary:
                return ""
            alphabet = "abcXYZ 0129_-\n\t\"'\\é中" if boundary else "abcdefghij KLMNOP0123"
            s = "".join(rng.choice(alphabet) for _ in range(max(0, ln // 2)))
            while len(s.encode("utf8")) + 1 > maxlen:
                s = s[:-1]
            return s.rstrip("\x00")
        if rng.random() < 0.12:
            # NUL-only / NUL-bearing short values: the decoded form of such a field is a bytes subclass that is falsy for b"\x00"
            return rng.choice([b"\x00", b"\x00\x00", b"a\x00", b"\x00a"])[:maxlen]
        return bytes(rng.getrandbits(8) for _ in range(ln))
    raise ValueError(t)


def gen_message(tmpl, rng, boundary=False, counts="rand", flags=None, packet_id=None, acks=None, extra=b"", direction=None):
    from hippolyzer.lib.base.message.message import Message, Block
    from hippolyzer.lib.base.message.msgtypes import MsgBlockType, PacketFlags
    from hippolyzer.lib.base.network.transport import Direction
    blocks = []
    for tb in tmpl.blocks:
        if tb.block_type == MsgBlockType.MBT_SINGLE:
            n = 1
        elif tb.block_type == MsgBlockType.MBT_MULTIPLE:
            n = tb.number
        else:
            n = {"min": 0, "one": 1, "max": 255}.get(counts, rng.choice([0, 1, 2, 3]))
        if n == 0:
            blocks.append((tb.name, []))
            continue
        bl = []
        for _ in range(n):
            bl.append(Block(tb.name, **{tv.name: gen_value(tv, rng, boundary) for tv in tb.variables}))
        blocks.append((tb.name, bl))
    msg = Message(tmpl.name, packet_id=packet_id if packet_id is not None else rng.randint(1, 2 ** 31),
                  flags=flags if flags is not None else 0, acks=acks, direction=direction or Direction.OUT)
    for name, bl in blocks:
        msg.create_block_list(name)
        for b in bl:
            msg.add_block(b)
    if acks:
        msg.send_flags |= PacketFlags.ACK
    if extra:
        msg.extra = extra
    return msg


def body_of(serializer, msg):
    """datagram body (after the 6-byte header, before appended acks), zero-decoded"""
    from hippolyzer.lib.base.message.udpdeserializer import UDPMessageDeserializer
    data = serializer.serialize(msg)
    n_acks = data[-1] if msg.has_acks else 0
    end = len(data) - (1 + 4 * n_acks if msg.has_acks else 0)
    body = data[6:end]
    if msg.zerocoded:
        body = bytes(UDPMessageDeserializer.zero_code_expand(body))
    return body


def same_message(a, b):
    """equality on everything the codec carries: name, flags, id, acks, extra, blocks by value (floats bitwise via packing)"""
    if (a.name, int(a.send_flags), a.packet_id, tuple(a.acks), bytes(a.extra)) != (b.name, int(b.send_flags), b.packet_id, tuple(b.acks), bytes(b.extra)):
        return False
    if list(a.blocks.keys()) != list(b.blocks.keys()):
        return False
    for k in a.blocks:
        if len(a.blocks[k]) != len(b.blocks[k]):
            return False
        for ba, bb in zip(a.blocks[k], b.blocks[k]):
            if list(ba.vars.keys()) != list(bb.vars.keys()):
                return False
            for vn in ba.vars:
                va, vb = ba.vars[vn], bb.vars[vn]
                if not _veq(va, vb):
                    return False
    return True


def _veq(va, vb):
    if isinstance(va, float) or isinstance(vb, float):
        try:
            return struct.pack("<d", va) == struct.pack("<d", vb)
        except Exception:  # noqa
            return False
    try:
        if hasattr(va, "data") and hasattr(vb, "data") and callable(va.data):
            return all(struct.pack("<d", x) == struct.pack("<d", y) for x, y in zip(va.data(), vb.data()))
    except Exception:  # noqa
        pass
    try:
        return bool(va == vb)
    except Exception:  # noqa
        return False
