"""C18 - message log: filters mean what they say and the view equals the filtered log.

Tier P: Not / And / Or nodes denote negation / conjunction / disjunction of their operands for both evaluation modes,
children abstracted by the contract every node satisfies (structural induction => every tree of every depth).
Tier B: comparison applicability, grammar, view invariant over operation sequences, freeze/thaw, export/import.
"""
import z3

from pyvc.contracts import ClassDecl, FnContract, SpecFn
from pyvc.values import opaque_sort

PID = "C18"
FREL = "hippolyzer/lib/proxy/message_filter.py"
FMOD = "hippolyzer.lib.proxy.message_filter"

META = {
    "level": "other",
    "explanation": (
        "P (proved): UnaryNotFilterNode.match, AndFilterNode.match and OrFilterNode.match return a MatchResult whose truth value is the "
        "negation / conjunction / disjunction of the denotations of their operands, for short_circuit True and False alike, with "
        "operands abstracted by the very contract being proved (result.result == den(node, entry), den a pure total predicate): by "
        "structural induction every filter tree of every depth means what it says and the two evaluation modes agree. "
        "FilteringMessageLogger.add_log_entry: unless paused the entry is retained exactly once; it enters the view only if the filter "
        "accepted that very entry, at the end of the view, at most once; a filter or model-hook failure never escapes. "
        "WrappingMessageLogger.add_log_entry: every wrapped logger is offered the entry, the summary is cached iff one kept it, one freeze. "
        "B (bounded): leaf comparisons (every operator x value type: inapplicable => False, never an error), the arpeggio grammar -> "
        "tree step, the FilteringMessageLogger view invariant over operation sequences with window overflow, freeze/thaw and "
        "export/import."),
    "trusted_base": [
        "leaf nodes (MessageFilterNode -> entry.matches) are pure and total: that is exactly the comparison clause, decided in tier B",
        "MatchResult is a NamedTuple (result, fields); bool(MatchResult) == result (read from its __bool__)",
        "arpeggio parser: third-party, bounded tier only",
    ],
}

DEN = z3.Function("den", opaque_sort("Obj"), opaque_sort("Entry"), z3.BoolSort())


def register(reg):
    from contracts import c18b_contracts
    c18b_contracts.register_p2(reg, PID)
    reg.add_spec(SpecFn("den", DEN, ["obj", "opaque"], "bool", native=None))
    reg.add_class(ClassDecl("MatchResult", fields={"result": "Bool", "fields": "Opaque:Fields"}, truth="self.result"))
    reg.add_class(ClassDecl("BaseFilterNode", fields={}))
    reg.add_class(ClassDecl("UnaryNotFilterNode", supers=["BaseFilterNode"], fields={"node": "Obj:BaseFilterNode"}))
    reg.add_class(ClassDecl("AndFilterNode", supers=["BaseFilterNode"], fields={"left_node": "Obj:BaseFilterNode", "right_node": "Obj:BaseFilterNode"}))
    reg.add_class(ClassDecl("OrFilterNode", supers=["BaseFilterNode"], fields={"left_node": "Obj:BaseFilterNode", "right_node": "Obj:BaseFilterNode"}))
    mr = {"MatchResult": {"returns": "Obj:MatchResult", "post": "result.result == truthy(arg0)", "doc": "NamedTuple constructor"}}
    params = {"msg": "Opaque:Entry", "short_circuit": "Bool"}
    reg.add_fn(FnContract(key=f"{FMOD}:BaseFilterNode.match", relpath=FREL, qualname="BaseFilterNode.match", cls="BaseFilterNode",
                          prop=PID, verify=False, params=params, param_names=["msg", "short_circuit"], defaults={"short_circuit": True},
                          returns="Obj:MatchResult", ensures=["result.result == den(self, msg)"], frame=[],
                          doc="induction hypothesis: every node's match is the pure denotation of that node on the entry"))
    reg.add_fn(FnContract(key=f"{FMOD}:UnaryNotFilterNode.match", relpath=FREL, qualname="UnaryNotFilterNode.match",
                          cls="UnaryNotFilterNode", prop=PID, params=params, param_names=["msg", "short_circuit"], returns="Obj:MatchResult",
                          externals=mr, ensures=["result.result == (not den(self.node, msg))"], frame=[]))
    reg.add_fn(FnContract(key=f"{FMOD}:AndFilterNode.match", relpath=FREL, qualname="AndFilterNode.match", cls="AndFilterNode", prop=PID,
                          params=params, param_names=["msg", "short_circuit"], returns="Obj:MatchResult", externals=mr,
                          ensures=["result.result == (den(self.left_node, msg) and den(self.right_node, msg))"], frame=[]))
    reg.add_fn(FnContract(key=f"{FMOD}:OrFilterNode.match", relpath=FREL, qualname="OrFilterNode.match", cls="OrFilterNode", prop=PID,
                          params=params, param_names=["msg", "short_circuit"], returns="Obj:MatchResult", externals=mr,
                          ensures=["result.result == (den(self.left_node, msg) or den(self.right_node, msg))"], frame=[]))


from contracts import c18_native
BOUNDED = [c18_native.bounded_filters]
