"""C06 bounded tier: datagram sequences through the real proxy (two regions), garbage interleaved."""
import random
import struct

from contracts.proxy_harness import Harness
from contracts import msggen


def _garbage(rng, h, kind):
    """(bytes, src) for one datagram that must be discarded without effect"""
    far = h.region_addrs[0]
    if kind == "unknown_host":
        return bytes(rng.getrandbits(8) for _ in range(rng.randint(0, 40))), ("203.0.113.7", 4000)
    if kind == "non_socks":
        return b"\x01\x02\x03" + bytes(rng.getrandbits(8) for _ in range(rng.randint(8, 30))), h.client_addr
    if kind == "wrong_frag":
        return struct.pack("!HBB4sH", 0, 1, 1, bytes([10, 0, 0, 1]), 13000) + b"junkjunkjunk", h.client_addr
    if kind == "bad_atyp":
        return struct.pack("!HBB4sH", 0, 0, 4, bytes([10, 0, 0, 1]), 13000) + b"junkjunkjunk", h.client_addr
    if kind == "undecodable_from_sim":
        # random bytes are now and then a well-formed datagram (valid header, known message number), which the proxy rightly
        # forwards: "undecodable" means the real header parser rejects it (found by the thorough tier: false alarm of this harness)
        from hippolyzer.lib.base.message.udpdeserializer import UDPMessageDeserializer
        for _ in range(50):
            g = bytes(rng.getrandbits(8) for _ in range(rng.randint(1, 30)))
            try:
                UDPMessageDeserializer().deserialize(g)
            except Exception:  # noqa
                return g, far
        return b"\xff\xff\xff", far
    if kind == "truncated_from_sim":
        return b"\x00\x00\x00\x00", far
    if kind == "undecodable_from_viewer":
        return struct.pack("!HBB4sH", 0, 0, 1, bytes([10, 0, 0, 1]), 13000) + bytes(rng.getrandbits(8) for _ in range(5)), h.client_addr
    if kind == "other_port_undecodable":
        ip, port = far
        return (struct.pack("!HBB4sH", 0, 0, 1, bytes(int(x) for x in ip.split(".")), port) + bytes(rng.getrandbits(8) for _ in range(5)),
                (h.client_addr[0], 4242))
    if kind == "unknown_circuit":
        from hippolyzer.lib.base.message.message import Message, Block
        m = Message("CompletePingCheck", Block("PingID", PingID=1), packet_id=99)
        return struct.pack("!HBB4sH", 0, 0, 1, bytes([10, 9, 9, 9]), 1) + h.serializer.serialize(m), h.client_addr
    raise ValueError(kind)


GARBAGE = ["unknown_host", "non_socks", "wrong_frag", "bad_atyp", "undecodable_from_sim", "truncated_from_sim",
           "undecodable_from_viewer", "unknown_circuit", "other_port_undecodable"]
SKIP = {"UseCircuitCode", "PacketAck", "StartPingCheck", "CloseCircuit", "DisableSimulator", "ParcelProperties", "ChatFromViewer", "ChatFromSimulator",
        "AgentMovementComplete", "RegionHandshake", "ObjectUpdate", "ObjectUpdateCompressed", "ObjectUpdateCached",
        "ImprovedTerseObjectUpdate", "KillObject", "ObjectProperties", "ObjectPropertiesFamily", "RequestMultipleObjects",
        "AgentDataUpdate", "TransferInfo", "TransferPacket", "SendXferPacket", "RequestXfer", "ConfirmXferPacket", "AbortXfer",
        "ParcelOverlay", "ParcelProperties", "CoarseLocationUpdate", "UUIDNameReply", "UUIDGroupNameReply", "AvatarAnimation"}


def bounded_transparency(reg, tier, seed):
    from hippolyzer.lib.base.message.message_dot_xml import MessageDotXML
    from hippolyzer.lib.base.message.udpdeserializer import UDPMessageDeserializer
    from hippolyzer.lib.base.network.transport import Direction
    from hippolyzer.lib.base.settings import Settings
    rng = random.Random(seed)
    xml = MessageDotXML()
    s = Settings()
    s.ENABLE_DEFERRED_PACKET_PARSING = False
    de = UDPMessageDeserializer(settings=s)
    tmpls = [t for t in msggen.templates() if t.name not in SKIP]
    if tier == "quick":
        rng.shuffle(tmpls)
        tmpls = tmpls[:160]
    evals, failures, seen, samples = 0, [], set(), []
    h = Harness(n_regions=2)
    try:
        h.open_circuits()
        state0 = (h.session.main_region, len(h.session.regions), dict(h.protocol.far_to_near_map))
        next_id = {(d, r): 0 for d in ("OUT", "IN") for r in (0, 1)}      # sequence numbers start at 0 (0 is an ID like any other)
        handled_names = []
        h.session.message_handler.subscribe("*", lambda m: handled_names.append(m.name))
        for r_ in h.session.regions:
            r_.message_handler.subscribe("*", lambda m: handled_names.append(m.name))

        def fail(what, inp):
            if len(failures) < 5:
                failures.append({"key": "transparency/bounded", "clause": what, "input": inp, "observed": what})
        for t in tmpls:
            for direction in (Direction.OUT, Direction.IN):
                region_idx = rng.randrange(2)
                # (read from the message.xml data by the driver itself: a message listed there with a flavour other than "template" may
                # not come over UDP)
                banned = t.name in xml.messages and xml.messages[t.name].get("flavor") != "template"
                # garbage before
                for _ in range(rng.choice([0, 1, 2])):
                    kind = rng.choice(GARBAGE)
                    g, src = _garbage(rng, h, kind)
                    exc, sent = h.feed(g, src)
                    evals += 1
                    seen.add(("garbage", kind, g[:12]))
                    if sent:
                        fail(f"garbage datagram ({kind}) caused {len(sent)} emissions", {"kind": kind, "data": g.hex()[:80]})
                    if (h.session.main_region, len(h.session.regions)) != state0[:2]:
                        fail(f"garbage datagram ({kind}) changed session state", {"kind": kind})
                    if h.protocol.far_to_near_map.get(h.region_addrs[0]) != h.client_addr or h.protocol.far_to_near_map.get(h.region_addrs[1]) != h.client_addr:
                        fail(f"garbage datagram ({kind}) re-pointed a simulator's return route", {"kind": kind})
                        h.protocol.far_to_near_map[h.region_addrs[0]] = h.client_addr
                        h.protocol.far_to_near_map[h.region_addrs[1]] = h.client_addr
                key = ("OUT" if direction == Direction.OUT else "IN", region_idx)
                pid = next_id[key]
                next_id[key] += 1
                try:
                    m = msggen.gen_message(t, rng, boundary=rng.random() < 0.3, packet_id=pid, direction=direction,
                                           flags=rng.choice([0, 0x40, 0x80, 0xC0]))
                    data, src = h.datagram(m, region_idx)
                except Exception as e:  # noqa
                    continue
                del handled_names[:]
                exc, sent = h.feed(data, src)
                evals += 1
                seen.add((t.name, key))
                inp = {"message": t.name, "direction": str(direction), "region": region_idx, "datagram": data.hex()[:120]}
                if len(samples) < 3:
                    samples.append(inp)
                if banned and direction == Direction.IN:
                    if sent:
                        fail(f"UDP-banned message {t.name} was forwarded", inp)
                    if t.name in handled_names:
                        fail(f"UDP-banned message {t.name} reached message handlers before being discarded", inp)
                    continue
                if exc is not None:
                    fail(f"valid {t.name} raised {type(exc).__name__}: {exc}", inp)
                    continue
                if len(sent) != 1:
                    fail(f"valid {t.name} emitted {len(sent)} datagrams, expected exactly 1", inp)
                    continue
                raw, dst, pkt = sent[0]
                want_dst = h.region_addrs[region_idx] if direction == Direction.OUT else h.client_addr
                if dst != want_dst:
                    fail(f"{t.name} delivered to {dst}, expected {want_dst}", inp)
                if direction == Direction.IN:
                    # wrapped with the simulator's address: exactly the SOCKS5 UDP header for that simulator
                    ip, port = h.region_addrs[region_idx]
                    hdr = struct.pack("!HBB4sH", 0, 0, 1, bytes(int(x) for x in ip.split(".")), port)
                    if raw[:10] != hdr:
                        fail(f"{t.name}: wrong SOCKS header {raw[:10].hex()} expected {hdr.hex()}", inp)
                    payload = raw[10:]
                else:
                    payload = raw
                try:
                    got = de.deserialize(payload)
                    want = de.deserialize(h.serializer.serialize(m))
                    if not msggen.same_message(got, want):
                        fail(f"{t.name}: message content changed in transit", inp)
                except Exception as e:  # noqa
                    fail(f"{t.name}: forwarded datagram does not decode: {e!r}", inp)
        # circuit teardown messages are themselves delivered exactly once (region 1: DisableSimulator, region 0: CloseCircuit)
        from hippolyzer.lib.base.message.message import Message as _M
        for name, direction, ridx in (("DisableSimulator", Direction.IN, 1), ("CloseCircuit", Direction.OUT, 0)):
            m = _M(name, packet_id=next_id[("OUT" if direction == Direction.OUT else "IN", ridx)], direction=direction)
            data, src = h.datagram(m, ridx)
            exc, sent = h.feed(data, src)
            evals += 1
            seen.add((name,))
            if exc is not None or len(sent) != 1:
                fail(f"{name} emitted {len(sent)} datagrams (exception {exc!r}), expected exactly 1", {"message": name})
    finally:
        h.close()
    # simulators on the viewer's own IP: an inbound datagram is recognised by its established route, whatever its first bytes look
    # like (flags 0 and a packet ID of 256..511 / 768..1023 read like a SOCKS5 UDP header)
    h3 = Harness(n_regions=2, same_ip=True)
    try:
        h3.open_circuits()
        from hippolyzer.lib.base.message.message import Message as _M3, Block as _B3
        for ridx in (0, 1):
            for pid in (1, 255, 256, 257, 300, 511, 512, 767, 768, 900, 1023, 1024, 65792, 16777472):
                m = _M3("CompletePingCheck", _B3("PingID", PingID=pid % 256), packet_id=pid, direction=Direction.IN)
                data, src = h3.datagram(m, ridx)
                exc, sent = h3.feed(data, src)
                evals += 1
                seen.add(("same-ip", ridx, pid))
                inp = {"topology": "simulator on the client's IP", "region": ridx, "packet_id": pid, "datagram": data.hex()}
                if exc is not None or len(sent) != 1:
                    failures.append({"key": "transparency/bounded", "clause": f"inbound datagram with packet id {pid} emitted {len(sent)} datagrams "
                                     f"(exception {exc!r}), expected exactly 1", "input": inp, "observed": str(len(sent))})
                    continue
                raw, dst, pkt = sent[0]
                if dst != h3.client_addr or raw[10:] != data:
                    failures.append({"key": "transparency/bounded", "clause": f"inbound datagram with packet id {pid} was not relayed to the viewer intact",
                                     "input": inp, "observed": f"dst={dst} payload={raw[10:].hex()[:60]}"})
            if h3.protocol.far_to_near_map.get(h3.region_addrs[ridx]) != h3.client_addr:
                failures.append({"key": "transparency/bounded", "clause": "a simulator's return route changed", "input": {"region": ridx}, "observed": ""})
    finally:
        h3.close()
    # messages the proxy itself takes note of (kept out of the long sequence above because they change session state), through
    # regions announced with and without a region handle (a neighbour known only from EstablishAgentCommunication has none):
    # forwarded exactly once, content intact, like everything else
    h4 = Harness(n_regions=2)
    try:
        bare = ("10.0.0.9", 13009)
        h4.session.register_region(bare, seed_url="https://test.localhost:4/r9")
        h4.region_addrs.append(bare)
        h4.open_circuits()
        by_name = {t.name: t for t in msggen.templates()}
        pid4 = 1
        for name, direction in (("RegionHandshake", Direction.IN), ("AgentDataUpdate", Direction.IN), ("RegionHandshake", Direction.IN),
                                ("UseCircuitCode", Direction.OUT), ("CompleteAgentMovement", Direction.OUT), ("RegionHandshakeReply", Direction.OUT)):
            for ridx in (0, 1, 2):
                pid4 += 1
                m = msggen.gen_message(by_name[name], rng, packet_id=pid4, direction=direction, flags=rng.choice([0, 0x40]), counts="one")
                if name == "UseCircuitCode":
                    m["CircuitCode"]["Code"] = h4.session.circuit_code
                    m["CircuitCode"]["SessionID"] = h4.session.id
                    m["CircuitCode"]["ID"] = h4.session.agent_id
                data, src = h4.datagram(m, ridx)
                exc, sent = h4.feed(data, src)
                evals += 1
                seen.add(("noted", name, ridx))
                inp = {"message": name, "region": ridx, "region_has_handle": ridx != 2, "datagram": data.hex()[:120]}
                if exc is not None or len(sent) != 1:
                    failures.append({"key": "transparency/bounded", "clause": f"{name} through a region {'without' if ridx == 2 else 'with'} a handle: "
                                     f"{len(sent)} datagrams forwarded, exception {exc!r}; expected exactly 1", "input": inp, "observed": repr(exc)})
                    continue
                raw, dst, pkt = sent[0]
                want_dst = h4.region_addrs[ridx] if direction == Direction.OUT else h4.client_addr
                if dst != want_dst or not msggen.same_message(de.deserialize(pkt.data), de.deserialize(h4.serializer.serialize(m))):
                    failures.append({"key": "transparency/bounded", "clause": f"{name} was not forwarded intact to {want_dst}", "input": inp,
                                     "observed": str(dst)})
        # chat from the simulator that looks like a scripted-restriction (RLV) command - owner-say text starting with "@": with no
        # addon there is nobody to act on it, so it goes to the viewer like any other chat, whatever follows the "@"
        from hippolyzer.lib.base.message.message import Message as _MC, Block as _BC
        from hippolyzer.lib.base.datatypes import UUID as _UC
        for text in ("@version", "@detach=n,fly=n", "@Bob is home now, say hi", "@ 5 visitors today", "@", "@,,", "@=", "plain text", "@clear"):
            for ctype in (8, 1):            # OwnerSay, normal chat
                for rel in (0, 0x40):
                    pid4 += 1
                    m = _MC("ChatFromSimulator", _BC("ChatData", FromName="obj", SourceID=_UC(int=9), OwnerID=h4.session.agent_id, SourceType=2, ChatType=ctype,
                                                      Audible=1, Position=(1.0, 2.0, 3.0), Message=text), packet_id=pid4, flags=rel, direction=Direction.IN)
                    data, src = h4.datagram(m, 0)
                    exc, sent = h4.feed(data, src)
                    evals += 1
                    seen.add(("owner-say", text, ctype, rel))
                    n_chat = sum(1 for _r, _d, p_ in sent if de.deserialize(p_.data).name == "ChatFromSimulator")
                    if exc is not None or n_chat != 1:
                        failures.append({"key": "transparency/owner-say", "clause": f"chat from the simulator with text {text!r} (chat type {ctype}, "
                                         f"{'reliable' if rel else 'unreliable'}) reached the viewer {n_chat} times (exception {exc!r}); no addon is loaded",
                                         "input": {"text": text, "chat_type": ctype, "reliable": bool(rel)}, "observed": repr(exc)})
        # a region that is announced again while its circuit is open (TeleportFinish / CrossedRegion / EstablishAgentCommunication carry
        # its address and a seed capability: the same one, or a new one) keeps its circuit: datagrams go on flowing both ways
        from hippolyzer.lib.base.message.message import Message as _M4, Block as _B4
        for ridx, seed_url in ((0, "https://test.localhost:4/foo"), (1, "https://test.localhost:4/r0"), (1, "https://test.localhost:4/r0-new"),
                               (2, "https://test.localhost:4/r9-new"), (0, "https://test.localhost:4/foo-new")):
            h4.session.register_region(h4.region_addrs[ridx], seed_url=seed_url)
            for direction in (Direction.OUT, Direction.IN):
                pid4 += 1
                m = _M4("CompletePingCheck", _B4("PingID", PingID=pid4 % 256), packet_id=pid4, direction=direction)
                data, src = h4.datagram(m, ridx)
                exc, sent = h4.feed(data, src)
                evals += 1
                seen.add(("reannounced", ridx, seed_url, str(direction)))
                if exc is not None or len(sent) != 1:
                    failures.append({"key": "transparency/bounded", "clause": f"after region {ridx} was announced again (seed {seed_url}) a {direction.name} datagram on "
                                     f"its open circuit was forwarded {len(sent)} times (exception {exc!r}); expected exactly 1",
                                     "input": {"region": ridx, "seed": seed_url, "direction": str(direction)}, "observed": repr(exc)})
    finally:
        h4.close()
    # pre-session datagrams: a fresh protocol with no session discards everything but UseCircuitCode
    h2 = Harness()
    try:
        from hippolyzer.lib.base.message.message import Message, Block
        m = Message("CompletePingCheck", Block("PingID", PingID=1), packet_id=1, direction=Direction.OUT)
        data, src = h2.datagram(m)
        exc, sent = h2.feed(data, src)
        evals += 1
        seen.add(("pre-session",))
        if sent or h2.protocol.session is not None:
            failures.append({"key": "transparency/bounded", "clause": "pre-session datagram was forwarded or claimed a session",
                             "input": data.hex(), "observed": str(sent)[:100]})
    finally:
        h2.close()
    return {"name": "udp-transparency-sequences", "evaluations": evals, "distinct_nontrivial": len(seen),
            "rule": f"one long sequence through one real proxy object: {len(tmpls)} templates x both directions x 2 regions, generated values, "
                    "random flags, interleaved with 8 kinds of discardable datagrams; distinct = distinct (template, direction, region) and "
                    "(garbage kind, prefix)", "bounded": True, "bounds": {"templates": len(tmpls)}, "samples": samples, "failures": failures}
