"""Tier-P contracts for C13: the hand-optimised reader mirrors the declarative template in *which* sections it reads, under
*which* flag, in *which* order, and in the wire types of every fixed-size field (static layout facts read from the live objects).
Equality of the two decoders on section *contents* stays bounded-tier."""
import itertools
import struct as _struct

import z3

from pyvc.contracts import ClassDecl, FnContract, Lemma

OREL = "hippolyzer/lib/base/objects.py"


def spec_code(spec):
    """struct format of a fixed-size template spec"""
    import hippolyzer.lib.base.serialization as se
    import hippolyzer.lib.base.templates as t
    if spec is se.UUID:
        return "16s"
    if isinstance(spec, se.SerializablePrimitive):
        return spec._struct_fmt
    if spec is se.Vector3 or (isinstance(spec, type) and issubclass(spec, se.Vector3)):
        return "3f"
    if isinstance(spec, se.PackedQuat):
        return spec_code(spec._child_spec)
    if isinstance(spec, (se.IntEnum, se.IntFlag, se.Adapter)) and getattr(spec, "_child_spec", None) is not None:
        return spec_code(spec._child_spec)
    if isinstance(spec, se.OptionalFlagged):
        return spec_code(spec._ser_spec)
    if isinstance(spec, se.ByteArray):
        return spec._len_spec._struct_fmt
    raise ValueError(f"no fixed layout for {spec!r}")


def static_layout_facts():
    """(name, holds) facts relating the fast reader's struct constants to the live template"""
    import hippolyzer.lib.base.templates as t
    from hippolyzer.lib.base.objects import FastObjectUpdateCompressedDataDeserializer as F
    T = t.ObjectUpdateCompressedDataSerializer.TEMPLATE._template_spec
    names = list(T.keys())
    facts = []

    def fmt_of(fields):
        return "<" + "".join(spec_code(T[f]) for f in fields)

    def same(a, b):
        return _struct.Struct(a).format == _struct.Struct(b).format
    hdr = names[:names.index("OwnerID") + 1]
    facts.append(("header struct == template fields FullID..OwnerID", same(F.HEADER_STRUCT.format, fmt_of(hdr))))
    prim = names[names.index("PathCurve"):names.index("ProfileHollow") + 1]
    facts.append(("prim params struct == template fields PathCurve..ProfileHollow", same(F.PRIM_PARAMS_STRUCT.format, fmt_of(prim))))
    facts.append(("sound struct == template Sound..SoundRadius", same(F.SOUND_STRUCT.format, fmt_of(["Sound", "SoundGain", "SoundFlags", "SoundRadius"]))))
    facts.append(("angular velocity struct", same(F.ANGULAR_VELOCITY_STRUCT.format, fmt_of(["AngularVelocity"]))))
    facts.append(("parent id struct", same(F.PARENT_ID_STRUCT.format, fmt_of(["ParentID"]))))
    facts.append(("tree species struct", same(F.TREE_SPECIES_STRUCT.format, fmt_of(["TreeSpecies"]))))
    facts.append(("scratchpad length prefix", same(F.DATAPACKER_LEN.format, fmt_of(["ScratchPad"]))))
    facts.append(("old particle block spec", repr(type(F.PARTICLES_OLD)) == repr(type(T["PSBlock"]._ser_spec)) and F.PARTICLES_OLD._bytes_tmpl._size == T["PSBlock"]._ser_spec._bytes_tmpl._size
                  and F.PARTICLES_OLD._spec is T["PSBlock"]._ser_spec._spec))
    # the order of the template's sections and the flag guarding each
    opt = [(k, v._flag_val) for k, v in T.items() if hasattr(v, "_flag_val")]
    facts.append(("template optional sections and flags", opt == [
        ("AngularVelocity", 128), ("ParentID", 32), ("TreeSpecies", 2), ("ScratchPad", 1), ("Text", 4), ("TextColor", 4), ("MediaURL", 512),
        ("PSBlock", 8), ("Sound", 16), ("SoundGain", 16), ("SoundFlags", 16), ("SoundRadius", 16), ("NameValue", 256), ("TextureAnim", 64),
        ("PSBlockNew", 1024)]))
    return facts


def _sort_of(code):
    if code.endswith("s"):
        return "Bytes"
    if code in "fd":
        return "Float"
    return "Int"


def _struct_returns(args):
    st = args[0].t
    import re
    out = []
    for cnt, ch in re.findall(r"(\d*)([a-zA-Z])", st.format.lstrip("<>!=@")):
        if ch == "s":
            out.append("Bytes")
        else:
            out.extend([_sort_of(ch)] * int(cnt or 1))
    return "Tuple[" + ",".join(out) + "]"


def register_p(reg, prop):
    import hippolyzer.lib.base.templates as tmpls
    import hippolyzer.lib.base.serialization as se
    from hippolyzer.lib.base.objects import FastObjectUpdateCompressedDataDeserializer as F
    reg.add_class(ClassDecl("FastReaderCls", fields={}))
    o = "Opaque:Any"
    ext = {
        "SimpleStructReader": {"returns": "Opaque:Reader", "doc": "struct reader over the payload"},
        "reader.read_struct": {"returns_fn": _struct_returns, "record_as": "read_struct", "may_raise": "struct.error", "doc": "fixed-layout read"},
        "reader.read_bytes": {"returns": "Bytes", "record_as": "read_bytes", "may_raise": "ValueError", "doc": "n bytes"},
        "reader.read_bytes_null_term": {"returns": "Opaque:Bytes", "record_as": "read_cstr", "may_raise": "IndexError", "doc": "NUL-terminated bytes"},
        "reader.read": {"returns": o, "record_as": "read", "may_raise": "AnyException", "doc": "declarative sub-template read"},
        "cls.ATTACHMENT_STATE_ADAPTER.decode": {"returns": o, "may_raise": "AnyException", "doc": "attachment-state adapter (content, bounded tier)"},
        "cls.COLOR_ADAPTER.decode": {"returns": o, "may_raise": "AnyException", "doc": "colour adapter (content, bounded tier)"},
        "*.decode": {"returns": o, "may_raise": "AnyException", "doc": "utf-8 / adapter decode"},
        "Vector3": {"returns": o, "ignore_args": True}, "Quaternion": {"returns": o, "ignore_args": True},
        "UUID": {"returns": o, "may_raise": "ValueError"},
        "tmpls.PCode": {"returns": "Int", "may_raise": "ValueError", "post": "result == arg0", "doc": "enum lookup keeps the value"},
        "tmpls.AgentState": {"returns": o, "may_raise": "ValueError"}, "tmpls.SoundFlags": {"returns": o},
        "se.TypedByteArray": {"returns": "Opaque:Spec", "native_call": se.TypedByteArray, "doc": "texture-anim sub-template: pure constructor over live constants, run natively"},
    }
    FL = tmpls.CompressedFlags
    T = tmpls.ObjectUpdateCompressedDataSerializer.TEMPLATE._template_spec

    def flag(field):       # the flag the live template puts on that field
        return int(T[field]._flag_val)
    # template field -> how the fast reader's read of that section shows up in the ghost call log (the hand-written part of the
    # correspondence; flags, order and wire types come from the live template and the static layout facts)
    sections = [
        ("AngularVelocity", "read_struct", "arg0 == cls.ANGULAR_VELOCITY_STRUCT"),
        ("ParentID", "read_struct", "arg0 == cls.PARENT_ID_STRUCT"),
        ("TreeSpecies", "read_struct", "arg0 == cls.TREE_SPECIES_STRUCT"),
        ("ScratchPad", "read_struct", "arg0 == cls.DATAPACKER_LEN"),
        ("PSBlock", "read", "arg0 == cls.PARTICLES_OLD"),
        ("ExtraParams", "read", "arg0 == tmpls.EXTRA_PARAM_COLLECTION"),
        ("Sound", "read_struct", "arg0 == cls.SOUND_STRUCT"),
        ("NameValue", "read", "arg0 == tmpls.NAMEVALUES_TERMINATED_TEMPLATE"),
        ("TextureEntry", "read", "arg0 == tmpls.DATA_PACKER_TE_TEMPLATE"),
        ("TextureAnim", "read", "isa(arg0, 'TypedByteArray') and arg0._spec == tmpls.TA_TEMPLATE and arg0._bytes_tmpl._len_spec == se.U32"),
        ("PSBlockNew", "read", "arg0 == tmpls.PSBLOCK_TEMPLATE"),
    ]
    ens = []
    for fld, log, pred in sections:
        call = f"called_with('{log}', lambda arg0: {pred})"
        if hasattr(T[fld], "_flag_val"):
            ens.append(f"iff((flags & {flag(fld)}) != 0, {call})")
        else:
            ens.append(call)

    def cnt(*fields):
        return " + ".join(f"ite((flags & {flag(f)}) != 0, 1, 0)" for f in fields)
    ens += [
        f"ncalls('read_cstr') == {cnt('Text', 'MediaURL')}",
        f"ncalls('read_bytes') == {cnt('ScratchPad', 'TextColor')}",
        f"ncalls('read_struct') == 2 + {cnt('AngularVelocity', 'ParentID', 'TreeSpecies', 'ScratchPad', 'Sound')}",
        f"ncalls('read') == 2 + {cnt('PSBlock', 'NameValue', 'TextureAnim', 'PSBlockNew')}",
        "call_index('read_struct', lambda arg0: arg0 == cls.HEADER_STRUCT) == 0",
        "call_index('read_struct', lambda arg0: arg0 == cls.PRIM_PARAMS_STRUCT) == ncalls('read_struct') - 1",
    ]
    # sections that use the same kind of read come in the template's order
    for log in ("read_struct", "read"):
        seq = [p for _, l, p in sections if l == log]
        for a, b in zip(seq, seq[1:]):
            ia, ib = (f"call_index('{log}', lambda arg0: {x})" for x in (a, b))
            ens.append(f"implies({ia} >= 0 and {ib} >= 0, {ia} < {ib})")
    bits = [int(f) for f in FL]
    allmask = sum(bits)
    # instances: the quick tier frees one section flag at a time plus every two sections adjacent in the reader (the
    # orderings that can interfere); the thorough tier frees every pair and, in one instance, all eleven flags at once
    order = [flag(f) for f in ("AngularVelocity", "ParentID", "TreeSpecies", "ScratchPad", "Text", "MediaURL", "PSBlock", "Sound",
                               "NameValue", "TextureAnim", "PSBlockNew")]
    assert sorted(order) == sorted(bits)
    insts = [((), "quick", True)] + [((b,), "quick", False) for b in order] + [((a, b), "quick", False) for a, b in zip(order, order[1:])]
    insts += [((a, b), "thorough", True) for a, b in itertools.combinations(order, 2)]
    insts.append((tuple(order), "thorough", False))      # all 2^11 combinations; the kind dispatch is covered by the pair instances
    av, pr = int(tmpls.PCode.AVATAR), int(tmpls.PCode.PRIMITIVE)
    for free, tier, kinds_free in insts:
        others = allmask & ~sum(free)
        nm = ("+".join(str(b) for b in free) if len(free) < 11 else "all") or "none"
        cs = {"flags": f"(flags & {others}) == 0 and 0 <= flags"}
        if not kinds_free:
            # the object-kind dispatch reads nothing from the payload; its three ways are covered by the instances with kinds free
            cs["pcode"] = f"pcode != {av} and pcode != {pr}"
        reg.add_fn(FnContract(
            key=f"hippolyzer.lib.base.objects:FastObjectUpdateCompressedDataDeserializer.read@flags{nm}" + ("" if kinds_free else "/otherkinds"),
            relpath=OREL, qualname="FastObjectUpdateCompressedDataDeserializer.read", prop=prop, tier=tier,
            params={"data": "Bytes"}, param_names=["data"], param_values={"cls": F}, returns=o,
            consts={"tmpls": tmpls, "se": se}, externals=ext,
            may_raise={"AnyException": "", "struct.error": "", "ValueError": "", "IndexError": ""},
            ensures=list(ens), loops={}, frame=None, case_split=cs, batch_post=(len(free) == 11), max_paths=(20000 if len(free) == 11 else 4000),
            doc=f"instance: section flags {nm} free, every other section flag clear; object kind "
                + ("free" if kinds_free else "neither avatar nor primitive")))

    def layout():
        return [(nm, [], z3.BoolVal(bool(ok)), []) for nm, ok in static_layout_facts()]
    reg.lemmas.append(Lemma("static_layout", prop, layout,
                            "finite facts read from the live objects: every struct constant of the fast reader has exactly the wire types of the "
                            "template fields it stands for; the template's optional sections and their flags are the ones the contracts name"))
