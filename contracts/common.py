"""Class declarations and contracts shared by several properties. Each FnContract carries the property under
which it is *verified* (prop=...); other properties use it as a callee contract only."""
import itertools
from collections import deque

from pyvc.contracts import ClassDecl, FnContract
from pyvc import native

REL = "hippolyzer/lib/proxy/circuit.py"
MOD = "hippolyzer.lib.proxy.circuit"

WF = [
    "self._maxlen >= 1",
    "self.injections.maxlen == self._maxlen",
    "len(self.injections) <= self._maxlen",
    "self._injection_base >= 0",
    "forall(lambda i, k: implies(0 <= i and i <= k and k < len(self.injections), "
    "self.injections[k] - self.injections[i] >= k - i))",
    "implies(len(self.injections) > 0, self.injections[len(self.injections) - 1] <= self._packet_id_base)",
    "implies(self._injection_base > 0, len(self.injections) == self._maxlen)",
]

POS = ("0 <= k and k <= len(t.injections) and implies(k > 0, t.injections[k - 1] < e) "
       "and implies(k < len(t.injections), e < t.injections[k])")


def mk_tracker(vals):
    """concrete InjectionTracker from model values"""
    from hippolyzer.lib.proxy.circuit import InjectionTracker
    inj = vals.get("self.injections") or {"list": [], "maxlen": None}
    ml = vals.get("self._maxlen")
    if not isinstance(ml, int) or ml < 1:
        ml = inj.get("maxlen") or max(1, len(inj["list"]))
    t = InjectionTracker(0, maxlen=ml)
    t.injections = deque(inj["list"], maxlen=inj.get("maxlen") or ml)
    dr = vals.get("self.dropped") or {"list": [], "maxlen": None}
    t.dropped = deque(dr["list"], maxlen=dr.get("maxlen") or ml)
    t._injection_base = vals.get("self._injection_base", 0) if isinstance(vals.get("self._injection_base", 0), int) else 0
    t._packet_id_base = vals.get("self._packet_id_base", 0) if isinstance(vals.get("self._packet_id_base", 0), int) else 0
    t._maxlen = ml
    return t


def runner_for(meth):
    def run(reg, c, vals):
        from hippolyzer.lib.proxy.circuit import InjectionTracker
        t = mk_tracker(vals)
        native.QWindow.size = len(t.injections) + 2
        args = {p: vals[p] for p in c.param_names if p in vals}
        res = native.check_call(reg, c, getattr(InjectionTracker, meth), t, args)
        res["input"] = {"injections": list(t.injections), "maxlen": t._maxlen, "injection_base": t._injection_base,
                        "packet_id_base": t._packet_id_base, "args": args}
        return res
    return run


def search_states(rng):
    """small tracker states reachable by histories, plus argument values around them"""
    for ml in (1, 2, 3):
        for n_ops in range(0, 7):
            for ops in itertools.product("sij", repeat=n_ops):
                vals = _play(ops, ml)
                top = vals["self._packet_id_base"]
                for a in range(0, top + 3):
                    v = dict(vals)
                    for p in ("orig_id", "effective_id", "packet_id"):
                        v[p] = a
                    yield v


def _play(ops, ml):
    from hippolyzer.lib.proxy.circuit import InjectionTracker
    t = InjectionTracker(0, maxlen=ml)
    nxt = 1
    for o in ops:
        if o == "s":
            t.track_seen(t.get_effective_id(nxt))
            nxt += 1
        elif o == "i":
            t.gen_injectable_id()
        else:
            t.track_seen(t.get_effective_id(max(1, nxt - 2)))
    return {"self.injections": {"list": list(t.injections), "maxlen": ml}, "self._maxlen": ml,
            "self._injection_base": t._injection_base, "self._packet_id_base": t._packet_id_base,
            "self.dropped": {"list": [], "maxlen": ml}}


def fn(name, **kw):
    c = FnContract(key=f"{MOD}:InjectionTracker.{name}", relpath=REL, qualname=f"InjectionTracker.{name}",
                   cls="InjectionTracker", prop="C04", **kw)
    c.native = {"run": runner_for(name), "search": search_states}
    return c


def reg_tracker(reg):
    reg.add_class(ClassDecl("InjectionTracker", fields={
        "injections": "IntDeque", "dropped": "IntDeque", "_injection_base": "Int", "_packet_id_base": "Int",
        "_maxlen": "Int"}, inv=WF))
    reg.predicates["pos"] = (["t", "e", "k"], POS)
    reg.predicates["injected"] = (["t", "e"], "exists(lambda i: 0 <= i and i < len(t.injections) and t.injections[i] == e)")

    reg.add_fn(fn("track_seen", params={"orig_id": "Int"}, param_names=["orig_id"], use_wf=False,
                  ensures=["self._packet_id_base == max(old(self._packet_id_base), orig_id)"],
                  frame=["_packet_id_base"]))

    reg.add_fn(fn("gen_injectable_id", returns="Int",
                  ensures=[
                      "result == old(self._packet_id_base) + 1",
                      "self._packet_id_base == result",
                      "self.injections[len(self.injections) - 1] == result",
                      "implies(old(len(self.injections)) < self._maxlen, "
                      "len(self.injections) == old(len(self.injections)) + 1 "
                      "and self._injection_base == old(self._injection_base) "
                      "and forall(lambda i: implies(0 <= i and i < old(len(self.injections)), "
                      "self.injections[i] == old(self.injections)[i])))",
                      "implies(old(len(self.injections)) == self._maxlen, "
                      "len(self.injections) == old(len(self.injections)) "
                      "and self._injection_base == old(self._injection_base) + 1 "
                      "and forall(lambda i: implies(0 <= i and i < len(self.injections) - 1, "
                      "self.injections[i] == old(self.injections)[i + 1])))",
                  ],
                  frame=["injections", "_injection_base", "_packet_id_base"]))

    reg.add_fn(fn("was_injected", params={"packet_id": "Int"}, param_names=["packet_id"], returns="Bool",
                  ensures=["iff(result, injected(self, packet_id))"], frame=[]))

    reg.add_fn(fn("was_dropped", params={"packet_id": "Int"}, param_names=["packet_id"], returns="Bool",
                  ensures=["iff(result, exists(lambda i: 0 <= i and i < len(self.dropped) and self.dropped[i] == packet_id))"],
                  frame=[]))

    reg.add_fn(fn("mark_dropped", params={"packet_id": "Int"}, param_names=["packet_id"],
                  ensures=["exists(lambda i: 0 <= i and i < len(self.dropped) and self.dropped[i] == packet_id)"],
                  frame=["dropped"]))

    reg.add_fn(fn("get_effective_id", params={"orig_id": "Int"}, param_names=["orig_id"], returns="Int",
                  ensures=["exists(lambda k: pos(self, result, k) and result == orig_id + self._injection_base + k)"],
                  frame=[],
                  loops={0: {"inv": [
                      "new_id == orig_id + self._injection_base + _i",
                      "implies(_i > 0, self.injections[_i - 1] < new_id)"]}}))

    reg.add_fn(fn("get_original_id", params={"effective_id": "Int"}, param_names=["effective_id"], returns="Int",
                  raises={"ValueError": "injected(self, effective_id)"},
                  ensures=["forall(lambda k: implies(pos(self, effective_id, k), "
                           "result == effective_id - k - self._injection_base))"],
                  frame=[],
                  loops={0: {"inv": [
                      "not injected(self, effective_id)",
                      "forall(lambda k: implies(pos(self, effective_id, k), "
                      "new_id == effective_id - max(0, k - (len(self.injections) - _i))))"]}}))



# ---------------------------------------------------------------------------------------------------------
# Message / UDPPacket / circuits (shared by C05, C06, C07, C19)
MSG_REL = "hippolyzer/lib/base/message/message.py"
CIRC_REL = "hippolyzer/lib/base/message/circuit.py"
TRANS_REL = "hippolyzer/lib/base/network/transport.py"


def live_consts(reg):
    from hippolyzer.lib.base.message.msgtypes import PacketFlags
    from pyvc.values import V
    import z3
    reg.consts.update({
        "PacketFlags.ACK": int(PacketFlags.ACK), "PacketFlags.RELIABLE": int(PacketFlags.RELIABLE),
        "PacketFlags.RESENT": int(PacketFlags.RESENT), "PacketFlags.ZEROCODED": int(PacketFlags.ZEROCODED),
        "Direction.OUT": V("dir", z3.BoolVal(True)), "Direction.IN": V("dir", z3.BoolVal(False)),
    })


def reg_message(reg):
    if "Message" in reg.classes:
        return
    live_consts(reg)
    reg.add_class(ClassDecl("Message", fields={
        "name": "Str", "send_flags": "Int", "packet_id": "Opt[Int]", "acks": "IntList", "finalized": "Bool",
        "queued": "Bool", "dropped": "Bool", "synthetic": "Bool", "direction": "Dir", "raw_body": "Opt[Bytes]",
        "deserializer": "Opaque:Any", "offset": "Int", "raw_extra": "Bytes", "meta": "Opaque:Any",
        "sender": "Opaque:Any", "_blocks": "Opaque:Any", "body_boundaries": "Opaque:Any"},
        props={"reliable": (MSG_REL, "Message.reliable"), "has_acks": (MSG_REL, "Message.has_acks"),
               "zerocoded": (MSG_REL, "Message.zerocoded"), "resent": (MSG_REL, "Message.resent"),
               "extra": (MSG_REL, "Message.extra")}))
    reg.add_class(ClassDecl("UDPPacket", fields={
        "src_addr": "Opaque:Addr", "dst_addr": "Opaque:Addr", "data": "Bytes", "direction": "Dir", "meta": "Opaque:Any"},
        props={"outgoing": (TRANS_REL, "UDPPacket.outgoing"), "incoming": (TRANS_REL, "UDPPacket.incoming"),
               "far_addr": (TRANS_REL, "UDPPacket.far_addr")}))
    # ownership typestate: the flag combinations reachable through take / send / drop
    reg.predicates["own_ok"] = (["m"], "implies(m.dropped, m.finalized) and implies(m.queued and m.finalized, m.dropped)")


def reg_circuits(reg):
    reg.add_class(ClassDecl("Circuit", fields={
        "packet_id_base": "Int", "unacked_reliable": "Opaque:Any", "is_alive": "Bool", "seen_reliable": "IntDeque",
        "transport": "Opaque:Any", "serializer": "Opaque:Any", "host": "Opaque:Addr", "near_host": "Opaque:Addr",
        "resend_every": "Float", "last_packet_at": "Opaque:Any"}))
    reg.add_class(ClassDecl("ProxiedCircuit", supers=["Circuit"], fields={
        "in_injections": "Obj:InjectionTracker", "out_injections": "Obj:InjectionTracker", "logging_hook": "Opaque:Any"},
        inline={"_get_injections": (REL, "ProxiedCircuit._get_injections")}))
