"""C08 bounded tier: spec trees generated from the combinator grammar x values x endianness x pod x trailing bytes."""
import enum
import gc
import random
import struct
import uuid


class Color(enum.IntEnum):
    RED = 0
    GREEN = 1
    BLUE = 5


class Perm(enum.IntFlag):
    A = 1
    B = 2
    C = 8
    # named masks made of several bits, as the library's own permission classes have them: a value holding only some of those bits
    # is not that mask
    AB = 3
    ALL = 11


def _f32(x):
    return struct.unpack("<f", struct.pack("<f", x))[0]


class Gen:
    """returns (spec, value_factory(rng), terminal) ; terminal = consumes the rest of its window"""

    def __init__(self, rng):
        self.rng = rng

    def prim(self):
        import hippolyzer.lib.base.serialization as se
        rng = self.rng
        name = rng.choice(["U8", "S8", "U16", "S16", "U32", "S32", "U64", "S64", "F32", "F64"])
        p = getattr(se, name)
        if name == "F32":
            return p, lambda r: r.choice([0.0, -0.0, 1.5, _f32(r.uniform(-1e6, 1e6))]), False
        if name == "F64":
            return p, lambda r: r.choice([0.0, -0.0, r.uniform(-1e12, 1e12)]), False
        return p, lambda r, p=p: r.choice([p.min_val, p.max_val, 0, r.randint(p.min_val, p.max_val)]), False

    def uint(self):
        import hippolyzer.lib.base.serialization as se
        return getattr(se, self.rng.choice(["U8", "U16", "U32"]))

    def leaf(self, allow_terminal):
        import hippolyzer.lib.base.serialization as se
        rng = self.rng
        k = rng.choice(["prim", "prim", "fixed", "bytearray", "str", "strfixed", "cstr", "uuid", "enum", "flag", "bitfield", "fixedpoint", "quant"]
                       + (["greedy"] if allow_terminal else []))
        if k == "prim":
            return self.prim()
        if k == "fixed":
            n = rng.choice([0, 1, 4, 16])
            return se.BytesFixed(n), lambda r, n=n: bytes(r.getrandbits(8) for _ in range(n)), False
        if k == "bytearray":
            ls = self.uint()
            return se.ByteArray(ls), lambda r: bytes(r.getrandbits(8) for _ in range(r.choice([0, 1, 7, 255]))), False
        if k == "str":
            ls = self.uint()
            nt = rng.choice([True, False])
            return se.Str(ls, null_term=nt), lambda r: r.choice(["", "abc", "héllo", "x" * 40]), False
        if k == "strfixed":
            n = rng.choice([4, 16])
            # (NUL pads the field at the end; a NUL inside the text is a character like any other, as is a non-ASCII one)
            return se.StrFixed(n), lambda r, n=n: r.choice(["", "ab", "z" * (n - 1), "a\x00b"[:max(n - 1, 1)], "\x00x"[:n], "z" * n, "é"[:n // 2]]), False
        if k == "cstr":
            return se.CStr(), lambda r: r.choice(["", "abc", "héllo"]), False
        if k == "uuid":
            return se.UUID, lambda r: uuid.UUID(int=r.getrandbits(128)), False
        if k == "enum":
            return se.IntEnum(Color, se.U8), lambda r: r.choice([Color.RED, Color.BLUE, 3, 255]), False
        if k == "flag":
            return se.IntFlag(Perm, se.U16), lambda r: r.choice([Perm.A | Perm.C, Perm(0), 4, 65535, 11]), False
        if k == "bitfield":
            return (se.BitField(se.U16, {"a": 4, "b": 4, "c": 8}),
                    lambda r: {"a": r.randrange(16), "b": r.randrange(16), "c": r.randrange(256)}, False)
        if k == "fixedpoint":
            return se.FixedPoint(se.U16, 8, 8), lambda r: r.randrange(0, 65536) / 256.0, False
        if k == "quant":
            return se.QuantizedFloat(se.U16, -64.0, 64.0), lambda r: se.QuantizedFloat(se.U16, -64.0, 64.0).decode(r.randrange(65536), None), False
        return se.BytesGreedy(), lambda r: bytes(r.getrandbits(8) for _ in range(r.choice([0, 3, 20]))), True

    def tree(self, depth, allow_terminal=True):
        import hippolyzer.lib.base.serialization as se
        rng = self.rng
        if depth == 0 or rng.random() < 0.25:
            return self.leaf(allow_terminal)
        k = rng.choice(["tuple", "template", "coll_prefixed", "coll_fixed", "optional", "typed_array", "typed_fixed", "enum_switch",
                        "flag_switch", "optional_flagged"]
                       + (["coll_greedy", "ifpresent", "typed_greedy"] if allow_terminal else []))
        if k == "tuple":
            n = rng.choice([1, 2, 3])
            kids = [self.tree(depth - 1, allow_terminal and i == n - 1) for i in range(n)]
            return (se.Tuple(*[s for s, _, _ in kids]), lambda r, kids=kids: [vf(r) for _, vf, _ in kids], any(t for _, _, t in kids))
        if k == "template":
            n = rng.choice([1, 2, 3])
            kids = [self.tree(depth - 1, allow_terminal and i == n - 1) for i in range(n)]
            names = [f"f{i}" for i in range(n)]
            return (se.Template({nm: s for nm, (s, _, _) in zip(names, kids)}),
                    lambda r, kids=kids, names=names: {nm: vf(r) for nm, (_, vf, _) in zip(names, kids)}, any(t for _, _, t in kids))
        if k in ("coll_prefixed", "coll_fixed", "coll_greedy"):
            s, vf, t = self.tree(depth - 1, False)
            if k == "coll_prefixed":
                return se.Collection(se.U8, s), lambda r, vf=vf: [vf(r) for _ in range(r.choice([0, 1, 3]))], False
            if k == "coll_fixed":
                n = rng.choice([1, 2])
                return se.Collection(n, s), lambda r, vf=vf, n=n: [vf(r) for _ in range(n)], False
            return se.Collection(None, s), lambda r, vf=vf: [vf(r) for _ in range(r.choice([0, 2]))], True
        if k == "optional":
            s, vf, t = self.tree(depth - 1, allow_terminal)
            return se.OptionalPrefixed(s), lambda r, vf=vf: (None if r.random() < 0.3 else vf(r)), t
        if k == "ifpresent":
            s, vf, t = self.tree(depth - 1, True)
            # IfPresent reads its child iff bytes remain: a child value with an EMPTY encoding (e.g. [] of a greedy collection) is
            # indistinguishable from "absent" on the wire and so is not in the domain; None stands for it (thorough-tier false alarm)
            def vf_present(r, vf=vf, s=s):
                v = vf(r)
                try:
                    w = se.BufferWriter("<")
                    w.write(s, v)
                    if not len(w.copy_buffer()):
                        return None
                except Exception:  # noqa
                    pass
                return v
            return se.IfPresent(s), vf_present, True
        if k in ("typed_array", "typed_fixed", "typed_greedy"):
            s, vf, t = self.tree(depth - 1, True)
            if k == "typed_array":
                return se.TypedByteArray(se.U16, s), vf, False
            if k == "typed_greedy":
                return se.TypedBytesGreedy(s), vf, True
            # fixed window: only for children of known size
            size = None
            try:
                size = s.calc_size()
            except Exception:  # noqa
                size = None
            if size is None:
                return se.TypedByteArray(se.U8, s), vf, False
            return se.TypedBytesFixed(size, s), vf, False
        if k == "flag_switch":
            # one payload per set flag, on the wire in the order of the choice table whatever the order of the value dict
            members = [Perm.A, Perm.B, Perm.C]
            kids = [self.tree(depth - 1, False) for _ in members]
            spec = se.FlagSwitch(se.IntFlag(Perm, se.U8), {m: kd[0] for m, kd in zip(members, kids)})

            def vf_flags(r, kids=kids, members=members):
                chosen = [i for i in range(len(members)) if r.random() < 0.6]
                r.shuffle(chosen)
                return {members[i]: kids[i][1](r) for i in chosen}
            return spec, vf_flags, False
        if k == "optional_flagged":
            s_, vf_, t_ = self.tree(depth - 1, allow_terminal)
            fl = se.IntFlag(Perm, se.U8)
            spec = se.Template({"flags": fl, "x": se.OptionalFlagged("flags", fl, Perm.B, s_)})

            def vf_of(r, vf_=vf_):
                if r.random() < 0.5:
                    return {"flags": r.choice([Perm.B, Perm.A | Perm.B, Perm.B | Perm.C]), "x": vf_(r)}
                return {"flags": r.choice([Perm(0), Perm.A, Perm.A | Perm.C]), "x": None}
            return spec, vf_of, t_
        if k == "enum_switch":
            a = self.tree(depth - 1, allow_terminal)
            b = self.tree(depth - 1, allow_terminal)
            spec = se.EnumSwitch(se.IntEnum(Color, se.U8), {Color.RED: a[0], Color.BLUE: b[0]})
            return spec, (lambda r, a=a, b=b: (Color.RED, a[1](r)) if r.random() < 0.5 else (Color.BLUE, b[1](r))), (a[2] or b[2])
        raise AssertionError(k)


class _Unwritable:
    """stands where a leaf was: no primitive accepts it, so the write is rejected when it gets there (after what precedes it was written)"""


def _poisoned(v):
    """v with its LAST leaf replaced by something no spec can write; None when v has no inner structure to speak of"""
    if isinstance(v, dict) and v:
        k = list(v)[-1]
        return {**v, k: _poisoned(v[k]) if isinstance(v[k], (dict, list, tuple)) and v[k] else _Unwritable()}
    if isinstance(v, (list, tuple)) and v:
        last = _poisoned(v[-1]) if isinstance(v[-1], (dict, list, tuple)) and v[-1] else _Unwritable()
        return type(v)(list(v[:-1]) + [last]) if type(v) in (list, tuple) else None
    return None


def bounded_spec_trees(reg, tier, seed):
    import hippolyzer.lib.base.serialization as se
    rng = random.Random(seed)
    evals, failures, seen, samples = 0, [], set(), []

    def fail(key, what, inp):
        if sum(1 for f in failures if f["key"] == key) < 2:
            failures.append({"key": key, "clause": what, "input": inp, "observed": what})
    n_trees = 300 if tier == "quick" else 4000
    g = Gen(rng)
    for ti in range(n_trees):
        try:
            spec, vf, terminal = g.tree(rng.choice([0, 1, 2, 3, 4]))
        except Exception as e:  # noqa
            continue
        desc = repr(spec)[:160]
        try:
            size = spec.calc_size()
        except Exception as e:  # noqa
            fail("combinators/calc_size", f"calc_size raised {type(e).__name__}: {e}", {"spec": desc})
            size = None
        for vi in range(3):
            try:
                v = vf(rng)
            except Exception:  # noqa
                continue
            for endian in ("<", ">"):
                for pod in (False, True):
                    evals += 1
                    rest = b"" if terminal else bytes(rng.getrandbits(8) for _ in range(rng.choice([0, 1, 5])))
                    inp = {"spec": desc, "value": repr(v)[:120], "endian": endian, "pod": pod, "rest": rest.hex()}
                    try:
                        w = se.BufferWriter(endian)
                        w.write(spec, v)
                        enc = w.copy_buffer()
                    except Exception as e:  # noqa
                        # generator and domain disagree: not a finding about the code
                        continue
                    seen.add((desc, enc[:24], endian, pod))
                    # a spec object is long-lived and shared (module-level templates): a write that was rejected part-way leaves
                    # nothing behind in it - the next value written through the same object encodes as it did before
                    bad = _poisoned(v)
                    if bad is not None and not pod:
                        try:
                            se.BufferWriter(endian).write(spec, bad)
                        except Exception:  # noqa
                            try:
                                w3 = se.BufferWriter(endian)
                                w3.write(spec, v)
                                if w3.copy_buffer() != enc:
                                    fail("combinators/state", f"after a rejected write through the same spec object the value encodes as {w3.copy_buffer().hex()[:40]}, "
                                         f"before as {enc.hex()[:40]}", inp)
                            except Exception as e:  # noqa
                                fail("combinators/state", f"after a rejected write through the same spec object the value can no longer be written: "
                                     f"{type(e).__name__}: {e}", inp)
                    if len(samples) < 3:
                        samples.append(dict(inp, encoding=enc.hex()[:60]))
                    if size is not None and len(enc) != size:
                        fail("combinators/size", f"calc_size says {size}, encoding has {len(enc)} bytes", inp)
                    try:
                        r = se.BufferReader(endian, enc + rest, pod=pod)
                        v2 = r.read(spec)
                        left = len(r)
                    except Exception as e:  # noqa
                        fail("combinators/read", f"reading back its own encoding raised {type(e).__name__}: {e}", inp)
                        continue
                    if left != len(rest):
                        fail("combinators/framing", f"read consumed {len(enc) + len(rest) - left} bytes, the encoding has {len(enc)}", inp)
                        continue
                    try:
                        w2 = se.BufferWriter(endian)
                        w2.write(spec, v2)
                        if w2.copy_buffer() != enc:
                            fail("combinators/roundtrip", "value read back re-encodes to different bytes", inp)
                    except Exception as e:  # noqa
                        fail("combinators/roundtrip", f"value read back cannot be written again: {type(e).__name__}: {e}", inp)
                    if not pod and isinstance(v, (int, bytes, str)) and not isinstance(v, enum.Enum) and type(v2) in (int, bytes, str) and v2 != v:
                        fail("combinators/roundtrip", f"read(write(v)) = {v2!r} != v", inp)
    # range / length rejection: never a truncated write
    for spec, bad in ((se.U8, 256), (se.U8, -1), (se.S16, 40000), (se.ByteArray(se.U8), b"x" * 256), (se.BytesFixed(4), b"abc"),
                      (se.Collection(se.U8, se.U8), list(range(256)) + [1]), (se.Collection(2, se.U8), [1]), (se.StrFixed(4), "abcdef"),
                      (se.BitField(se.U16, {"a": 4, "b": 4, "c": 8}), {"a": 0, "b": 0x1F, "c": 0}),
                      (se.BitField(se.U16, {"a": 4, "b": 4, "c": 8}), {"a": 16, "b": 0, "c": 0})):
        evals += 1
        seen.add(("reject", repr(spec)[:40], repr(bad)[:20]))
        w = se.BufferWriter("<")
        try:
            w.write(spec, bad)
            fail("combinators/reject", f"{repr(spec)[:60]}: out-of-limit value {bad!r:.40} was written ({w.copy_buffer().hex()[:20]}) instead of rejected",
                 {"spec": repr(spec)[:80], "value": repr(bad)[:60]})
        except Exception:  # noqa
            pass
    # lazy typed bytes keep the reader's byte order
    for endian in ("<", ">"):
        spec = se.TypedByteArray(se.U8, se.Tuple(se.U16, se.U32), lazy=True)
        w = se.BufferWriter(endian)
        w.write(spec, [0x1234, 0x01020304])
        r = se.BufferReader(endian, w.copy_buffer(), pod=False)
        v2 = r.read(spec)
        evals += 1
        seen.add(("lazy", endian))
        if list(v2) != [0x1234, 0x01020304]:
            fail("combinators/roundtrip", f"lazy typed bytes read back {list(v2)!r} in byte order {endian!r}", {"endian": endian})
    # calc_size never fails: every spec object alive in the loaded templates (complete enumeration)
    import hippolyzer.lib.base.templates  # noqa
    import hippolyzer.lib.base.llanim  # noqa
    import hippolyzer.lib.base.mesh  # noqa
    n_live = 0
    for o in gc.get_objects():
        try:
            if isinstance(o, se.SerializableBase):
                n_live += 1
                try:
                    sz = o.calc_size()
                    if sz is not None and not isinstance(sz, int):
                        fail("combinators/calc_size", f"calc_size of {o!r:.80} returned {sz!r}", {"spec": repr(o)[:100]})
                except Exception as e:  # noqa
                    fail("combinators/calc_size", f"calc_size of a live spec raised {type(e).__name__}: {e}", {"spec": repr(o)[:100]})
        except ReferenceError:
            pass
    evals += n_live
    return {"name": "combinator-spec-trees", "evaluations": evals, "distinct_nontrivial": len(seen),
            "rule": f"{n_trees} spec trees from the grammar (primitives, byte/str variants, uuid, tuples, templates, collections prefixed/fixed/greedy, "
                    "optional, if-present, typed bytes array/fixed/greedy, enum switch, enum/flag adapters, bitfield, fixed point, quantised) to depth 4 x 3 "
                    f"values x byte orders x pod x trailing bytes; limit rejection table; lazy typed bytes; calc_size over all {n_live} live spec objects. "
                    "distinct = distinct (spec, encoding prefix, byte order, pod)", "bounded": True, "bounds": {"depth": 4, "trees": n_trees},
            "samples": samples, "failures": failures}
