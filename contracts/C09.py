"""C09 - every registered subfield (pretty) serializer is lossless against the wire."""
import z3

from pyvc.contracts import ClassDecl, FnContract, SpecFn
from pyvc.values import opaque_sort
from contracts import c09_native

PID = "C09"
MREL = "hippolyzer/lib/base/message/message.py"

META = {
    "level": "other",
    "explanation": (
        "P (proved on the real body): Block.__setitem__ - after a raw value is assigned to a variable the block's pretty-value cache "
        "no longer holds an entry for it (cache invalidation when the raw value changes), and the raw store happens exactly once; the "
        "quantised-float members of the TE / object-update templates are covered by C10's proofs. Block.deserialize_var / serialize_var "
        "(the cache in front of the registered serializers): a value comes from the cache or from exactly one run of the registered "
        "serializer on the variable's raw value in object mode, and is then cached under that name; callers get a private deep copy unless "
        "they opt out; serialize_var serializes once, stores the result as the raw value and caches the pretty value. The registry itself - ~200 "
        "(message, block, variable) serializers built from enum classes, template dictionaries and reflection over dataclasses - is "
        "outside the verifier's subset (comprehensions over enum members with symbolic filters, dict-driven dispatch), so the lossless "
        "claims are decided in the bounded tier: enum/flag serializers over the whole wire range (exhaustive for 8/16-bit wire types, "
        "structured and seeded for 32/64-bit, object and plain-data form, literal_eval(repr(pod))), template-based serializers for every "
        "context value selecting a sub-template over accepted payloads (fuzzed at the template's size, hand-built TextureEntry payloads "
        "with per-face exceptions up to face 59), date adapters under three time zones. No contract within reach proves the registry "
        "for all payloads; this is stated as bounded."),
    "trusted_base": [
        "dict-like containers of Block (vars, _ser_cache): assumed by-key view contracts for __contains__/pop",
        "enum.IntEnum / enum.IntFlag semantics (CPython 3.12), datetime, dataclass reflection: exercised, not modelled",
        "coverage gaps are listed in the evidence (variables absent from the live template; serializers for which no generated payload "
        "was accepted)",
    ],
}

S = opaque_sort("DictState")
KEY = opaque_sort("Any")
DHAS = z3.Function("dict_has", S, z3.StringSort(), z3.BoolSort())


def register(reg):
    reg.add_spec(SpecFn("dict_has", DHAS, ["opaque", "str"], "bool"))
    reg.add_class(ClassDecl("DictLike", fields={"_s": "Opaque:DictState"}))
    reg.add_class(ClassDecl("Block", fields={"vars": "Obj:DictLike", "_ser_cache": "Obj:DictLike", "name": "Str", "message_name": "Opaque:Any"}))
    d = dict(relpath=MREL, prop=PID, cls="DictLike", verify=False)
    reg.add_fn(FnContract(key="builtins:dict.__contains__", qualname="DictLike.__contains__", params={"key": "Str"}, param_names=["key"],
                          returns="Bool", ensures=["result == dict_has(self._s, key)"], frame=[], doc="dict membership", **d))
    reg.add_fn(FnContract(key="builtins:dict.pop", qualname="DictLike.pop", params={"key": "Str"}, param_names=["key"], returns="Opaque:Any",
                          raises={"KeyError": "not dict_has(self._s, key)"}, raise_preserves_state=True,
                          ensures=["not dict_has(self._s, key)"], frame=["_s"], doc="dict.pop removes the key", **d))
    reg.add_fn(FnContract(
        key="hippolyzer.lib.base.message.message:Block.__setitem__", relpath=MREL, qualname="Block.__setitem__", cls="Block", prop=PID,
        params={"key": "Str", "value": "Opaque:Any"}, param_names=["key", "value"],
        externals={"self.serialize_var": {"record_as": "serialize_var", "doc": "pretty value path: re-enters __setitem__ with the raw bytes, then caches the pretty value"}},
        ensures=["implies(ncalls('serialize_var') == 0, not dict_has(self._ser_cache._s, key) and ncalls('store:self.vars') == 1)",
                 "ncalls('serialize_var') <= 1"],
        frame=["self._ser_cache._s"]))
    from contracts import c09b_contracts
    c09b_contracts.register_p2(reg, PID)


BOUNDED = [c09_native.bounded_subfields]
