"""C20 - inventory, asset and transfer codecs round-trip"""
from contracts import c20_native, c20_contracts

PID = "C20"
META = {
    "level": "other",
    "explanation": (
        "P (proved on the real body of Xfer.__init__): the chunks cut from a payload are consecutive slices whose concatenation is the "
        "length-prefixed payload (ghosts _full/_flat), every chunk but the last has the full chunk size, chunk numbering is dense from 0. "
        "B (bounded, NOT proved): inventory models in {line format, legacy LLSD, AIS LLSD} at node and model level with every enum "
        "member and optional-field combination; animations (both layout versions), mesh assets (LOD subsets, skin, physics, weights); "
        "Xfer and Transfer reassembly for payload sizes around every chunk boundary (1-5 chunks) x all arrival sequences with "
        "duplicates to a stated extra depth, through the real managers and the LLUDP codec. Three defects fixed, one recorded."),
    "trusted_base": [
        "XferManager._handle_send_xfer_packet / reassemble_chunks / TransferManager: bounded tier only",
        "schema-driven (de)serialisers, llanim, mesh: bounded tier only (reflection over dataclass fields is out of the VC generator's reach)",
        "TemplateDataPacker.pack(len, MVT_S32) assumed to yield 4 bytes (checked natively in the bounded tier)",
    ],
}


def register(reg):
    c20_contracts.register_p(reg, PID)


BOUNDED = [c20_native.bounded_inventory, c20_native.bounded_animations, c20_native.bounded_meshes, c20_native.bounded_transfers]
