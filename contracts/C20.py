"""C20 - inventory, asset and transfer codecs round-trip"""
from contracts import c20_native

PID = "C20"
META = {"level": "other", "explanation": "<filled in later by the framework owner>", "trusted_base": []}


def register(reg):
    pass


BOUNDED = [c20_native.bounded_inventory, c20_native.bounded_animations, c20_native.bounded_meshes, c20_native.bounded_transfers]
