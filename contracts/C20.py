"""C20 - inventory, asset and transfer codecs round-trip"""
from contracts import c20_native, c20_contracts, c20b_contracts

PID = "C20"
META = {
    "level": "other",
    "explanation": (
        "P (proved on the real body of Xfer.__init__): the chunks cut from a payload are consecutive slices whose concatenation is the "
        "length-prefixed payload (ghosts _full/_flat), every chunk but the last has the full chunk size, chunk numbering is dense from 0; "
        "XferManager._handle_send_xfer_packet and TransferManager._handle_transfer_packet - the arriving packet is filed under its own "
        "number (packet 0 minus the 4-byte size hint), only the end marker sets the expected count (its number + 1), the transfer is "
        "marked done iff it was not done and the number of stored chunks equals the expected count, without turbo exactly that packet is "
        "acknowledged. Mesh vertex weights (the one hand-written framing of the mesh codec), on the real BufferWriter/BufferReader "
        "bodies: VertexWeights.serialize writes 3 bytes per record plus a closing 0xFF exactly when there are fewer than four records "
        "(more than four is rejected); VertexWeights.deserialize returns n <= 4 records and consumes 3n bytes plus the closing byte "
        "iff n < 4 - the same count (lemma). "
        "B (bounded, NOT proved): inventory models in {line format, legacy LLSD, AIS LLSD} at node and model level with every enum "
        "member and optional-field combination; animations (both layout versions), mesh assets (LOD subsets, skin, physics, weights); "
        "Xfer and Transfer reassembly for payload sizes around every chunk boundary (1-5 chunks) x all arrival sequences with "
        "duplicates to a stated extra depth, through the real managers and the LLUDP codec. Three defects fixed, one recorded."),
    "trusted_base": [
        "reassemble_chunks (sorted concatenation) and the whole-history completion clause (all chunks up to the end-marked one): bounded tier only; the dict of chunks is an unmodelled container (len() = number of distinct keys is assumed, not proved)",
        "schema-driven (de)serialisers, llanim, mesh: bounded tier only (reflection over dataclass fields is out of the VC generator's reach)",
        "TemplateDataPacker.pack(len, MVT_S32) assumed to yield 4 bytes (checked natively in the bounded tier)",
    ],
}


def register(reg):
    c20_contracts.register_p(reg, PID)
    c20b_contracts.register_p2(reg, PID)
    from contracts import c20c_contracts
    c20c_contracts.register_p3(reg, PID)


BOUNDED = [c20_native.bounded_inventory, c20_native.bounded_animations, c20_native.bounded_meshes, c20_native.bounded_transfers]
