"""C11 - Human-readable message text round-trips to the same datagram; safe-mode parsing never evaluates."""
from contracts import c11_native, c11_contracts

PID = "C11"
META = {
    "level": "other",
    "explanation": (
        "P (proved on the real body of HumanMessageSerializer.from_human_string, every loop cut by an invariant, regex / pop / "
        "literal_eval / serializers as declared externals that may return anything): when safe is true subfield_eval (the only "
        "eval() site) is never called, on any text - the safe-mode clause as a ghost call-log obligation. "
        "B (bounded, NOT proved): text round trip text -> from_human_string(safe=True) -> datagram body for all 481 templates x "
        "block counts x {plain, beautified} x 5 replacement tables x hostile payload catalogue (multi-line, quotes, NUL, non-UTF8, "
        "look-alike syntax), every registered subfield serializer rendered in =| form; safe-mode text fuzz with side-effect / audit-hook "
        "detectors. Two genuine round-trip defects are recorded as known findings (empty Variable block, State-before-PCode packer)."),
    "trusted_base": [
        "ast.literal_eval evaluates literals only (CPython)",
        "re / str methods are arbitrary-result externals in the proof",
        "round-trip clause: bounded tier only (formatter, pretty printer and literal parser are out of the VC generator's reach)",
    ],
}


def register(reg):
    c11_contracts.register_p(reg, PID)


BOUNDED = [c11_native.bounded_text_roundtrip, c11_native.bounded_safe_mode]
