"""C11 - Human-readable message text round-trips to the same datagram; safe-mode parsing never evaluates."""
from contracts import c11_native

PID = "C11"
META = {"level": "other", "explanation": "<filled in later by the framework owner>", "trusted_base": []}


def register(reg):
    pass


BOUNDED = [c11_native.bounded_text_roundtrip, c11_native.bounded_safe_mode]
