"""C16 - capability URLs are attributed to the right cap, region and session."""
import z3

from pyvc.contracts import ClassDecl, FnContract, SpecFn, Lemma
from pyvc.engine import lemma_vcs
from pyvc.values import V, opaque_sort
from contracts import http_native

PID = "C16"
RREL = "hippolyzer/lib/proxy/region.py"
RMOD = "hippolyzer.lib.proxy.region"

META = {
    "level": "other",
    "explanation": (
        "P (proved on the real bodies, the caps multimap abstracted by its by-name view first_type/first_url/has): "
        "ProxiedRegion.register_proxy_cap returns the URL already registered when the name's newest entry is proxy-only and "
        "registers nothing, otherwise registers exactly one new proxy-only entry and returns its URL - hence (lemma) registering a "
        "proxy-only capability twice yields the same URL; ProxiedRegion.register_cap makes the new (type, url) the newest entry "
        "for the name and rebuilds the reverse index. ProxiedRegion.update_caps: a granted (name, url) pair enters the table iff the url is an http string, as a NORMAL cap under its own name, with the reverse index rebuilt right after; _recalc_caps drops the old index once and indexes every entry under its own URL with its own type and name. B (bounded): prepend-on-add multimap, reverse URL index, longest-prefix "
        "resolution, one-shot caps, attribution to region and session, seed request/response rewriting - operation sequences against a "
        "reference multimap through the real SessionManager and MITMProxyEventManager."),
    "trusted_base": [
        "CapsMultiDict (third-party multidict underneath): assumed by-name view contracts for __contains__/__getitem__/add, "
        "checked natively in the bounded tier",
        "_recalc_caps / resolve_cap loops over dict views: bounded tier only",
        "uuid4 URLs are fresh",
    ],
}

S = opaque_sort("MDState")
CT = opaque_sort("CapType")
HAS = z3.Function("md_has", S, z3.StringSort(), z3.BoolSort())
TYP = z3.Function("md_type", S, z3.StringSort(), CT)
URL = z3.Function("md_url", S, z3.StringSort(), z3.StringSort())


def register(reg):
    members = ["NORMAL", "TEMPORARY", "WRAPPER", "PROXY_ONLY"]
    consts = {m: z3.Const("CapType_" + m, CT) for m in members}
    reg.axiom_groups["captype"] = [z3.Distinct(*consts.values())]
    for m, c in consts.items():
        reg.consts[f"CapType.{m}"] = V("opaque", c, "CapType")
    reg.add_spec(SpecFn("md_has", HAS, ["opaque", "str"], "bool"))
    reg.add_spec(SpecFn("md_type", TYP, ["opaque", "str"], "opaque"))
    reg.add_spec(SpecFn("md_url", URL, ["opaque", "str"], "str"))
    reg.specs["md_type"].ret_kind = "opaque"
    reg.add_class(ClassDecl("CapsMultiDict", fields={"_s": "Opaque:MDState"}))
    reg.add_class(ClassDecl("ProxiedRegion", fields={"caps": "Obj:CapsMultiDict", "_caps_url_lookup": "Opaque:Any"}))
    common = dict(relpath=RREL, prop=PID, spec_modules=["captype"])
    reg.add_fn(FnContract(key=f"{RMOD}:CapsMultiDict.__contains__", qualname="CapsMultiDict.__contains__", cls="CapsMultiDict", verify=False,
                          params={"key": "Str"}, param_names=["key"], returns="Bool", ensures=["result == md_has(self._s, key)"], frame=[],
                          doc="multidict membership by name (bounded tier checks it natively)", **common))
    reg.add_fn(FnContract(key=f"{RMOD}:CapsMultiDict.__getitem__", qualname="CapsMultiDict.__getitem__", cls="CapsMultiDict", verify=False,
                          params={"key": "Str"}, param_names=["key"], returns="Tuple[Opaque:CapType,Str]",
                          raises={"KeyError": "not md_has(self._s, key)"}, raise_preserves_state=True,
                          ensures=["result[1] == md_url(self._s, key)"], frame=[],
                          doc="multidict lookup by name returns the first (newest) entry", **common))
    reg.fns[f"{RMOD}:CapsMultiDict.__getitem__"].ensures.append("captype_eq(result[0], md_type(self._s, key))")
    reg.predicates["captype_eq"] = (["a", "b"], "a == b")
    reg.add_fn(FnContract(key=f"{RMOD}:CapsMultiDict.add", qualname="CapsMultiDict.add", cls="CapsMultiDict", verify=False,
                          params={"key": "Str", "value": "Tuple[Opaque:CapType,Str]"}, param_names=["key", "value"],
                          ensures=["md_has(self._s, key)", "md_url(self._s, key) == value[1]", "captype_eq(md_type(self._s, key), value[0])"],
                          frame=["_s"], doc="prepend: the added value becomes the first entry for the name (bounded tier: lookup by name)", **common))
    reg.add_fn(FnContract(key=f"{RMOD}:ProxiedRegion.register_cap", qualname="ProxiedRegion.register_cap", cls="ProxiedRegion",
                          params={"name": "Str", "cap_url": "Str", "cap_type": "Opaque:CapType"}, param_names=["name", "cap_url", "cap_type"],
                          defaults={"cap_type": reg.consts["CapType.NORMAL"]},
                          externals={"self._recalc_caps": {"record_as": "recalc", "doc": "rebuild of the reverse URL index"}},
                          ensures=["md_has(self.caps._s, name)", "md_url(self.caps._s, name) == cap_url", "captype_eq(md_type(self.caps._s, name), cap_type)",
                                   "ncalls('recalc') == 1"],
                          frame=["self.caps._s"], record_as="register_cap", **common))
    reg.add_fn(FnContract(key=f"{RMOD}:ProxiedRegion.register_proxy_cap", qualname="ProxiedRegion.register_proxy_cap", cls="ProxiedRegion",
                          params={"name": "Str"}, param_names=["name"], returns="Str",
                          externals={"uuid.uuid4": {"returns": "Opaque:Any", "doc": "fresh uuid"}},
                          ensures=[
                              # already a proxy-only cap: same URL, nothing registered
                              "implies(old(md_has(self.caps._s, name)) and captype_eq(old(md_type(self.caps._s, name)), CapType.PROXY_ONLY), "
                              "result == old(md_url(self.caps._s, name)) and ncalls('register_cap') == 0)",
                              # otherwise exactly one new proxy-only entry, whose URL is returned
                              "implies(not (old(md_has(self.caps._s, name)) and captype_eq(old(md_type(self.caps._s, name)), CapType.PROXY_ONLY)), "
                              "ncalls('register_cap') == 1 and md_has(self.caps._s, name) and md_url(self.caps._s, name) == result "
                              "and captype_eq(md_type(self.caps._s, name), CapType.PROXY_ONLY))",
                          ],
                          frame=["self.caps._s"], **common))

    reg.add_fn(FnContract(key=f"{RMOD}:ProxiedRegion.resolve_cap", qualname="ProxiedRegion.resolve_cap", cls="ProxiedRegion",
                          params={"url": "Str", "consume": "Bool"}, param_names=["url", "consume"], returns="Opt[Tuple[Opaque:Any,Str,Opaque:Any]]",
                          externals={"sorted": {"returns": "Opaque:StrList", "ignore_args": True, "doc": "cap URLs, longest first"},
                                     "self._caps_url_lookup.keys": {"returns": "Opaque:StrList", "doc": "reverse index keys"},
                                     "self.caps.popall": {"returns": "Opaque:CapList", "record_as": "popall", "doc": "all entries of a name"},
                                     "*.remove": {"record_as": "remove", "may_raise": "ValueError", "doc": "list.remove"},
                                     "self.caps.extend": {"record_as": "extend", "doc": "put the remaining entries back"},
                                     "self._recalc_caps": {"record_as": "recalc", "doc": "rebuild of the reverse URL index"}},
                          may_raise={"ValueError": "", "KeyError": ""},
                          ensures=[
                              # the capability returned is one whose granted URL the request URL extends
                              "implies(not is_none(result), url.startswith(result[1]))",
                              # a one-shot capability is consumed: exactly the matched (type, granted URL) entry is removed, the rest put back
                              "implies(ncalls('popall') == 1, ncalls('remove') == 1 and ncalls('extend') == 1 and ncalls('recalc') == 1 and "
                              "called_with('remove', lambda arg0: arg0[1] == result[1]))",
                              "ncalls('popall') <= 1", "implies(not consume, ncalls('popall') == 0)"],
                          # completeness, from the statement ("a request URL that extends a capability URL ... resolves to that capability"):
                          # an iteration that does not return had a granted URL the request does not extend
                          loops={0: {"inv": ["True"], "iter_post": ["ncalls('popall') == 0", "not url.startswith(cap_url)"]}},
                          frame=[], **common))

    def twice():
        # code-free: two consecutive register_proxy_cap(name) calls return the same URL (from the contract above)
        s0, s1, s2 = (z3.Const(n, S) for n in ("s0", "s1", "s2"))
        name = z3.String("name")
        r1, r2 = z3.String("r1"), z3.String("r2")
        P = consts["PROXY_ONLY"]

        def post(sa, sb, r):
            had = z3.And(HAS(sa, name), TYP(sa, name) == P)
            return z3.And(z3.Implies(had, z3.And(r == URL(sa, name), sb == sa)),
                          z3.Implies(z3.Not(had), z3.And(HAS(sb, name), URL(sb, name) == r, TYP(sb, name) == P)))
        return [("claim", [post(s0, s1, r1), post(s1, s2, r2)], r1 == r2, ["captype"])]
    reg.lemmas.append(Lemma("proxy_cap_idempotent", PID, twice, "registering a proxy-only capability twice yields the same URL"))
    from contracts import c16b_contracts
    c16b_contracts.register_p2(reg, PID)
    # the request handler of the main process (contract shared with C15 / C17): attribution goes by the request URL
    from contracts import c17c_contracts
    c17c_contracts.register_p3(reg, PID, instances=(("@all", "quick", {}),), only_handle_request=True, only_clauses=["'resolve_cap'", "ncalls('resolve_cap'"])


BOUNDED = [http_native.bounded_caps]
