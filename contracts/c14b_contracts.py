"""More tier-P contracts for C14: the orphanage bookkeeping when an object leaves a region (RegionObjectsState.untrack_object,
_unparent_object) over an abstract view of the orphan table: orph(table, parent id, child id) <=> child id is listed under parent id."""
import z3

from pyvc.contracts import ClassDecl, FnContract, SpecFn
from pyvc.values import opaque_sort

OREL = "hippolyzer/lib/client/object_manager.py"
MOD = "hippolyzer.lib.client.object_manager"

OS = opaque_sort("OrphanState")
ORPH = z3.Function("orph", OS, z3.IntSort(), z3.IntSort(), z3.BoolSort())

ONLY = ("forall(lambda p, c: implies(not (p == {p} and c == {c}), "
        "orph(self._orphans, p, c) == old(orph(self._orphans, p, c))))")


LS = opaque_sort("Dict")
TRACKED = z3.Function("tracked", LS, z3.IntSort(), z3.BoolSort())


def register_p2(reg, prop):
    reg.add_spec(SpecFn("orph", ORPH, ["opaque", "int", "int"], "bool"))
    reg.add_spec(SpecFn("tracked", TRACKED, ["opaque", "int"], "bool"))
    # the object another object names as parent, as _unparent_object sees it (its child lists are edited through list methods)
    reg.add_class(ClassDecl("ParentObject", fields={"LocalID": "Int", "ChildIDs": "Opaque:IdList", "Children": "Opaque:ObjList"}))
    common = dict(relpath=OREL, prop=prop, cls="RegionObjectsState")

    # assumed (the table is a defaultdict of lists edited in place; the bounded tier compares it with a reference after every message)
    reg.add_fn(FnContract(
        key=f"{MOD}:RegionObjectsState._track_orphan", qualname="RegionObjectsState._track_orphan", verify=False,
        params={"local_id": "Int", "parent_id": "Int"}, param_names=["local_id", "parent_id"],
        ensures=["orph(self._orphans, parent_id, local_id)", ONLY.format(p="parent_id", c="local_id")],
        frame=["_orphans"], record_as="track_orphan",
        doc="files local_id under parent_id, every other entry untouched (assumed; bounded tier)", **common))
    reg.add_fn(FnContract(
        key=f"{MOD}:RegionObjectsState._untrack_orphan", qualname="RegionObjectsState._untrack_orphan", verify=False,
        params={"obj": "Obj:TrackedObject", "parent_id": "Int"}, param_names=["obj", "parent_id"], returns="Bool",
        ensures=["not orph(self._orphans, parent_id, obj.LocalID)", ONLY.format(p="parent_id", c="obj.LocalID")],
        frame=["_orphans"], record_as="untrack_orphan",
        doc="removes obj's id from parent_id's orphans, every other entry untouched (assumed; bounded tier)", **common))

    # an object whose parent link is broken is no orphan of that parent any more; nobody else's orphan entry changes
    reg.add_fn(FnContract(
        key=f"{MOD}:RegionObjectsState._unparent_object", qualname="RegionObjectsState._unparent_object",
        params={"obj": "Obj:TrackedObject", "old_parent_id": "Int"}, param_names=["obj", "old_parent_id"],
        externals={"self.localid_lookup.get": {"returns": "Opt[Obj:ParentObject]", "doc": "the tracked object with that local id, or None"},
                   "old_parent.ChildIDs.index": {"returns": "Int", "record_as": "index", "doc": "list.index"}},
        ensures=["implies(old_parent_id != 0, not orph(self._orphans, old_parent_id, obj.LocalID))",
                 ONLY.format(p="old_parent_id", c="obj.LocalID"),
                 # the child lists of the old parent are edited at one position, the same in both
                 "implies(ncalls('del:old_parent.ChildIDs') == 1, ncalls('del:old_parent.Children') == 1)",
                 "ncalls('del:old_parent.ChildIDs') <= 1"],
        frame=["_orphans", "obj.Parent", "*.ChildIDs", "*.Children"], record_as="unparent", **common))

    # an object leaves the region (killed or moved): its children wait in the orphanage under its local id, it is itself no
    # orphan of its parent any more, its pending requests are cancelled, and the local id no longer resolves
    reg.add_fn(FnContract(
        key=f"{MOD}:RegionObjectsState.untrack_object", qualname="RegionObjectsState.untrack_object",
        params={"obj": "Obj:TrackedObject"}, param_names=["obj"],
        # parent links form no cycle (quantifier of the statement)
        requires=["obj.ParentID != obj.LocalID"],
        externals={"self.localid_lookup.get": {"returns": "Opt[Obj:TrackedObject]",
                                               # the world is consistent on entry: an id in the child list is a tracked object naming obj as parent
                                               "post": "implies(not is_none(result), val(result).LocalID == arg0 and val(result).ParentID == obj.LocalID)",
                                               "doc": "the tracked object with that local id, or None"}},
        may_raise={"AssertionError": ""},
        loops={0: {"inv": ["True"]},
               1: {"inv": ["forall(lambda j: implies(0 <= j and j < _i, orph(self._orphans, obj.LocalID, old(obj.ChildIDs)[j])))",
                           "obj.LocalID == old(obj.LocalID) and obj.ParentID == old(obj.ParentID)"]}},
        static_loops=2,
        ensures=["forall(lambda j: implies(0 <= j and j < len(old(obj.ChildIDs)), orph(self._orphans, obj.LocalID, old(obj.ChildIDs)[j])))",
                 "implies(obj.ParentID != 0, not orph(self._orphans, obj.ParentID, obj.LocalID))",
                 "ncalls('cancel_futures') == 1 and called_with('cancel_futures', lambda local_id: local_id == obj.LocalID)",
                 "ncalls('del:self.localid_lookup') == 1"],
        frame=["_orphans", "*.Parent", "*.ChildIDs", "*.Children"], **common))

    # an object is linked to the parent it names: appended to (or put at the head of) both child lists of a tracked parent at the
    # same position; when the parent is not tracked the object waits in the orphanage under the parent's id and the id is
    # remembered as missing
    reg.add_fn(FnContract(
        key=f"{MOD}:RegionObjectsState._parent_object", qualname="RegionObjectsState._parent_object",
        params={"obj": "Obj:TrackedObject", "insert_at_head": "Bool"}, param_names=["obj", "insert_at_head"],
        defaults={"insert_at_head": False},
        externals={"self.localid_lookup.get": {"returns": "Opt[Obj:ParentObject]", "post": "is_none(result) == (not tracked(self.localid_lookup, arg0))",
                                               "doc": "the tracked object with that local id, or None"},
                   "parent.ChildIDs.insert": {"record_as": "ins_id", "doc": "list.insert"},
                   "parent.Children.insert": {"record_as": "ins_obj", "doc": "list.insert"},
                   "weakref.proxy": {"returns": "Opaque:Any", "record_as": "proxy", "doc": "weak reference to the parent"},
                   "self.missing_locals.add": {"record_as": "missing", "doc": "set.add"}},
        may_raise={"AssertionError": ""},
        # (clauses about the state are kept apart from clauses about the call log: callers can use only the former)
        ensures=["implies(obj.ParentID != 0 and not tracked(self.localid_lookup, obj.ParentID), "
                 "orph(self._orphans, obj.ParentID, obj.LocalID) and is_none(obj.Parent))",
                 "implies(obj.ParentID != 0 and not tracked(self.localid_lookup, obj.ParentID), "
                 "ncalls('ins_id') == 0 and called_with('missing', lambda arg0: arg0 == obj.ParentID))",
                 ONLY.format(p="obj.ParentID", c="obj.LocalID"),
                 "implies(obj.ParentID != 0 and tracked(self.localid_lookup, obj.ParentID), "
                 "orph(self._orphans, obj.ParentID, obj.LocalID) == old(orph(self._orphans, obj.ParentID, obj.LocalID)) and not is_none(obj.Parent))",
                 "implies(obj.ParentID != 0 and tracked(self.localid_lookup, obj.ParentID), "
                 "ncalls('ins_id') == 1 and ncalls('ins_obj') == 1 and "
                 "called_with('ins_id', lambda arg0, arg1: arg1 == obj.LocalID and called_with('ins_obj', lambda arg0_, arg1_: arg0_ == arg0 and arg1_ == obj)))",
                 "implies(obj.ParentID == 0, ncalls('ins_id') == 0 and ncalls('track_orphan') == 0)"],
        frame=["_orphans", "obj.Parent"], record_as="parent_object", **common))

    # an object enters the region: it is filed under its own local id, linked to its parent (or put in the orphanage), and every
    # orphan waiting for its local id is taken out of the orphanage and linked - each exactly once
    reg.add_fn(FnContract(
        key=f"{MOD}:RegionObjectsState.track_object", qualname="RegionObjectsState.track_object",
        params={"obj": "Obj:TrackedObject"}, param_names=["obj"],
        externals={"self.localid_lookup.get": {"returns": "Opt[Obj:TrackedObject]",
                                               "post": "implies(not is_none(result), val(result).LocalID == arg0)",
                                               "doc": "the tracked object with that local id, or None"},
                   "self._parent_object": {"record_as": "parent", "doc": "RegionObjectsState._parent_object (under contract itself)"},
                   "self.collect_orphans": {"returns": "IntList", "record_as": "collect", "doc": "takes the ids waiting for this parent out of the orphanage"},
                   "obj.to_dict": {"returns": "Opaque:Any", "doc": "debug representation"},
                   "obj_same_localid.to_dict": {"returns": "Opaque:Any", "doc": "debug representation"}},
        may_raise={"AssertionError": ""},
        loops={0: {"inv": ["ncalls('store:self.localid_lookup') == 1", "ncalls('collect') == 1"],
                   "iter_post": ["ncalls('parent') == 1", "called_with('parent', lambda arg0: arg0.LocalID == orphan_local)"]}},
        static_loops=1,
        ensures=["ncalls('store:self.localid_lookup') == 1 and stored_key('store:self.localid_lookup') == obj.LocalID",
                 "stored_value('store:self.localid_lookup') == obj",
                 "called_with('parent', lambda arg0: arg0 == obj)",
                 "ncalls('collect') == 1 and called_with('collect', lambda arg0: arg0 == obj.LocalID)",
                 "L0_left_early == 0"],
        frame=["missing_locals", "localid_lookup"], **common))

    # a parent change: the link to the old parent is broken first, then the object is linked to (or waits for) the parent it names now
    reg.add_fn(FnContract(
        key=f"{MOD}:RegionObjectsState.handle_object_reparented", qualname="RegionObjectsState.handle_object_reparented",
        params={"obj": "Obj:TrackedObject", "old_parent_id": "Int"}, param_names=["obj", "old_parent_id"],
        may_raise={"AssertionError": ""},
        ensures=["implies(old_parent_id != 0 and old_parent_id != obj.ParentID, not orph(self._orphans, old_parent_id, obj.LocalID))",
                 "implies(obj.ParentID != 0 and not tracked(self.localid_lookup, obj.ParentID), orph(self._orphans, obj.ParentID, obj.LocalID))",
                 "forall(lambda p, c: implies(c != obj.LocalID, orph(self._orphans, p, c) == old(orph(self._orphans, p, c))))",
                 "ncalls('unparent') == 1 and ncalls('parent_object') == 1"],
        frame=["_orphans", "obj.Parent", "*.ChildIDs", "*.Children"], **common))
