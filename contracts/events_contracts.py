"""Event.notify (shared by C07 and C19): snapshot iteration, synchronous handler failures are isolated."""
from pyvc.contracts import ClassDecl, FnContract

EREL = "hippolyzer/lib/base/events.py"


def register_p(reg, prop, also=()):
    reg.add_class(ClassDecl("Event", fields={"subscribers": "Opaque:HandlerList", "name": "Opaque:Any"}))
    c = FnContract(
        key="hippolyzer.lib.base.events:Event.notify", relpath=EREL, qualname="Event.notify", cls="Event", prop=prop,
        params={"args": "Opaque:Any"}, param_names=["args"],
        externals={
            "call:handler": {"returns": "Opaque:Any", "may_raise": "AnyException", "record_as": "invoke", "ghost_on_raise": {"handler_raised": 1},
                             "doc": "a subscriber: arbitrary code"},
            "call:predicate": {"returns": "Opaque:Any", "may_raise": "AnyException", "record_as": "predicate", "doc": "a subscriber's predicate: arbitrary code"},
            "self.unsubscribe": {"modifies": ["self.subscribers"], "may_raise": "ValueError", "record_as": "unsubscribe",
                                 "doc": "removes the handler from the live subscriber list"},
            "asyncio.iscoroutinefunction": {"returns": "Bool", "doc": "coroutine check"},
            "create_logged_task": {"record_as": "task", "doc": "schedules the async handler"},
        },
        may_raise={"AnyException": "", "ValueError": ""},
        loops={0: {"inv": ["True"],
                   "iter_post": [
                       # per subscriber: predicate at most once, handler at most once, and a handler scheduled or invoked
                       "ncalls('invoke') <= 1 and ncalls('predicate') <= 1 and ncalls('task') <= 1 and ncalls('unsubscribe') <= 2"]}},
        ensures=["L0_left_early == 0"],
        # whatever escapes notify never comes from a synchronous subscriber: its failure is logged and the next one runs
        ensures_on_raise=["count('handler_raised') == 0"], frame=["subscribers"])
    c.also = list(also)
    reg.add_fn(c)
