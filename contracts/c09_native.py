"""C09 bounded tier: every registered subfield serializer against the wire."""
import ast as _ast
import enum
import os
import random
import time


def _var_type(msg, block, var):
    from hippolyzer.lib.base.message.template_dict import DEFAULT_TEMPLATE_DICT
    t = DEFAULT_TEMPLATE_DICT.get_template_by_name(msg)
    if t is None:
        return None
    for b in t.blocks:
        if b.name == block:
            for v in b.variables:
                if v.name == var:
                    return v
    return None


INT_RANGES = {"MVT_U8": (0, 255), "MVT_S8": (-128, 127), "MVT_U16": (0, 65535), "MVT_S16": (-32768, 32767), "MVT_U32": (0, 2 ** 32 - 1),
              "MVT_S32": (-2 ** 31, 2 ** 31 - 1), "MVT_U64": (0, 2 ** 64 - 1), "MVT_S64": (-2 ** 63, 2 ** 63 - 1), "MVT_BOOL": (0, 255)}


def int_domain(tv, cls, rng, tier):
    lo, hi = INT_RANGES[tv.type.name]
    if hi - lo <= 65535:
        return range(lo, hi + 1), True
    vals = {lo, hi, 0, 1, -1 if lo < 0 else 1, lo + 1, hi - 1}
    bits = (hi + 1).bit_length() if lo == 0 else hi.bit_length() + 1
    for b in range(bits):
        for x in (1 << b, (1 << b) - 1, ~(1 << b)):
            vals.add(max(lo, min(hi, x)))
            if lo < 0:
                vals.add(max(lo, min(hi, -x)))
    members = [int(m) for m in cls] if cls is not None else []
    for m in members:
        vals.add(max(lo, min(hi, m)))
    acc = 0
    for m in members:
        acc |= m
        vals.add(max(lo, min(hi, acc)))
    for _ in range(200 if tier == "quick" else 5000):
        vals.add(rng.randint(lo, hi))
    return sorted(vals), False


def _ctx_block(msg, blockname, **vals):
    from hippolyzer.lib.base.message.message import Block
    b = Block(blockname)
    b.message_name = msg
    for k, v in vals.items():
        b.vars[k] = v
    return b


def _edit_in_place(v, depth=0):
    """change one numeric leaf of a mutable structure in place; True if something was changed"""
    import dataclasses as _dc
    if depth > 4:
        return False
    if isinstance(v, dict):
        for k in list(v):
            x = v[k]
            if isinstance(x, bool):
                continue
            if isinstance(x, float):
                v[k] = 0.5 if x != 0.5 else 0.25
                return True
            if isinstance(x, int) and type(x) is int:
                v[k] = 1 if x != 1 else 2
                return True
            if _edit_in_place(x, depth + 1):
                return True
        return False
    if isinstance(v, list):
        return any(_edit_in_place(x, depth + 1) for x in v if not isinstance(x, (int, float, str, bytes)))
    if _dc.is_dataclass(v) and not isinstance(v, type):
        for f in _dc.fields(v):
            x = getattr(v, f.name)
            if isinstance(x, bool):
                continue
            try:
                if isinstance(x, float):
                    setattr(v, f.name, 0.5 if x != 0.5 else 0.25)
                    return True
                if type(x) is int:
                    setattr(v, f.name, 1 if x != 1 else 2)
                    return True
            except Exception:  # noqa
                continue
            if _edit_in_place(x, depth + 1):
                return True
    return False


def bounded_subfields(reg, tier, seed):
    import hippolyzer.lib.base.templates  # noqa
    import hippolyzer.lib.base.serialization as se
    rng = random.Random(seed)
    evals, failures, seen, samples = 0, [], set(), []
    gaps = []

    def fail(key, what, inp):
        if sum(1 for f in failures if f["key"] == key) < 2:
            failures.append({"key": key, "clause": what, "input": inp, "observed": what})
    for (msg, block, var), ser in sorted(se.SUBFIELD_SERIALIZERS.items(), key=str):
        tv = _var_type(msg, block, var)
        name = f"{msg}.{block}.{var}"
        if tv is None:
            gaps.append(name + ": variable not in the live template")
            continue
        b = _ctx_block(msg, block)
        if isinstance(ser, (se.IntEnumSubfieldSerializer, se.IntFlagSubfieldSerializer)):
            ad = ser._adapter
            cls = getattr(ad, "enum_cls", None) or getattr(ad, "flag_cls", None)
            if tv.type.name not in INT_RANGES:
                gaps.append(name + f": enum/flag serializer on non-integer type {tv.type.name}")
                continue
            dom, exhaustive = int_domain(tv, cls, rng, tier)
            for v in dom:
                for pod in (False, True):
                    evals += 1
                    try:
                        d = ser.deserialize(b, v, pod=pod)
                        if d is se.UNSERIALIZABLE:
                            continue
                        e = ser.serialize(b, d)
                        if int(e) != v:
                            fail(f"subfield/int/{name}", f"{name}: raw {v} decodes to {d!r} (pod={pod}) and re-encodes to {int(e)}",
                                 {"field": name, "raw": v, "pod": pod, "wire_type": tv.type.name})
                        if pod:
                            lit = _ast.literal_eval(repr(d))
                            if lit != d:
                                fail(f"subfield/podrepr/{name}", f"{name}: pod form {d!r} does not evaluate back as a literal", {"field": name, "raw": v})
                    except Exception as ex:  # noqa
                        fail(f"subfield/int/{name}", f"{name}: raw {v} pod={pod} raised {type(ex).__name__}: {ex}", {"field": name, "raw": v, "pod": pod})
            seen.add((name, "int", exhaustive))
            if len(samples) < 2:
                samples.append({"field": name, "class": getattr(cls, "__name__", None), "values": len(dom), "exhaustive": exhaustive})
            continue
        # byte payload serializers
        ctxs = [dict()]
        if isinstance(ser, type) and issubclass(ser, se.EnumSwitchedSubfieldSerializer) and ser.ENUM_FIELD:
            ctxs = [{ser.ENUM_FIELD: k} for k in ser.TEMPLATES.keys()]
        elif isinstance(ser, type) and issubclass(ser, se.FlagSwitchedSubfieldSerializer):
            flags = list(ser.TEMPLATES.keys())
            ctxs = [{ser.FLAG_FIELD: 0}] + [{ser.FLAG_FIELD: int(f)} for f in flags] + [{ser.FLAG_FIELD: sum(int(f) for f in flags)}]
        elif name.endswith("ObjectData.State"):
            ctxs = [{"PCode": p} for p in (9, 47, 95, 111, 255, 143)]
        accepted_total = 0
        seq_left = {}
        nudges_left = [60 if tier == "quick" else 1200]
        for cv in ctxs:
            bb = _ctx_block(msg, block, **cv)
            tmpl = None
            for attr in ("TEMPLATE",):
                tmpl = getattr(ser, attr, None)
            sizes = set()
            try:
                if isinstance(ser, type) and issubclass(ser, se.EnumSwitchedSubfieldSerializer):
                    tm = ser.TEMPLATES[list(cv.values())[0]]
                    tm = tm.template if isinstance(tm, se.Dataclass) else tm
                    if tm is not se.UNSERIALIZABLE and tm.calc_size() is not None:
                        sizes.add(tm.calc_size())
                elif tmpl is not None and tmpl.calc_size() is not None:
                    sizes.add(tmpl.calc_size())
                elif isinstance(ser, type) and issubclass(ser, se.FlagSwitchedSubfieldSerializer):
                    sz = ser._build_template(list(cv.values())[0]).calc_size()
                    if sz is not None:
                        sizes.add(sz)
            except Exception:  # noqa
                pass
            if tv.type.name in INT_RANGES:
                lo, hi = INT_RANGES[tv.type.name]
                cands = list(range(lo, hi + 1)) if hi - lo <= 255 else [lo, hi, 0, 1] + [rng.randint(lo, hi) for _ in range(300)]
            else:
                lens = sorted(sizes) or [0, 1, 2, 4, 8, 12, 16, 17, 24, 32, 40, 48, 60, 64, 76, 86, 128]
                cands = []
                for _ in range(150 if tier == "quick" else 2000):
                    ln = rng.choice(lens)
                    style = rng.random()
                    if style < 0.4:
                        cands.append(bytes(rng.getrandbits(8) for _ in range(ln)))
                    elif style < 0.7:
                        cands.append(bytes(rng.choice((0, 0, 0, 1, 255)) for _ in range(ln)))
                    else:
                        cands.append(bytes(ln))
            if var == "NameValue":
                # name-value lists as simulators send them (text lines "name type class sendto value", the value may be empty)
                cands = list(cands) + [b"FirstName STRING RW SV Test\nLastName STRING RW SV User\x00", b"Title STRING RW SV \x00", b"Title STRING RW DS \x00",
                                       b"Title STRING RW DS \nLastName STRING RW DS Resident\x00", b"AttachItemID STRING RW SV 1f4ffb55-022e-49fb-8c63-6f159aed9b24\x00",
                                       b"A STRING RW SV x\nB STRING RW SV \nC STRING RW SV z\x00", b"\x00", b""]
            if var == "Bitmap":
                # a parcel bitmap is 64 x 64 bits
                cands = list(cands) + [bytes(512), bytes([0xAA]) * 512, bytes(range(256)) * 2, bytes(rng.getrandbits(8) for _ in range(512))]
            if var == "Throttles":
                import struct as st__
                cands = list(cands) + [st__.pack("<7f", 0.0, 0.0, 0.0, 0.0, 0.0, 0.0, 0.0), st__.pack("<7f", -0.0, 0.0, 1.0, 2.0, 3.0, 4.0, 5.0),
                                       st__.pack("<7f", 1.0, 2.0, 3.0, 4.5, 0.0, -1.0, 1e6)]
            if var == "TextureEntry":
                tes = te_payloads(rng, 120 if tier == "quick" else 2000)
                if "ImprovedTerse" in msg:
                    import struct as st_
                    tes = [st_.pack("<I", len(t_)) + t_ for t_ in tes]
                cands = list(cands) + tes
            for p in cands:
                evals += 1
                for pod in (False, True):
                    try:
                        d = ser.deserialize(bb, p, pod=pod)
                        d = getattr(d, "__wrapped__", d)    # lazily decoded sub-structures are forced: acceptance means it decodes completely
                        repr(d)
                    except Exception:  # noqa
                        continue          # payload not accepted: outside the property's quantifier
                    if d is se.UNSERIALIZABLE:
                        continue
                    accepted_total += 1
                    if pod and isinstance(p, (bytes, bytearray)) and seq_left.get(name, 4) > 0 and _finite(d):
                        # the two forms through one block object, in both orders: decoding the object form first must not change what
                        # the beautified text shows (the plain-data form, a literal that parses back), and rendering first must not
                        # change what deserialize_var hands out (the object form)
                        try:
                            ser.deserialize(bb, p, pod=False)
                            both_forms = True
                        except Exception:  # noqa
                            both_forms = False         # the object form does not accept this payload: nothing to compare
                    else:
                        both_forms = False
                    if both_forms:
                        seq_left[name] = seq_left.get(name, 4) - 1
                        evals += 1
                        try:
                            from hippolyzer.lib.base.message.message import Message as _SM
                            from hippolyzer.lib.base.message.message_formatting import HumanMessageSerializer as _HS
                            want_pod = ser.serialize(bb, d)
                            for order in ("object-first", "text-first"):
                                b2 = _ctx_block(msg, block, **cv)
                                b2.vars[var] = p
                                m_ = _SM(msg, b2)
                                fresh_obj = repr(getattr(ser.deserialize(bb, p, pod=False), "__wrapped__", ser.deserialize(bb, p, pod=False)))
                                if order == "object-first":
                                    b2.deserialize_var(var, make_copy=False)
                                text = _HS.to_human_string(m_, beautify=True)
                                if order == "text-first":
                                    o_ = b2.deserialize_var(var, make_copy=False)
                                    if repr(getattr(o_, "__wrapped__", o_)) != fresh_obj:
                                        fail(f"subfield/forms/{name}", f"{name}: after the message was rendered, deserialize_var hands out {repr(o_)[:80]} "
                                             f"instead of the object form {fresh_obj[:80]}", {"field": name, "payload": _h(p), "order": order})
                                if order == "object-first" and isinstance(p, (bytes, bytearray)) and len(p) >= 4:
                                    # serialize_var after deserialize_var on the same block: the value handed in is what gets encoded, also
                                    # when it compares equal to the cached one (0.0 and -0.0 do) or IS the cached one, edited in place
                                    for alt in (bytes(p[:-1]) + bytes([p[-1] ^ 0x80]), bytes([p[0] ^ 0x80]) + bytes(p[1:])):
                                        try:
                                            d_alt = ser.deserialize(bb, alt, pod=False)
                                            want_alt = ser.serialize(bb, d_alt)
                                        except Exception:  # noqa
                                            continue
                                        b3 = _ctx_block(msg, block, **cv)
                                        b3.vars[var] = p
                                        _SM(msg, b3)
                                        b3.deserialize_var(var, make_copy=False)
                                        b3.serialize_var(var, d_alt)
                                        if bytes(b3.vars[var]) != bytes(want_alt):
                                            fail(f"subfield/forms/{name}", f"{name}: serialize_var on a block whose cache was filled by deserialize_var left "
                                                 f"{_h(b3.vars[var])[:60]} in the field; the value handed in encodes to {_h(want_alt)[:60]}",
                                                 {"field": name, "payload": _h(p), "value_from": _h(alt)})
                                if order == "object-first":
                                    # the object handed out with make_copy=False, edited in place and written back, is re-encoded
                                    b4 = _ctx_block(msg, block, **cv)
                                    b4.vars[var] = p
                                    _SM(msg, b4)
                                    live = b4.deserialize_var(var, make_copy=False)
                                    if _edit_in_place(getattr(live, "__wrapped__", live)):
                                        try:
                                            want_edit = ser.serialize(bb, live)
                                        except Exception:  # noqa
                                            want_edit = None
                                        if want_edit is not None and bytes(want_edit) != bytes(p):
                                            b4.serialize_var(var, live)
                                            if bytes(b4.vars[var]) != bytes(want_edit):
                                                fail(f"subfield/forms/{name}", f"{name}: a value obtained with make_copy=False, edited in place and written back with "
                                                     f"serialize_var left the old bytes in the field", {"field": name, "payload": _h(p)})
                                back = _HS.from_human_string(text)
                                got = back[block][0].vars[var] if block in back.blocks else None
                                if isinstance(want_pod, (bytes, bytearray)) and bytes(got) != bytes(want_pod):
                                    fail(f"subfield/forms/{name}", f"{name}: the beautified text ({order}) parses back to {_h(got)[:80]}, the plain-data form encodes "
                                         f"to {_h(want_pod)[:80]}", {"field": name, "payload": _h(p), "order": order})
                        except Exception as ex:  # noqa
                            fail(f"subfield/forms/{name}", f"{name}: object form and beautified text through one block: {type(ex).__name__}: {str(ex)[:200]}",
                                 {"field": name, "payload": _h(p)})
                    try:
                        p2 = ser.serialize(bb, d)
                        d2 = ser.deserialize(bb, p2, pod=pod)
                        d2 = getattr(d2, "__wrapped__", d2)
                        p3 = ser.serialize(bb, d2)
                    except Exception as ex:  # noqa
                        fail(f"subfield/bytes/{name}", f"{name}: accepted payload does not survive decode/encode: {type(ex).__name__}: {ex}",
                             {"field": name, "payload": p.hex() if isinstance(p, bytes) else p, "ctx": {k: str(v) for k, v in cv.items()}, "pod": pod})
                        continue
                    if p3 != p2:
                        fail(f"subfield/bytes/{name}", f"{name}: payload the serializer produced itself ({_h(p2)}) re-encodes to {_h(p3)}",
                             {"field": name, "payload": _h(p), "ctx": {k: str(v) for k, v in cv.items()}, "pod": pod})
                    elif isinstance(p2, (bytes, bytearray)):
                        # ... and in the other form too: what the serializer produced from a plain-data value survives a pass through
                        # the object form byte for byte, and the other way round
                        try:
                            d_o = ser.deserialize(bb, p2, pod=not pod)
                            d_o = getattr(d_o, "__wrapped__", d_o)
                            p4 = ser.serialize(bb, d_o) if d_o is not se.UNSERIALIZABLE else p2
                        except Exception:  # noqa
                            p4 = None        # the other form does not accept it (the forms may differ in what they accept): nothing is claimed
                        if p4 is not None and p4 != p2:
                            fail(f"subfield/bytes/{name}", f"{name}: payload produced in the {'plain-data' if pod else 'object'} form ({_h(p2)[:100]}) comes back "
                                 f"from the other form as {_h(p4)[:100]}", {"field": name, "payload": _h(p2), "pod": pod})
                    if isinstance(p, int) and isinstance(p2, int) and p2 != p:
                        k_ = f"subfield/date-precision/{name}" if ("Date" in var and p > 2 ** 53 and abs(p2 - p) < 4096) else f"subfield/bytes/{name}"
                        fail(k_, f"{name}: integer {p} decodes to {d!r} and re-encodes to {p2}",
                             {"field": name, "raw": p, "ctx": {k: str(v) for k, v in cv.items()}, "pod": pod})
                    try:
                        same = repr(d2) == repr(d) or d2 == d
                    except Exception:  # noqa
                        same = True
                    if not same:
                        # microsecond dates above 2^53 go through float seconds: one root cause (the recorded date-precision finding),
                        # whether it shows as a changed integer or as a changed decoded value
                        k_ = f"subfield/date-precision/{name}" if ("Date" in var and isinstance(p, int) and p > 2 ** 53) else f"subfield/bytes/{name}"
                        fail(k_, f"{name}: fixed point decodes to a different value", {"field": name, "payload": _h(p), "pod": pod})
                    if pod and nudges_left[0] > 0:
                        # value side of "every payload the serializer can itself produce survives byte for byte": plain-data values near
                        # the decoded one (float leaves moved by about one quantisation step, or put next to zero) are serialized, and
                        # what the serializer produced must come back unchanged from one decode-encode pass
                        for d_n in _nudged(d, rng, 3):
                            nudges_left[0] -= 1
                            evals += 1
                            try:
                                q1 = ser.serialize(bb, d_n)
                            except Exception:  # noqa
                                continue        # not a value of this serializer's domain
                            try:
                                dq = ser.deserialize(bb, q1, pod=True)
                                dq = getattr(dq, "__wrapped__", dq)
                                q2 = ser.serialize(bb, dq)
                            except Exception as ex:  # noqa
                                fail(f"subfield/produced/{name}", f"{name}: payload produced by the serializer itself does not decode/encode again: "
                                     f"{type(ex).__name__}: {ex}", {"field": name, "value": repr(d_n)[:300], "produced": _h(q1)})
                                continue
                            if q2 != q1:
                                fail(f"subfield/produced/{name}", f"{name}: payload produced by the serializer itself ({_h(q1)[:120]}) does not survive "
                                     f"byte for byte (comes back as {_h(q2)[:120]})", {"field": name, "value": repr(d_n)[:300], "produced": _h(q1), "reencoded": _h(q2)})
                    if pod:
                        try:
                            if _finite(d) and _ast.literal_eval(repr(d)) != d:
                                fail(f"subfield/podrepr/{name}", f"{name}: pod form does not evaluate back to an equal literal", {"field": name, "payload": _h(p)})
                        except (ValueError, SyntaxError):
                            fail(f"subfield/podrepr/{name}", f"{name}: pod form {repr(d)[:80]} is not a literal", {"field": name, "payload": _h(p)})
            seen.add((name, tuple(sorted((k, str(v)) for k, v in cv.items()))))
        if accepted_total == 0:
            gaps.append(name + ": no generated payload was accepted")
    # date fields under different process time zones
    from hippolyzer.lib.base.templates import DateAdapter
    saved_tz = os.environ.get("TZ")
    try:
        for tz in ("UTC", "America/New_York", "Australia/Lord_Howe"):
            os.environ["TZ"] = tz
            time.tzset()
            for ad, vals in ((DateAdapter(), [0, 1, 86399, 1099805400, 1099809000, 1700000000, 2 ** 31 - 1, 2 ** 32 - 1]),
                             (DateAdapter(1_000_000), [0, 1_000_000, 1099805400_000_001, 1700000000_123_457])):
                for v in vals:
                    for pod in (False, True):
                        evals += 1
                        seen.add(("date", tz, v, pod))
                        try:
                            d = ad.decode(v, None, pod=pod)
                            e = ad.encode(d, None)
                            if e != v:
                                fail("subfield/date", f"DateAdapter(multiplier={ad._multiplier if hasattr(ad, '_multiplier') else '?'}) TZ={tz}: raw {v} -> {d!r} -> {e}",
                                     {"tz": tz, "raw": v, "pod": pod})
                        except Exception as ex:  # noqa
                            fail("subfield/date", f"DateAdapter TZ={tz}: raw {v} pod={pod} raised {type(ex).__name__}: {ex}", {"tz": tz, "raw": v, "pod": pod})
    finally:
        if saved_tz is None:
            os.environ.pop("TZ", None)
        else:
            os.environ["TZ"] = saved_tz
        time.tzset()
    return {"name": "registered-subfield-serializers", "evaluations": evals, "distinct_nontrivial": len(seen),
            "rule": "every entry of SUBFIELD_SERIALIZERS: enum/flag serializers over the whole wire range (exhaustive for 8/16-bit, structured + seeded for "
                    "32/64-bit) in object and pod form incl. literal_eval(repr(pod)); template-based ones over every context value selecting a "
                    "sub-template x fuzzed payloads of the template's size that the serializer accepts: produced payloads must be fixed points; date "
                    "adapters under 3 time zones. distinct = distinct (field, context)", "bounded": True,
            "bounds": {"coverage_gaps": gaps}, "samples": samples, "failures": failures}


def _face_bits(faces):
    packed = 0
    for f in faces:
        packed |= 1 << f
    groups = []
    while packed:
        groups.append(packed & 0x7F)
        packed >>= 7
    groups.reverse()
    return bytes([g | 0x80 for g in groups[:-1]] + groups[-1:])


def te_payloads(rng, n):
    """hand-built TextureEntry payloads in wire format: per field a default value, then (face bitfield, value) exceptions"""
    import struct as st
    widths = [("uuid", 16), ("color", 4), ("f32", 4), ("f32", 4), ("s16", 2), ("s16", 2), ("rot", 2), ("u8", 1), ("u8", 1), ("u8", 1), ("uuid", 16)]

    def val(kind):
        if kind == "uuid":
            return bytes(rng.getrandbits(8) for _ in range(16))
        if kind == "color":
            return bytes(rng.getrandbits(8) for _ in range(4))
        if kind == "f32":
            return st.pack("<f", rng.choice([0.0, 1.0, -1.0, 0.5, rng.uniform(-100, 100)]))
        if kind == "s16":
            return st.pack("<h", rng.choice([0, 1, -1, 2, -2, 32767, -32767, -32768, rng.randint(-32768, 32767)]))
        if kind == "rot":
            # raw -32768 of the packed rotation is the C10 known finding (-2*pi wraps to 0): not re-reported per TE field here
            return st.pack("<h", rng.choice([0, 1, -1, 32767, -32767, rng.randint(-32767, 32767)]))
        return bytes([rng.choice([0, 1, 255, rng.randrange(256)])])
    out = []
    for _ in range(n):
        n_fields = rng.choice([10, 10, 11])
        buf = bytearray()
        for i, (kind, w) in enumerate(widths[:n_fields]):
            if i:
                buf += b"\x00"
            buf += val(kind)
            used = set()
            for _e in range(rng.choice([0, 0, 1, 2])):
                faces = sorted(set(rng.choice([rng.randrange(0, 7), rng.randrange(0, 45), rng.randrange(40, 60)]) for _f in range(rng.choice([1, 2, 3]))))
                key = tuple(faces)
                if key in used:
                    continue
                used.add(key)
                buf += _face_bits(faces) + val(kind)
        out.append(bytes(buf))
    return out


_STEPS = (1.5e-05, 3.06e-05, 1e-4, 1.92e-4, 1e-3, 3.93e-3, 0.01)


def _nudged(d, rng, n):
    """up to n copies of the plain-data value d, each with one float leaf replaced by a value one small step away from it or from
    zero (|value| kept below 6: the packed rotation's raw -32768 is the C10 known finding and is not re-reported here)"""
    import copy
    paths = []

    def walk(x, path):
        if isinstance(x, float):
            paths.append(path)
        elif isinstance(x, (list, tuple)):
            for i, y in enumerate(x):
                walk(y, path + (i,))
        elif isinstance(x, dict):
            for k, y in x.items():
                walk(y, path + (k,))
    walk(d, ())
    out = []
    for _ in range(n):
        if not paths:
            break
        path = rng.choice(paths)
        step = rng.choice(_STEPS) * rng.choice((1, -1))

        def rebuild(x, rest):
            if not rest:
                base = 0.0 if rng.random() < 0.5 else x
                v = base + step
                return v if abs(v) < 6 else x
            k = rest[0]
            if isinstance(x, dict):
                y = dict(x)
                y[k] = rebuild(x[k], rest[1:])
                return y
            y = list(x)
            y[k] = rebuild(x[k], rest[1:])
            return tuple(y) if isinstance(x, tuple) else y
        try:
            out.append(rebuild(copy.deepcopy(d), path))
        except Exception:  # noqa
            pass
    return out


def _h(p):
    return p.hex() if isinstance(p, (bytes, bytearray)) else repr(p)[:80]


def _finite(d):
    import math
    if isinstance(d, float):
        return math.isfinite(d)
    if isinstance(d, (list, tuple)):
        return all(_finite(x) for x in d)
    if isinstance(d, dict):
        return all(_finite(x) for x in d.values())
    return True
