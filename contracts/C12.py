"""C12 - LLSD forms are faithful: messages over LLSD and the LLSD codecs round-trip"""
from contracts import c12_native, c12_contracts
PID = "C12"
META = {
    "level": "other",
    "explanation": (
        "P (proved on the real body of llsd._format_binary_recurse, scalar cases): the type tag written is the one LLSD assigns to the "
        "value's type (None '!', bool '1'/'0', int 'i', real 'r', UUID 'u', binary 'b', uri 'l' - not 's' -, str 's', date 'd'), with "
        "is_string/isinstance axioms for the llsd type lattice (uri is a str subclass). "
        "LLSDMessageSerializer.serialize / deserialize: what is walked and rewritten is a fresh dict (to_dict) respectively a deep copy or parse result, never the caller's value; every yielded (block, variable) has exactly its own value packed / unpacked with its own type and stored back under its own name; the result is that dict / its XML / the message built from it. B (bounded, NOT proved): all 481 templates through LLSDMessageSerializer dict and XML forms, event-queue injection, "
        "LLSDDataPacker pairs against an independent statement of the packed form; generated LLSD trees (depth <= 4) through 10 codec "
        "routes (binary with both headers / none / sniffed, zipped, streamed, notation, XML), dates in three process time zones, no raw "
        "newline in notation. Upstream llsd date truncation recorded as a known finding."),
    "trusted_base": [
        "third-party llsd package (notation / XML parsers and formatters): exercised, not verified",
        "struct.pack exact model; container cases (list / dict recursion) of the binary formatter: bounded tier only",
        "isinstance lattice of llsd types stated as axioms (axiom group llsd_types)",
    ],
}


def register(reg):
    c12_contracts.register_p(reg, PID)
    from contracts import c12b_contracts
    c12b_contracts.register_p2(reg, PID)


BOUNDED = [c12_native.bounded_llsd_messages, c12_native.bounded_llsd_codecs]
