"""C12 - LLSD forms are faithful: messages over LLSD and the LLSD codecs round-trip"""
from contracts import c12_native
PID = "C12"
META = {"level": "other", "explanation": "<filled in later by the framework owner>", "trusted_base": []}


def register(reg):
    pass


BOUNDED = [c12_native.bounded_llsd_messages, c12_native.bounded_llsd_codecs]
