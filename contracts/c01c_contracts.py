"""Tier-P contracts for C01, third part: block framing on the decode side (UDPMessageDeserializer._parse_message_body): how many
instances of each template block are read (1 / the template's number / the count byte), that a block list is created for every
block that was reached, that every instance gets every template variable exactly once in template order, and that parsing stops
for good at the first block boundary where the data has ended."""
from pyvc.contracts import ClassDecl, FnContract
from contracts import udp_common
from contracts.common import reg_message

DREL = "hippolyzer/lib/base/message/udpdeserializer.py"


def register_p3(reg, prop):
    import hippolyzer.lib.base.serialization as se
    from hippolyzer.lib.base.message.msgtypes import MsgBlockType
    import hippolyzer.lib.base.exc as exc
    udp_common.reg_buffers(reg)
    reg_message(reg)
    o = "Opaque:Any"
    if "UDPMessageDeserializer" not in reg.classes:
        reg.add_class(ClassDecl("UDPMessageDeserializer", fields={"settings": o, "template_dict": o}))
    if "TmplBlock" not in reg.classes:
        reg.add_class(ClassDecl("TmplBlock", fields={"block_type": "Int", "number": "Int", "variables": "Opaque:VarList", "name": "Str"}))
    # inside the body parser msg.raw_body is already None, so the `blocks` property is a plain read of the dict being filled
    reg.classes["Message"].fields.setdefault("blocks", "Opaque:Any")
    reg.exc_parents.setdefault("exc.MessageDeserializationError", "Exception")
    S, M, V = MsgBlockType.MBT_SINGLE, MsgBlockType.MBT_MULTIPLE, MsgBlockType.MBT_VARIABLE
    reg.add_fn(FnContract(
        key="hippolyzer.lib.base.message.udpdeserializer:UDPMessageDeserializer._parse_message_body", relpath=DREL,
        qualname="UDPMessageDeserializer._parse_message_body", cls="UDPMessageDeserializer", prop=prop,
        params={"msg": "Obj:Message", "raw_body": "Bytes"}, param_names=["msg", "raw_body"],
        consts={"se": se, "MsgBlockType": MsgBlockType, "exc": exc},
        externals={
            "self.zero_code_expand": {"returns": "Bytes", "may_raise": "ValueError", "doc": "zero-code expansion (own contract, C03)"},
            "self.template_dict.get_template_by_name": {"returns": "Opaque:Tmpl", "doc": "template lookup"},
            "current_template.get_msg_freq_num_len": {"returns": "Int", "post": "result >= 1 and result <= 4", "doc": "width of the message number"},
            "attr:current_template.blocks": {"returns": "Opaque:BlockTmplList", "doc": "template blocks in template order"},
            "msg.create_block_list": {"record_as": "block_list", "doc": "marks the block as seen (possibly with zero instances)"},
            "Block": {"returns": "Opaque:Block", "record_as": "new_block", "record_result": True, "doc": "fresh block instance"},
            "msg.add_block": {"record_as": "add_block", "doc": "instance appended to the message"},
            "self._parse_var": {"returns": o, "record_as": "var", "record_result": True, "may_raise": "AnyException",
                                "modifies": ["reader._pos"], "post": "reader._pos >= 0",
                                "doc": "one variable read at the reader's position (reads never move the position below zero)"},
            "attr:msg.blocks": {"returns": o, "doc": "the message's block dict"},
        },
        may_raise={"AnyException": "", "ValueError": "", "exc.MessageDeserializationError": "", "struct.error": "", "IndexError": "", "IOError": ""},
        loops={
            "for tmpl_block in current_template.blocks": {
                "elem_sort": "Obj:TmplBlock",
                "inv": ["reader.endianness == '<' and not reader.pod and reader._len == len(reader._buffer) and reader._pos >= 0"],
                "iter_post": [
                    # the block was reached with data left: its list exists, and as many instances as the block type prescribes were
                    # read - one, the template's fixed number, or what the count byte says
                    "ncalls('block_list') == 1 and called_with('block_list', lambda arg0: arg0 == tmpl_block.name)",
                    f"defined('_nb') and implies(tmpl_block.block_type == {S}, _nb == 1)",
                    f"defined('_nb') and implies(tmpl_block.block_type == {M}, _nb == ite(tmpl_block.number > 0, tmpl_block.number, 0))",
                    f"defined('_nb') and implies(tmpl_block.block_type == {V}, _nb == _count)"]},
            "for i in range(repeat_count)": {
                "ghost_init": {"_nb": "0", "_count": "repeat_count"}, "ghost_step": {"_nb": "_nb + ncalls('add_block')", "_count": "_count"},
                "inv": ["_nb == _i", "_count == repeat_count",
                        "reader.endianness == '<' and not reader.pod and reader._len == len(reader._buffer) and reader._pos >= 0"],
                # one instance: a fresh block under the template block's name, appended once, every template variable parsed into it
                "iter_post": ["ncalls('new_block') == 1 and ncalls('add_block') == 1",
                              "called_with('new_block', lambda arg0, result: arg0 == tmpl_block.name and called_with('add_block', lambda arg0: arg0 == result))",
                              "defined('_nv') and _nv == len(tmpl_block.variables) and L2_left_early == 0"]},
            "for tmpl_variable in tmpl_block.variables": {
                "ghost_init": {"_nv": "0"}, "ghost_step": {"_nv": "_nv + ncalls('var')"},
                "inv": ["_nv == _i", "reader.endianness == '<' and not reader.pod and reader._len == len(reader._buffer) and reader._pos >= 0"],
                "iter_post": ["ncalls('var') == 1 and ncalls('store:current_block') == 1",
                              "called_with('var', lambda tmpl_variable, result: tmpl_variable == _tv and "
                              "stored_key('store:current_block') == _tv.name and stored_value('store:current_block') == result)"],
                "ghost_pre": {"_tv": "tmpl_variable"}},
        },
        ensures=["True"], frame=None))
    from pyvc.contracts import alias_loops_by_order
    alias_loops_by_order(reg.fns["hippolyzer.lib.base.message.udpdeserializer:UDPMessageDeserializer._parse_message_body"])
