from contracts import c14_contracts
PID = "X14"
META = {"level": "other", "explanation": "scratch", "trusted_base": []}


def register(reg):
    c14_contracts.register_p(reg, PID)


BOUNDED = []
