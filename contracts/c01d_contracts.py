"""Tier-P contract for C01, fourth part: UDPMessageSerializer.serialize on a message whose body has to be built from its blocks
(raw_body is None): template-ordered walk over the blocks, the trailing-omission rule, zero-coding iff flagged, header and ack
trailer around the body. The same header / trailer obligations as the raw-body instance, with the built body in place of the raw one."""
import copy as _copy

from pyvc.contracts import ClassDecl, FnContract, alias_loops_by_order
from contracts import udp_common

SER_MOD = "hippolyzer.lib.base.message.udpserializer"


def register_p4(reg, prop):
    import copy
    import hippolyzer.lib.base.serialization as se
    import hippolyzer.lib.base.exc as exc
    raw = reg.fns.get(f"{SER_MOD}:UDPMessageSerializer.serialize@raw_body")
    if raw is None:
        udp_common.reg_serialize_raw(reg, prop)
        raw = reg.fns[f"{SER_MOD}:UDPMessageSerializer.serialize@raw_body"]
    if "TmplBlock" not in reg.classes:
        reg.add_class(ClassDecl("TmplBlock", fields={"block_type": "Int", "number": "Int", "variables": "Opaque:VarList", "name": "Str"}))

    def sub(cl):
        return cl.replace("val(msg.raw_body)", "msg_body")
    c = _copy.copy(raw)
    c.key = f"{SER_MOD}:UDPMessageSerializer.serialize@built_body"
    c.prop = prop
    c.also = []
    c.requires = ["is_none(msg.raw_body)"]
    c.consts = dict(raw.consts, copy=copy, exc=exc)
    c.ensures = [sub(e) for e in raw.ensures] + [
        # zero-coding is applied exactly when the message is flagged, to the whole built body
        "iff(ncalls('zero_code') == 1, (msg.send_flags & 128) != 0)", "ncalls('zero_code') <= 1",
        "implies(ncalls('zero_code') == 1, called_with('zero_code', lambda arg0, result: arg0 == body_writer.buffer and result == msg_body))",
        "implies(ncalls('zero_code') == 0, msg_body == body_writer.buffer)",
        # the walk over the template's blocks ran to the end
        "L0_left_early == 0 and defined('_k') and _k == len(current_template.blocks)",
    ]
    c.may_raise = dict(raw.may_raise, **{"ValueError": "", "KeyError": "", "AnyException": ""})
    ack_head = "for ack in reversed(msg.acks)"
    ack_spec = dict(raw.loops[ack_head])
    ack_spec["inv"] = [sub(i) for i in ack_spec["inv"]]
    ack_spec["lemmas"] = [sub(i) for i in ack_spec["lemmas"]]
    # the body writer is not touched while the trailer is appended
    ack_spec["ghost_init"] = {"_bb0": "body_writer.buffer"}
    ack_spec["ghost_const"] = ["_bb0"]
    ack_spec["inv"] = ack_spec["inv"] + ["body_writer.buffer == _bb0"]
    c.loops = {
        "for tmpl_block in current_template.blocks": {
            "elem_sort": "Obj:TmplBlock",
            "havoc_sorts": {"missing_block": "Opt[Str]"},
            "ghost_pre": {"_mb0": "missing_block"},
            "ghost_init": {"_k": "0"}, "ghost_step": {"_k": "_k + ncalls('pop')"},
            "inv": ["_k == _i", "writer.endianness == '!' and body_writer.endianness == '<'",
                    "len(writer.buffer) == 6 and writer.buffer[0] == msg.send_flags and writer.buffer[5] == len(msg.raw_extra)",
                    "be32at(writer.buffer, 1) == ite(is_none(msg.packet_id), 0, val(msg.packet_id))"],
            "iter_post": [
                # every template block is looked up exactly once, by its name
                "ncalls('pop') == 1 and called_with('pop', lambda arg0: arg0 == tmpl_block.name)",
                # a present block is written (once, with the template block and the list found), a missing one is only remembered
                "iff(ncalls('block') == 1, called_with('pop', lambda result: not is_none(result)))", "ncalls('block') <= 1",
                "implies(ncalls('block') == 1, called_with('pop', lambda result: called_with('block', lambda arg0, arg1, arg2: "
                "arg0 == body_writer and arg1 == tmpl_block and arg2 == val(result))))",
                # nothing is written after an omitted block: completing the iteration with a block written means none was missing
                # (a block whose name is the empty string would not count as "missing": no template has one)
                "implies(ncalls('block') == 1, is_none(_mb0) or len(val(_mb0)) == 0)",
                "implies(called_with('pop', lambda result: is_none(result)), not is_none(missing_block))",
                "implies(ncalls('block') == 1, missing_block == _mb0)"]},
        ack_head: ack_spec,
    }
    c.externals = dict(raw.externals, **{
        "copy.copy": {"returns": "Opaque:BlockDict", "doc": "shallow copy of the message's block dict"},
        "blocks.pop": {"returns": "Opt[Opaque:BlockList]", "record_as": "pop", "record_result": True, "doc": "block list of that name, or None"},
        "self._serialize_block": {"record_as": "block", "may_raise": "AnyException", "modifies": ["body_writer.buffer"],
                                  "doc": "one template block (own contract)"},
        "self.zero_code_compress": {"returns": "Bytes", "record_as": "zero_code", "record_result": True, "doc": "zero-code compression (own contract, C03)"},
        # not called by the current body; declared so that substituting a default list for a missing block stays within reach
        "MsgBlockList": {"returns": "Opaque:BlockList", "doc": "empty block list"},
        "attr:current_template.freq_num_bytes": {"returns": "Bytes", "doc": "message number bytes"},
    })
    c.frame = []
    reg.classes["Message"].fields.setdefault("blocks", "Opaque:Any")
    reg.add_fn(c)
    alias_loops_by_order(c)
