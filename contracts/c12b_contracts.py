"""Tier-P contracts for C12, second part: LLSDMessageSerializer.serialize / deserialize - the template-directed rewriting of the
values LLSD cannot carry. Dict contents are unmodelled; proved is the control: which object is walked and rewritten (a private
copy, never the caller's), that every yielded (block, variable) gets exactly its own value packed / unpacked with its own type
and stored back under its own name, and what is returned."""
from pyvc.contracts import ClassDecl, FnContract, alias_loops_by_order

LREL = "hippolyzer/lib/base/message/llsd_msg_serializer.py"
LMOD = "hippolyzer.lib.base.message.llsd_msg_serializer"


def register_p2(reg, prop):
    o = "Opaque:Any"
    reg.add_class(ClassDecl("LLSDMessageSerializer", fields={"template_dict": o, "_message_cls": o}))
    pair = "Tuple[Opaque:Block,Opaque:TVar]"

    def loop(packer):
        return {"for block, tmpl_var in self._yield_vars(%s)": None}
    common_ext = {
        # not all of these are called by both bodies; declared so that swapped / shallower variants stay within reach of the contracts
        "LLSDDataPacker.pack": {"returns": o, "record_as": "pack", "record_result": True, "may_raise": "AnyException", "optional": True, "doc": "value -> LLSD-expressible form"},
        "LLSDDataPacker.unpack": {"returns": o, "record_as": "unpack", "record_result": True, "may_raise": "AnyException", "optional": True, "doc": "LLSD form -> value"},
        "dict": {"returns": "Opaque:Val", "record_as": "shallow", "optional": True, "doc": "shallow copy (shares the inner blocks)"},
        "copy.copy": {"returns": "Opaque:Val", "record_as": "shallow", "optional": True, "doc": "shallow copy (shares the inner blocks)"},
        "self._yield_vars": {"returns": "Opaque:Pairs", "record_as": "walk", "doc": "(block, template variable) pairs whose type needs packing (own generator)"},
        "sub:block[tmpl_var.name]": {"returns": o, "record_as": "get", "record_result": True, "may_raise": "KeyError", "doc": "current value of the variable"},
    }
    iter_post = lambda how: [   # noqa: E731
        "ncalls('get') == 1 and ncalls('%s') == 1 and ncalls('store:block') == 1" % how,
        "called_with('get', lambda result: called_with('%s', lambda arg0, arg1: arg0 == result and arg1 == tmpl_var.type))" % how,
        "called_with('%s', lambda result: stored_key('store:block') == tmpl_var.name and stored_value('store:block') == result)" % how]
    reg.add_fn(FnContract(
        key=f"{LMOD}:LLSDMessageSerializer.serialize", relpath=LREL, qualname="LLSDMessageSerializer.serialize", cls="LLSDMessageSerializer", prop=prop,
        params={"msg": "Opaque:Msg", "as_dict": "Bool"}, param_names=["msg", "as_dict"], defaults={"as_dict": False}, returns=o,
        externals=dict(common_ext, **{
            "msg.to_dict": {"returns": "Opaque:Dict", "record_as": "to_dict", "record_result": True, "doc": "a fresh dict form of the message (Message.to_dict builds new dicts)"},
            "LLSDDataPacker.pack": {"returns": o, "record_as": "pack", "record_result": True, "may_raise": "AnyException", "doc": "value -> LLSD-expressible form"},
            "llsd.format_xml": {"returns": o, "record_as": "xml", "record_result": True, "may_raise": "AnyException", "doc": "LLSD XML"},
        }),
        may_raise={"AnyException": "", "KeyError": ""},
        loops={"for block, tmpl_var in self._yield_vars(msg_dict)": {"elem_sort": pair, "inv": ["True"], "iter_post": iter_post("pack")}},
        ensures=[
            # the dict that is walked and rewritten is the fresh one, and it (or its XML) is what comes back
            "ncalls('to_dict') == 1 and ncalls('walk') == 1 and called_with('to_dict', lambda result: called_with('walk', lambda arg0: arg0 == result))",
            "implies(as_dict, called_with('to_dict', lambda result: result == RESULT) and ncalls('xml') == 0)",
            "implies(not as_dict, ncalls('xml') == 1 and called_with('to_dict', lambda result: called_with('xml', lambda arg0: arg0 == result)) "
            "and called_with('xml', lambda result: result == RESULT))",
            "L0_left_early == 0"],
        frame=[]))
    alias_loops_by_order(reg.fns[f"{LMOD}:LLSDMessageSerializer.serialize"])
    reg.add_fn(FnContract(
        key=f"{LMOD}:LLSDMessageSerializer.deserialize", relpath=LREL, qualname="LLSDMessageSerializer.deserialize", cls="LLSDMessageSerializer", prop=prop,
        params={"llsd_val": "Opaque:Val"}, param_names=["llsd_val"], returns=o,
        externals=dict(common_ext, **{
            "llsd.parse": {"returns": "Opaque:Val", "record_as": "parse", "record_result": True, "may_raise": "AnyException", "doc": "LLSD parse of bytes (a new value)"},
            "copy.deepcopy": {"returns": "Opaque:Val", "record_as": "copy", "record_result": True, "doc": "private deep copy"},
            "LLSDDataPacker.unpack": {"returns": o, "record_as": "unpack", "record_result": True, "may_raise": "AnyException", "doc": "LLSD form -> value"},
            "self._message_cls.from_dict": {"returns": o, "record_as": "from_dict", "record_result": True, "may_raise": "AnyException", "doc": "message from dict"},
        }),
        may_raise={"AnyException": "", "KeyError": "", "ValueError": ""},
        loops={"for block, tmpl_var in self._yield_vars(llsd_val)": {"elem_sort": pair, "inv": ["True"], "iter_post": iter_post("unpack")}},
        ensures=[
            # never the caller's own value: what is walked, rewritten and turned into the message is the parse result or a deep copy
            "ncalls('parse') + ncalls('copy') == 1 and ncalls('walk') == 1 and ncalls('from_dict') == 1",
            "implies(ncalls('copy') == 1, called_with('copy', lambda arg0, result: arg0 == llsd_val and called_with('walk', lambda arg0: arg0 == result) "
            "and called_with('from_dict', lambda arg0: arg0 == result)))",
            "implies(ncalls('parse') == 1, called_with('parse', lambda arg0, result: arg0 == llsd_val and called_with('walk', lambda arg0: arg0 == result) "
            "and called_with('from_dict', lambda arg0: arg0 == result)))",
            "iff(ncalls('parse') == 1, isa(llsd_val, 'bytes'))",
            "called_with('from_dict', lambda result: result == RESULT)", "L0_left_early == 0"],
        frame=[]))
    alias_loops_by_order(reg.fns[f"{LMOD}:LLSDMessageSerializer.deserialize"])
