"""C07 - addons cannot duplicate, lose or wedge traffic: at-most-once, fault-isolated.

Tier P: ownership typestate on the real Message.take / ProxiedCircuit.prepare_message / drop_message (contracts
verified under C05), and the obligations on InterceptingLLUDPProxyProtocol.handle_proxied_packet with every hook
and handler havocked to 'may raise anything, may return anything, may leave the message in any ownership state
reachable through take/send/drop'. AddonManager._try_call_hook: no exception escapes when swallowing is on.
Tier B: real proxy + addons with assigned behaviours.
"""
from pyvc.contracts import ClassDecl, FnContract, Lemma
from pyvc.engine import lemma_vcs
from contracts.common import reg_tracker, reg_message, reg_circuits, REL, MOD, MSG_REL, CIRC_REL
from contracts import C05 as c05

PID = "C07"
LREL = "hippolyzer/lib/proxy/lludp_proxy.py"
AREL = "hippolyzer/lib/proxy/addons.py"

META = {
    "level": "other",
    "explanation": (
        "P (proved for all hook behaviours): in handle_proxied_packet, with AddonManager hooks and both message "
        "handlers modelled as arbitrary code that may raise, return anything and leave the message in any ownership "
        "state reachable by take/send/drop (own_ok, itself proved preserved by the real take/prepare_message/"
        "drop_message), no RuntimeError escapes, the message is sent at most once and dropped at most once and never "
        "both by the proxy, the proxy's logger runs before the message is finalised by the proxy and on every path that "
        "reaches the forwarding decision, and an unclaimed message leaves the function finalised (sent). Handler "
        "exceptions do not skip the second handler or the addon hooks. _try_call_hook lets no exception escape when "
        "swallowing is on. AddonManager._call_module_hooks / _call_all_addon_hooks: every addon object (then its module) is asked exactly once, in order, until one answers truthy; that answer ends the chain and is the result, otherwise None. B (bounded): three real addons x behaviours x hook points x direction x reliability on the real "
        "proxy; ownership-operation sequences up to length 4."),
    "trusted_base": [
        "ProxiedCircuit.prepare_message/drop_message, Circuit.send, Message.take: contracts verified under C05",
        "externals (AddonManager.*, message handlers, session/region lookups, logger): declared effect summaries - may raise "
        "AnyException where the code guards them, havoc the message's ownership flags within own_ok",
        "deserialize returns a fresh unfinalised message with a packet id",
        "live circuits' injection trackers satisfy wf (C04: established by the constructor, preserved by every method)",
        "_call_module_hooks/_call_all_addon_hooks short-circuit loops: bounded tier only (getattr/varargs dispatch)",
    ],
}

HOOK_HAVOC = ["message.finalized", "message.queued", "message.dropped"]


def register(reg):
    from contracts import c07b_contracts
    c05.register(reg)
    from contracts import events_contracts
    if "hippolyzer.lib.base.events:Event.notify" not in reg.fns:
        events_contracts.register_p(reg, "C19", also=["C07"])       # Message, circuits, trackers and the C05 contracts (verified there, assumed here)
    for k in ("hippolyzer.lib.base.message.circuit:Circuit.send@ProxiedCircuit", f"{MOD}:ProxiedCircuit.drop_message",
              f"{MOD}:ProxiedCircuit.prepare_message", "hippolyzer.lib.base.message.message:Message.take"):
        reg.fns[k].also.append(PID)     # the ownership guards this property rests on are re-verified in this check
    reg.fns["hippolyzer.lib.base.message.circuit:Circuit.send@ProxiedCircuit"].record_as = "send"
    reg.fns[f"{MOD}:ProxiedCircuit.drop_message"].record_as = "drop"
    reg.add_class(ClassDecl("InterceptingLLUDPProxyProtocol", fields={
        "session": "Opt[Obj:Session]", "session_manager": "Obj:SessionManager", "deserializer": "Opaque:Any",
        "message_xml": "Opaque:Any", "transport": "Opaque:Any", "serializer": "Opaque:Any",
        "far_to_near_map": "Opaque:Any", "socks_client_addr": "Opaque:Any"}))
    reg.add_class(ClassDecl("Session", fields={
        "message_handler": "Opaque:Any", "main_region": "Opt[Obj:ProxiedRegion]", "objects": "Opaque:Any",
        "active_group": "Opaque:Any", "regions": "Opaque:Any"}))
    reg.add_class(ClassDecl("SessionManager", fields={"settings": "Obj:ProxySettings", "message_logger": "Opaque:Any"}))
    reg.add_class(ClassDecl("ProxySettings", fields={"USE_VIEWER_OBJECT_CACHE": "Bool"}))
    reg.add_class(ClassDecl("ProxiedRegion", fields={
        "circuit": "Obj:ProxiedCircuit", "handle": "Opt[Opaque:Any]", "message_handler": "Opaque:Any",
        "cache_id": "Opaque:Any", "name": "Opaque:Any", "objects": "Opaque:Any"}))

    hooks = {"may_raise": None, "modifies": HOOK_HAVOC, "post": "own_ok(message)",
             "doc": "addon hook dispatcher: swallows addon exceptions (_try_call_hook), may take/send/drop the message"}
    handler = {"may_raise": "AnyException", "modifies": HOOK_HAVOC, "post": "own_ok(message)",
               "doc": "message handler: subscribers may raise, may take/send/drop the message"}
    ext = {
        "AddonManager.handle_proxied_packet": {"returns": "Opaque:Any", "modifies": ["packet.data"],
                                               "doc": "addon hook on the raw packet; may rewrite packet.data; truthy = claimed"},
        "self.deserializer.deserialize": {"returns": "Obj:Message", "may_raise": "AnyException",
                                          "post": ["not is_none(result.packet_id)", "not result.finalized", "not result.queued",
                                                   "not result.dropped", "not result.synthetic"],
                                          "doc": "fresh message from the wire"},
        "message.meta.update": {"doc": "dict update on the fresh message"},
        "self._ensure_message_allowed": {"may_raise": "PermissionError", "ghost_on_raise": {"ban_raised": 1}, "record_as": "ban_check",
                                         "doc": "UDP ban list"},
        "self.session_manager.claim_session": {"returns": "Opt[Obj:Session]", "fresh": False, "doc": "pending session lookup"},
        "self.session.open_circuit": {"returns": "Bool", "doc": "creates/keeps the region's circuit"},
        "self.session.region_by_circuit_addr": {"returns": "Opt[Obj:ProxiedRegion]", "fresh": False,
                                                "post": ["implies(not is_none(result), wf(val(result).circuit.in_injections) and wf(val(result).circuit.out_injections))"],
                                                "doc": "region lookup; live circuits' trackers are well formed (C04)"},
        "region.circuit.collect_acks": {"record_as": "collect", "doc": "completes futures of acked injected packets; no message state"},
        "AddonManager.handle_region_changed": {"doc": "addon hook (exceptions swallowed)"},
        "self.session.objects.track_region_objects": {"doc": "object manager bookkeeping"},
        "region.objects.load_cache": {"may_raise": "AnyException", "doc": "cache load"},
        "self.session.message_handler.handle": dict(handler, record_as="session_handler"),
        "region.message_handler.handle": dict(handler, record_as="region_handler"),
        "AddonManager.handle_lludp_message": dict(hooks, returns="Opaque:Any"),
        "message_logger.log_lludp_message": {"record_as": "logged", "doc": "proxy's own bookkeeping: message log"},
        "region.mark_dead": {"doc": "marks circuit dead"},
    }
    reg.add_fn(FnContract(
        key="hippolyzer.lib.proxy.lludp_proxy:InterceptingLLUDPProxyProtocol.handle_proxied_packet", relpath=LREL,
        qualname="InterceptingLLUDPProxyProtocol.handle_proxied_packet", cls="InterceptingLLUDPProxyProtocol", prop=PID,
        params={"packet": "Obj:UDPPacket"}, param_names=["packet"], externals=ext,
        may_raise={"PermissionError": "", "AnyException": ""},
        ensures=[
            "ncalls('send') <= 1 and ncalls('drop') <= 1 and ncalls('send') + ncalls('drop') <= 1",
            "ncalls('logged') <= 1",
            "implies(packet.direction == Direction.IN and ncalls('collect') >= 1, ncalls('ban_check') == 1)",
            # the proxy's own bookkeeping ran whenever the proxy itself sent or dropped the message
            "implies(defined('message_logger') and truthy(message_logger), iff(defined('handled'), ncalls('logged') == 1))",
            "implies(ncalls('send') + ncalls('drop') >= 1, defined('handled'))",
            # an unclaimed message leaves the function finalised: it was put on the wire (by this function or earlier)
            "implies(defined('handled') and not truthy(handled), message.finalized)",
            "implies(defined('handled') and truthy(handled), ncalls('send') == 0)",
            # one handler's failure stops neither the other handler nor the addon hooks nor the bookkeeping
            "implies(ncalls('session_handler') == 1, ncalls('region_handler') == 1 and defined('handled'))",
        ],
        ensures_on_raise=[
            # a banned message is discarded before anything else sees it (C06: without disturbing session state)
            "implies(count('ban_raised') == 1, ncalls('collect') == 0 and ncalls('session_handler') == 0 and ncalls('region_handler') == 0 "
            "and ncalls('logged') == 0 and ncalls('send') == 0 and ncalls('drop') == 0 and not defined('handled'))",
        ],
        frame=["session", "*.main_region", "*.handle", "*.cache_id", "*.name", "*.active_group", "packet.data",
               "*.finalized", "*.queued", "*.dropped", "*.packet_id", "*.synthetic", "*.acks", "*.send_flags",
               "*.direction", "*.sender", "*.injections", "*._injection_base", "*._packet_id_base", "*.unacked_reliable"]))

    reg.add_class(ClassDecl("AddonManagerCls", fields={"_SUBPROCESS": "Bool", "_SWALLOW_ADDON_EXCEPTIONS": "Bool",
                                                       "SCHEDULER": "Opaque:Any"}))
    reg.add_fn(FnContract(
        key="hippolyzer.lib.proxy.addons:AddonManager._try_call_hook", relpath=AREL, qualname="AddonManager._try_call_hook",
        cls="AddonManagerCls", prop=PID,
        params={"addon": "Opaque:Any", "hook_name": "Str", "args": "Opaque:Any", "call_async": "Bool", "kwargs": "Opaque:Any"},
        param_names=["addon", "hook_name"],
        externals={"getattr": {"returns": "Opaque:Any", "doc": "attribute lookup with default"},
                   "call:opaque": {"returns": "Opaque:Any", "may_raise": "AnyException", "record_as": "hook",
                                   "doc": "the addon's hook: arbitrary code"},
                   "cls.SCHEDULER.schedule_task": {"may_raise": "AnyException", "ignore_args": True, "doc": "task scheduling"}},
        may_raise={"AnyException": "not self._SWALLOW_ADDON_EXCEPTIONS"},
        ensures=["ncalls('hook') <= 1"], frame=[]))

    # the last step of "exactly once": a message handed to the proxied circuit's sender is handed to the transport once, on
    # every circuit state (the proxy marks the circuit dead before it forwards CloseCircuit / DisableSimulator)
    reg.add_fn(FnContract(
        key="hippolyzer.lib.proxy.circuit:ProxiedCircuit._send_prepared_message", relpath="hippolyzer/lib/proxy/circuit.py",
        qualname="ProxiedCircuit._send_prepared_message", cls="ProxiedCircuit", prop=PID, use_wf=False,
        params={"message": "Obj:Message", "transport": "Opaque:Any"}, param_names=["message", "transport"], returns="Opaque:Any",
        externals={"self.serializer.serialize": {"returns": "Bytes", "may_raise": "AnyException", "doc": "UDPMessageSerializer.serialize"},
                   "self.logging_hook": {"doc": "message log hook for injected packets"},
                   "message.to_dict": {"returns": "Opaque:Any", "doc": "debug representation"},
                   "self.send_datagram": {"returns": "Opaque:Any", "record_as": "send_datagram", "doc": "hands the datagram to the transport"}},
        may_raise={"AnyException": ""}, record_as="wire",
        ensures=["ncalls('send_datagram') == 1"], frame=[]))

    def L(name, doc, **spec):
        spec["name"] = name
        reg.lemmas.append(Lemma(name, PID, (lambda s=spec: lemma_vcs(reg, s, PID)), doc))
    L("typestate_take", "Message.take keeps the original inside the reachable ownership states", cls="Message",
      vars={"result": "Obj:Message"}, post_of="hippolyzer.lib.base.message.message:Message.take",
      hyps=["old(own_ok(self))", "self.dropped == old(self.dropped)"],
      goal="implies(self.dropped, self.finalized) and implies(old(self.finalized), self.queued == old(self.queued))")
    c07b_contracts.register_p2(reg, PID)


from contracts import c07_native


BOUNDED = [c07_native.bounded_addons]
