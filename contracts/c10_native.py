"""C10 bounded tier / cross-check: native enumeration of every raw value of every live instance; QuantizedTime over a
sweep of durations; the numpy-vectorised variant."""
import math
import random
import struct


def _f32(x):
    return struct.unpack("<f", struct.pack("<f", x))[0]


def check_instance(o, name, fail, step=1):
    """returns number of raws checked"""
    import hippolyzer.lib.base.serialization as se
    n = 0
    if isinstance(o, se.QuantizedFloatBase):
        prim = o._child_spec
        lo, hi = prim.min_val, prim.max_val
        prev = None
        for raw in range(lo, hi + 1, step):
            n += 1
            d = o.decode(raw, None)
            e = o.encode(d, None)
            if e != raw:
                fail(f"{name}: raw {raw} decodes to {d!r} and re-encodes to {e}", {"instance": name, "raw": raw}, f"{name}/roundtrip/{raw}")
            if prev is not None and not (prev <= d):
                fail(f"{name}: decode not monotonic at raw {raw}", {"instance": name, "raw": raw}, f"{name}/monotone")
            prev = d if step == 1 else None
        is_rot = type(o).__name__ == "PackedTERotation"
        if o.decode(lo, None) != o.lower or o.encode(o.lower, None) != lo:
            fail(f"{name}: lower end point not exact", {"instance": name}, f"{name}/endpoint-lower")
        if not is_rot and (o.decode(hi, None) != o.upper or o.encode(o.upper, None) != hi):
            fail(f"{name}: upper end point not exact", {"instance": name}, f"{name}/endpoint-upper")
        if o.zero_median:
            m = (lo + hi) // 2
            a, b = o.decode(m, None), o.decode(m + 1, None)
            if not (a == 0.0 and b == 0.0 and math.copysign(1, a) == -1 and math.copysign(1, b) == 1 and o.encode(a, None) == m
                    and o.encode(b, None) == m + 1):
                fail(f"{name}: zero midpoints not exact", {"instance": name}, f"{name}/midpoints")
    else:
        prim = o._ser_spec
        for raw in range(prim.min_val, prim.max_val + 1, step):
            n += 1
            w = se.BufferWriter("<")
            w.write(prim, raw)
            d = se.BufferReader("<", w.copy_buffer()).read(o)
            w2 = se.BufferWriter("<")
            w2.write(o, d)
            if w2.copy_buffer() != w.copy_buffer():
                fail(f"{name}: raw {raw} decodes to {d!r} and re-encodes to {w2.copy_buffer().hex()}", {"instance": name, "raw": raw},
                     f"{name}/roundtrip/{raw}")
    return n


def bounded_enumeration(reg, tier, seed):
    from contracts.C10 import live_instances
    import hippolyzer.lib.base.serialization as se
    from hippolyzer.lib.base.llanim import QuantizedTime
    evals, failures, seen, samples = 0, [], set(), []

    def fail(what, inp, key):
        if len(failures) < 8:
            failures.append({"key": "quantized/" + key, "clause": what, "input": inp, "observed": what})
    for k, o in sorted(live_instances().items(), key=str):
        name = "_".join(str(x) for x in k).replace(" ", "")
        n = check_instance(o, name, fail)
        evals += n
        seen.add(name)
        if len(samples) < 3:
            samples.append({"instance": name, "raws": n})
    # QuantizedTime: range [0, duration] taken from the animation context
    rng = random.Random(seed)
    qt = QuantizedTime(se.U16)

    class Root:
        duration = 1.0

    class Ctx:
        _root = Root()
    durations = [0.0, 0.25, 1.0, 8.25, 16.5, 20.5, 53.0, 66.0, 90.0, 98.0, 120.0, _f32(1e-10), _f32(1e-20), _f32(1.1754944e-38), _f32(5e-9), _f32(3600.0), _f32(1e30)] + [_f32(rng.uniform(0.01, 300.0)) for _ in range(20 if tier == "quick" else 2000)]
    step = 7 if tier == "quick" else 1
    for dur in durations:
        Ctx._root.duration = dur
        seen.add(("time", dur))
        prev = None
        for raw in list(range(0, 65536, step)) + [65535]:
            evals += 1
            d = qt.decode(raw, Ctx)
            e = qt.encode(d, Ctx)
            if dur > 0.0 and e != raw:
                fail(f"QuantizedTime duration {dur!r}: raw {raw} -> {d!r} -> {e}", {"duration": dur, "raw": raw}, "QuantizedTime/roundtrip")
                break
        if dur > 0.0 and (qt.decode(0, Ctx) != 0.0 or qt.decode(65535, Ctx) != dur or qt.encode(dur, Ctx) != 65535 or qt.encode(0.0, Ctx) != 0):
            fail(f"QuantizedTime duration {dur!r}: end points not exact (decode(65535) = {qt.decode(65535, Ctx)!r})", {"duration": dur},
                 "QuantizedTime/endpoints")
    # numpy-vectorised variant: every raw natively
    try:
        import numpy as np
        import gc
        qnps = {}
        for o in gc.get_objects():
            try:
                if isinstance(o, se.QuantizedNumPyArray):
                    qnps.setdefault((o.lower, o.upper), o)
            except ReferenceError:
                pass
        for (lo, hi), o in qnps.items():
            seen.add(("numpy", lo, hi))
            raws = np.arange(0, 65536, dtype=np.dtype("<u2"))
            dec = o.decode(raws.reshape(-1, 1), None)
            enc = np.asarray(o.encode(dec, None)).reshape(-1)
            evals += 65536
            bad = np.nonzero(enc.astype(np.int64) != raws.astype(np.int64))[0]
            if len(bad):
                fail(f"QuantizedNumPyArray[{lo},{hi}]: raw {int(raws[bad[0]])} re-encodes to {int(enc[bad[0]])}", {"lower": lo, "upper": hi},
                     "numpy/roundtrip")
            flat = np.asarray(dec).reshape(-1)
            if not (flat[0] == lo and flat[-1] == hi and bool(np.all(np.diff(flat) >= 0))):
                fail(f"QuantizedNumPyArray[{lo},{hi}]: end points/monotonicity", {"lower": lo, "upper": hi}, "numpy/endpoints")
    except ImportError:
        pass
    # quantised vectors as they are actually used: wrapped in the packed-quaternion adapter (the W component is dropped on the wire
    # in the three-component form, carried in the four-component one). Integers in, the same integers out - for every triple /
    # quadruple, including those whose vector part is longer than a unit quaternion's
    import struct as _st
    import itertools as _it
    quat_specs = [("PackedQuat(Vector3U16(-1,1))", se.PackedQuat(se.Vector3U16(-1.0, 1.0)), "<3H", 65535),
                  ("PackedQuat(Vector3U16(-5,5))", se.PackedQuat(se.Vector3U16(-5.0, 5.0)), "<3H", 65535),
                  ("PackedQuat(Vector4U16(-1,1))", se.PackedQuat(se.Vector4U16(-1.0, 1.0)), "<4H", 65535),
                  ("PackedQuat(Vector4U8(-1,1))", se.PackedQuat(se.Vector4U8(-1.0, 1.0)), "<4B", 255)]
    for qname, qspec, fmt, top in quat_specs:
        n_el = int(fmt[1])
        corner = [0, 1, top // 2, top // 2 + 1, top - 1, top]
        tuples = list(_it.product(corner, repeat=n_el)) + [tuple(rng.randint(0, top) for _ in range(n_el)) for _ in range(300 if tier == "quick" else 20000)]
        if n_el == 3:
            # triples whose decoded vector part lies just inside / just outside the unit sphere (where W is rebuilt as ~0)
            import math as _m
            for _k in range(200 if tier == "quick" else 5000):
                d_ = [rng.uniform(-1, 1) for _ in range(3)]
                nrm = _m.sqrt(sum(x * x for x in d_)) or 1.0
                rad = _m.sqrt(1.0 + rng.choice([-1e-3, -1e-5, 0.0, 1e-5, 1e-4, 5e-4, 9e-4, 2e-3]))
                lo_, hi_ = (-1.0, 1.0) if "(-1,1)" in qname else (-5.0, 5.0)
                tuples.append(tuple(max(0, min(top, round((x / nrm * rad - lo_) / (hi_ - lo_) * top))) for x in d_))
            tuples.append((13840, 13840, 13840))
        seen.add(qname)
        for raw in tuples:
            evals += 1
            blob = _st.pack(fmt, *raw)
            try:
                val = se.BufferReader("<", blob).read(qspec)
                w = se.BufferWriter("<")
                w.write(qspec, val)
                back = w.copy_buffer()
            except Exception as ex:  # noqa
                fail(f"{qname}: wire integers {raw} raised {type(ex).__name__}: {ex}", {"spec": qname, "raw": list(raw)}, "packedquat/roundtrip")
                break
            if bytes(back) != blob:
                fail(f"{qname}: wire integers {raw} decode to {tuple(val)} and re-encode to {_st.unpack(fmt, bytes(back))}", {"spec": qname, "raw": list(raw)},
                     "packedquat/roundtrip")
                break
    return {"name": "quantized-enumeration", "evaluations": evals, "distinct_nontrivial": len(seen), "exhaustive": True,
            "rule": "every raw value of the wire type of every live QuantizedFloat/PackedTERotation/FixedPoint instance (complete); "
                    f"QuantizedTime over {len(durations)} durations x raws (step {step}); numpy variant over all 65536 raws; packed-quaternion wrappers over corner and random tuples; "
                    "distinct = distinct instances / durations", "bounded": True,
            "bounds": {"instances": len(seen), "time_raw_step": step}, "samples": samples, "failures": failures}
