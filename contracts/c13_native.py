"""C13 bounded tier: hand-optimised compressed-object decoder vs the declarative template.

Payloads are built by an independent byte-level encoder of the compressed object-update format (struct packing written
from the format description, no use of the repo's serializers), over all 2^11 optional-section flag sets x object kinds x
generated section contents, plus byte mutations that keep the framing intact. For every payload p:

  agree      FastObjectUpdateCompressedDataDeserializer.read(p) and ObjectUpdateCompressedDataSerializer (TEMPLATE) give the
             same field set and equal field values (lazy members forced, compared structurally)
  accept     the two decoders agree on whether p is decodable at all
  roundtrip  re-encoding the template's result through the template gives p
  reencode   re-encoding the fast decoder's result through the template gives p
  tracker    normalize_object_update_compressed (network block) and normalize_object_update_compressed_data (cache entry read
             back from a .slc file) show the values the template shows, and the message-level subfield path
             (Block.deserialize_var / serialize_var) reproduces the payload
"""
import dataclasses
import enum
import hashlib
import logging
import os
import random
import struct
import tempfile
import uuid

# section flag bits of the wire format (format constants, deliberately not read from the repo)
F_SCRATCHPAD, F_TREE, F_TEXT, F_PARTICLES, F_SOUND, F_PARENT, F_TEXANIM, F_ANGVEL, F_NAMEVALUES, F_MEDIAURL, F_PARTICLES_NEW = \
    (1 << i for i in range(11))
N_FLAG_BITS = 11

PCODE_PRIMITIVE, PCODE_AVATAR, PCODE_GRASS, PCODE_NEW_TREE, PCODE_PARTICLES, PCODE_TREE = 9, 47, 95, 111, 143, 255
KNOWN_PCODES = (PCODE_PRIMITIVE, PCODE_AVATAR, PCODE_GRASS, PCODE_NEW_TREE, PCODE_PARTICLES, PCODE_TREE)
OTHER_KNOWN = (PCODE_GRASS, PCODE_NEW_TREE, PCODE_PARTICLES, PCODE_TREE)

# offsets inside the fixed header: FullID 16, ID 4, kind 1, State 1, CRC 4, Material 1, ClickAction 1, Scale/Position/Rotation 3x12, Flags 4, OwnerID 16
OFF_ID, OFF_PCODE, OFF_CRC, OFF_FLAGS = 16, 20, 22, 64
QNAN = bytes.fromhex("0000c07f")
F32_POOL = [struct.pack("<f", x) for x in (0.0, -0.0, 1.0, -1.0, 0.5, 0.25, 2.0, 39.0, 128.0, 255.996, 1e-3, -64.5, 3.4028234663852886e38,
                                           -3.4028234663852886e38, float("inf"), float("-inf"), 1.401298464324817e-45)] + [QNAN]
BYTE_POOL = (0x00, 0x01, 0x32, 0x7F, 0x80, 0x81, 0xCE, 0xFE, 0xFF)
# (the strings are NUL-terminated on the wire, with no length limit of their own: 255, 256 and longer ones included)
TEXTS = ["", "a", "hello", "Hover text\nsecond line", "héllo wörld", "日本語 \U0001F600", "x" * 254, "tab\there", "y" * 255, "z" * 256, "w" * 257,
         "long line " * 60, "é" * 300]
URLS = ["", "http://example.com/", "https://example.com/a/b?c=d&e=%20f#g", "x-mv:0000000001/hippo", "http://ü.example/✓",
        "http://example.com/" + "p" * 236, "http://example.com/" + "q" * 237, "http://example.com/?" + "k=v&" * 200]
EXTRA_TYPES = (0x10, 0x20, 0x30, 0x40, 0x60, 0x70, 0x80, 0x90)
# blob captured from a real simulator (public test data): TE of a default prim with one tinted face set
REAL_TE = bytes.fromhex("1c9f4a6f498d48a09dc4262727193d67000000003300666686bf006666863f00000000000000000000000000000000"
                        "8955674724cb43ed920b47caed15465f")


class Payload:
    """bytes under construction + the layout of regions that may be mutated without touching the framing"""

    def __init__(self):
        self.buf = bytearray()
        self.regions = []   # (name, offset, size, kind)  kind in raw|f32|ascii|pcode|flags

    def add(self, name, data, kind=None):
        if kind is not None and len(data):
            self.regions.append((name, len(self.buf), len(data), kind))
        self.buf += data


class ContentGen:
    def __init__(self, rng):
        self.rng = rng

    def byte(self):
        r = self.rng
        return r.choice(BYTE_POOL) if r.random() < 0.5 else r.getrandbits(8)

    def u16(self):
        r = self.rng
        return r.choice((0, 1, 100, 0x7FFF, 0x8000, 0xFFFE, 0xFFFF, 25600, 50000)) if r.random() < 0.5 else r.getrandbits(16)

    def u32(self):
        r = self.rng
        return r.choice((0, 1, 1234, 0x7FFFFFFF, 0x80000000, 0xFFFFFFFF, 0x01020304)) if r.random() < 0.4 else r.getrandbits(32)

    def f32(self):
        r = self.rng
        x = r.random()
        if x < 0.45:
            return r.choice(F32_POOL)
        if x < 0.8:
            return struct.pack("<f", r.uniform(-256.0, 256.0))
        while True:
            b = struct.pack("<I", r.getrandbits(32))
            v = struct.unpack("<f", b)[0]
            if v == v:      # any finite/infinite pattern; signalling NaNs are not preserved by float conversion on any path
                return b

    def unit_f32(self):
        r = self.rng
        return r.choice(F32_POOL) if r.random() < 0.2 else struct.pack("<f", r.uniform(-1.0, 1.0))

    def uuid(self):
        r = self.rng
        x = r.random()
        if x < 0.15:
            return bytes(16)
        if x < 0.2:
            return b"\xff" * 16
        return bytes(r.getrandbits(8) for _ in range(16))

    def blob(self, n):
        return bytes(self.byte() for _ in range(n))

    # ---- sections -------------------------------------------------------------------------------------------------
    def psys(self):
        # CRC, PSysFlags, Pattern, MaxAge, StartAge, InnerAngle, OuterAngle, BurstRate, BurstRadius, SpeedMin, SpeedMax, PartCount,
        # Vel 3xU16, Accel 3xU16, Texture, Target
        return (struct.pack("<II", self.u32(), self.u32()) + self.blob(1) + struct.pack("<HH", self.u16(), self.u16()) + self.blob(2)
                + struct.pack("<HHHH", self.u16(), self.u16(), self.u16(), self.u16()) + self.blob(1)
                + struct.pack("<6H", *(self.u16() for _ in range(6))) + self.uuid() + self.uuid())

    def pdata(self, glow, blend):
        flags = self.u32() & ~0x30000
        flags |= (0x10000 if glow else 0) | (0x20000 if blend else 0)
        out = struct.pack("<IH", flags, self.u16()) + self.blob(4) + self.blob(4) + self.blob(4)
        if glow:
            out += self.blob(2)
        if blend:
            out += bytes(self.rng.choice((0, 1, 7, 9, 200)) for _ in range(2))
        return out

    def ps_legacy(self):
        out = self.psys() + self.pdata(False, False)
        assert len(out) == 86
        return out

    def ps_new(self):
        r = self.rng
        k = r.choice(("empty", "legacy", "new", "new", "new"))
        if k == "empty":
            return b""
        if k == "legacy":
            return self.ps_legacy()
        ps, pd = self.psys(), self.pdata(r.random() < 0.5, r.random() < 0.5)
        return struct.pack("<i", len(ps)) + ps + struct.pack("<i", len(pd)) + pd

    def extra_params(self):
        r = self.rng
        n = r.choice((0, 0, 1, 1, 2, 3, len(EXTRA_TYPES)))
        types = r.sample(EXTRA_TYPES, n)
        out = bytes([n])
        for t in types:
            if t == 0x10:       # flexible: 4 packed bytes, optional trailing user force
                body = self.blob(4) + (b"".join(self.f32() for _ in range(3)) if r.random() < 0.5 else b"")
            elif t == 0x20:     # light: colour, radius, cutoff, falloff
                body = self.blob(4) + self.f32() + self.f32() + self.f32()
            elif t in (0x30, 0x60):   # sculpt / mesh: asset id + type byte
                body = self.uuid() + self.blob(1)
            elif t == 0x40:     # light image: texture, fov, focus, ambiance
                body = self.uuid() + self.f32() + self.f32() + self.f32()
            elif t == 0x70:     # extended mesh flags
                body = struct.pack("<I", self.u32())
            elif t == 0x80:     # render material: count x (te index, material id)
                k = r.choice((0, 1, 2, 5))
                body = bytes([k]) + b"".join(self.blob(1) + self.uuid() for _ in range(k))
            else:               # reflection probe: ambiance, clip distance, flags
                body = self.f32() + self.f32() + self.blob(1)
            out += struct.pack("<HI", t, len(body)) + body
        return out

    def name_values(self):
        r = self.rng
        lines = []
        for i in range(r.choice((1, 1, 2, 3))):
            typ = r.choice(("STRING", "F32", "S32", "VEC3", "U32", "ASSET", "U64"))
            val = {"STRING": r.choice(("", "hello world", "a  b", "üml")), "F32": "1.5", "S32": "-3", "VEC3": "<1, 2, 3>", "U32": "7",
                   "ASSET": "89556747-24cb-43ed-920b-47caed15465f", "U64": "18446744073709551615"}[typ]
            lines.append(f"{r.choice(('AttachItemID', 'FirstName', 'Title', 'n' + str(i)))} {typ} {r.choice(('R', 'RW'))} "
                         f"{r.choice(('S', 'DS', 'SV', 'DSV'))} {val}")
        return "\n".join(lines).encode("utf8") + b"\x00"

    @staticmethod
    def face_bits(faces):
        packed = 0
        for f in faces:
            packed |= 1 << f
        groups = []
        while packed:
            groups.append(packed & 0x7F)
            packed >>= 7
        groups.reverse()
        return bytes(g | (0x80 if i < len(groups) - 1 else 0) for i, g in enumerate(groups))

    def te(self):
        r = self.rng
        k = r.random()
        if k < 0.12:
            return b""
        if k < 0.22:
            return REAL_TE

        def s16_rot():
            v = r.choice((0, 1, -1, 32767, -32767, 16384)) if r.random() < 0.5 else r.randint(-32767, 32767)
            return struct.pack("<h", v)       # -32768 is the one raw rotation that does not re-encode (recorded for another property)
        makers = [self.uuid, lambda: self.blob(4), self.f32, self.f32, lambda: struct.pack("<H", self.u16()), lambda: struct.pack("<H", self.u16()),
                  s16_rot, lambda: self.blob(1), lambda: self.blob(1), lambda: self.blob(1)]
        if r.random() < 0.7:
            makers.append(self.uuid)      # optional trailing materials field
        out = b""
        for i, mk in enumerate(makers):
            if i:
                out += b"\x00"
            out += mk()
            used = set()
            for _ in range(r.choice((0, 0, 0, 1, 2))):
                faces = tuple(sorted(r.sample(range(r.choice((7, 8, 14, 45))), r.choice((1, 1, 2, 4)))))
                if faces in used:
                    continue
                used.add(faces)
                out += self.face_bits(faces) + mk()
        return out

    def tex_anim(self):
        return self.blob(4) + self.f32() + self.f32() + self.f32()

    # ---- whole payload --------------------------------------------------------------------------------------------
    def payload(self, flags, pcode, edge=None):
        r = self.rng
        p = Payload()
        p.add("FullID", self.uuid(), "raw")
        p.add("ID", struct.pack("<I", self.u32()), "raw")
        p.add("PCode", bytes([pcode]), "pcode")
        p.add("State", bytes([self.byte()]), "raw")
        p.add("CRC", struct.pack("<I", self.u32()), "raw")
        p.add("Material", bytes([r.choice((0, 1, 3, 4, 5, 6, 7, 2, 8, 0x13, 0xFF)) if r.random() < 0.8 else self.byte()]), "raw")
        p.add("ClickAction", bytes([self.byte()]), "raw")
        p.add("Scale", self.f32() + self.f32() + self.f32(), "f32")
        p.add("Position", self.f32() + self.f32() + self.f32(), "f32")
        p.add("Rotation", self.unit_f32() + self.unit_f32() + self.unit_f32(), "f32")
        p.add("Flags", struct.pack("<I", flags), "flags")
        p.add("OwnerID", self.uuid(), "raw")
        if flags & F_ANGVEL:
            p.add("AngularVelocity", self.f32() + self.f32() + self.f32(), "f32")
        if flags & F_PARENT:
            p.add("ParentID", struct.pack("<I", self.u32()), "raw")
        if flags & F_TREE:
            p.add("TreeSpecies", bytes([self.byte()]), "raw")
        if flags & F_SCRATCHPAD:
            n = r.choice((0, 1, 3, 4, 16, 255, 300))
            p.add("ScratchPad.len", struct.pack("<I", n))
            p.add("ScratchPad", self.blob(n), "raw")
        if flags & F_TEXT:
            t = r.choice(TEXTS)
            p.add("Text", t.encode("utf8"), "ascii" if t.isascii() else None)
            p.add("Text.nul", b"\x00")
            p.add("TextColor", self.blob(4), "raw")
        if flags & F_MEDIAURL:
            t = r.choice(URLS)
            p.add("MediaURL", t.encode("utf8"), "ascii" if t.isascii() else None)
            p.add("MediaURL.nul", b"\x00")
        if flags & F_PARTICLES:
            p.add("PSBlock", self.ps_legacy())
        p.add("ExtraParams", self.extra_params())
        if flags & F_SOUND:
            p.add("Sound", self.uuid(), "raw")
            p.add("SoundGain", self.f32(), "f32")
            p.add("SoundFlags", bytes([self.byte()]), "raw")
            p.add("SoundRadius", self.f32(), "f32")
        if flags & F_NAMEVALUES:
            p.add("NameValue", b"\x00" if edge == "empty-namevalue" else self.name_values())
        p.add("PrimParams", self.blob(23), "raw")
        te = self.te()
        p.add("TextureEntry", struct.pack("<I", len(te)) + te)
        if flags & F_TEXANIM:
            ta = self.tex_anim()
            p.add("TextureAnim.len", struct.pack("<I", len(ta)))
            p.add("TextureAnim.ints", ta[:4], "raw")
            p.add("TextureAnim.floats", ta[4:], "f32")
        if flags & F_PARTICLES_NEW:
            p.add("PSBlockNew", self.ps_new())
        return p


def mutate(rng, p, known_pcodes):
    """1-3 byte-level changes inside regions whose every byte pattern is well-formed; framing bytes are never touched"""
    buf = bytearray(p.buf)
    what = []
    for _ in range(rng.choice((1, 1, 2, 3))):
        name, off, size, kind = rng.choice(p.regions)
        i = off + rng.randrange(size)
        if kind == "pcode":
            buf[i] = rng.choice(known_pcodes)
        elif kind == "flags":
            # only the bits above the 11 section bits: they select no section
            v = struct.unpack_from("<I", buf, off)[0] ^ (1 << rng.randrange(N_FLAG_BITS, 32))
            struct.pack_into("<I", buf, off, v)
        elif kind == "ascii":
            buf[i] = rng.choice((0x01, 0x20, 0x41, 0x7E, 0x7F, 0x0A))
        else:
            m = rng.random()
            if m < 0.4:
                buf[i] = rng.choice(BYTE_POOL)
            elif m < 0.7:
                buf[i] ^= 1 << rng.randrange(8)
            else:
                buf[i] = rng.getrandbits(8)
            if kind == "f32":
                j = off + ((i - off) // 4) * 4
                v = struct.unpack_from("<f", buf, j)[0]
                if v != v:
                    buf[j:j + 4] = QNAN
        what.append(name)
    return bytes(buf), what


# ---- structural comparison -------------------------------------------------------------------------------------------
_KINDS = {}


def _classify(t):
    import lazy_object_proxy
    from hippolyzer.lib.base import datatypes as dt
    if issubclass(t, lazy_object_proxy.Proxy):
        return "proxy"
    if t is type(None):
        return "none"
    if issubclass(t, enum.Enum):
        return "enum"
    if issubclass(t, int):
        return "int"
    if issubclass(t, float):
        return "float"
    if issubclass(t, str):
        return "str"
    if issubclass(t, (bytes, bytearray, memoryview)):
        return "bytes"
    if issubclass(t, uuid.UUID):
        return "uuid"
    if issubclass(t, dt.TaggedUnion):
        return "tagged"
    if issubclass(t, dt.TupleCoord):
        return "coord"
    if dataclasses.is_dataclass(t):
        return "dataclass"
    if issubclass(t, dict):
        return "dict"
    if issubclass(t, (list, tuple)):
        return "list"
    return "other"


def canon(v):
    """structural normal form: enum members as their values, floats by bit pattern, lazy members forced, dataclasses by field"""
    t = type(v)
    k = _KINDS.get(t)
    if k is None:
        k = _KINDS[t] = _classify(t)
    if k == "int":
        return int(v)
    if k == "none":
        return None
    if k == "float":
        return "f:" + struct.pack("<d", v).hex()
    if k == "enum":
        return canon(v.value)
    if k == "str":
        return "s:" + str.__str__(v)
    if k == "bytes":
        return "y:" + bytes(v).hex()
    if k == "uuid":
        return "u:" + v.hex
    if k == "dict":
        return ["d"] + [[canon(a), canon(b)] for a, b in v.items()]
    if k == "list":
        return ["l"] + [canon(x) for x in v]
    if k == "dataclass":
        return [t.__name__] + [[f.name, canon(getattr(v, f.name))] for f in dataclasses.fields(v)]
    if k == "coord":
        return [t.__name__] + [canon(x) for x in tuple(v)]
    if k == "tagged":
        return ["TU", canon(v.tag), canon(v.value)]
    if k == "proxy":
        return canon(v.__wrapped__)
    return "r:" + repr(v)


def _short(x, n=160):
    s = repr(x)
    return s if len(s) <= n else s[:n] + "..."


def bounded_fast_vs_template(reg, tier, seed):
    import hippolyzer.lib.base.templates as tmpls
    from hippolyzer.lib.base import objects as objs
    from hippolyzer.lib.base.message.message import Message, Block
    Fast = objs.FastObjectUpdateCompressedDataDeserializer
    Ser = tmpls.ObjectUpdateCompressedDataSerializer
    rng = random.Random(seed)
    gen = ContentGen(rng)
    quick = tier == "quick"
    evals, failures, seen, samples = 0, [], set(), []
    stats = {"generated": 0, "generated_both_reject": 0, "both_reject": 0, "mutations": 0, "unknown_pcode": 0, "tracker": 0, "cache": 0}
    live_pcodes = sorted(int(x) for x in tmpls.PCode)

    def fail(key, clause, inp, observed):
        if sum(1 for f in failures if f["key"] == key) < 2:
            failures.append({"key": key, "clause": clause, "input": inp, "observed": observed})

    def decode_fast(data):
        try:
            v = Fast.read(data)
            return v, {k: canon(x) for k, x in v.items()}, None
        except Exception as e:  # noqa
            return None, None, f"{type(e).__name__}: {e}"

    def decode_tmpl(data):
        try:
            v = Ser.deserialize(None, data)
            return v, {k: canon(x) for k, x in v.items()}, None
        except Exception as e:  # noqa
            return None, None, f"{type(e).__name__}: {e}"

    def encode(v):
        try:
            return bytes(Ser.serialize(None, v)), None
        except Exception as e:  # noqa
            return None, f"{type(e).__name__}: {e}"

    def check(data, flags, pcode, origin, cls=None, reencode_fast=True):
        """all clauses for one payload; returns the template's value (or None)"""
        nonlocal evals
        evals += 1
        seen.add(hashlib.sha1(data).digest()[:10])
        inp = {"payload_hex": data.hex(), "flags": flags, "pcode": pcode, "origin": origin}
        if len(samples) < 3 and origin == "generated" and flags in (0x005, 0x2C3, 0x7FF):
            samples.append({"flags": flags, "pcode": pcode, "origin": origin, "payload_hex": data.hex()[:120] + "...", "bytes": len(data)})
        fv, fc, ferr = decode_fast(data)
        tv, tc, terr = decode_tmpl(data)
        if origin == "generated":
            stats["generated"] += 1
        if ferr and terr:
            stats["both_reject"] += 1
            if origin == "generated":
                stats["generated_both_reject"] += 1
            return None
        if ferr or terr:
            who = "hand-optimised decoder" if ferr else "declarative template"
            fail(f"{cls or 'fast-vs-template'}/accept", "a payload one decoder accepts is accepted by the other", inp,
                 f"{who} raised {ferr or terr}; the other decoded it")
            return None
        if set(fc) != set(tc):
            fail(f"{cls or 'fast-vs-template'}/field-set", "both decoders report the same set of fields", inp,
                 f"only fast: {sorted(set(fc) - set(tc))}; only template: {sorted(set(tc) - set(fc))}")
        diff = [k for k in tc if k in fc and fc[k] != tc[k]]
        if diff:
            k = diff[0]
            fail(f"{cls or 'fast-vs-template'}/field-values", "both decoders produce equal field values", dict(inp, fields=diff),
                 f"{k}: fast={_short(fv[k])} template={_short(tv[k])}" + (f" (+{len(diff) - 1} more fields)" if len(diff) > 1 else ""))
        enc, err = encode(tv)
        if enc != data:
            fail(f"{cls or 'template'}/roundtrip", "re-encoding the template's result through the template reproduces the payload", inp,
                 err or f"re-encoded to {len(enc)} bytes, payload has {len(data)}; first difference at byte "
                        f"{next((i for i, (a, b) in enumerate(zip(enc, data)) if a != b), min(len(enc), len(data)))}")
        if not reencode_fast:
            return tc
        enc, err = encode(fv)
        if enc != data:
            fail(f"{cls or 'fast-vs-template'}/reencode", "re-encoding the hand-optimised decoder's result through the template reproduces the payload",
                 inp, err or f"re-encoded to {len(enc)} bytes, payload has {len(data)}; first difference at byte "
                             f"{next((i for i, (a, b) in enumerate(zip(enc, data)) if a != b), min(len(enc), len(data)))}")
        return tc

    def check_tracker(data, flags, pcode, tc, via_cache):
        """the object tracker's normalised view (network block / cache entry) against the template's view of the same bytes"""
        nonlocal evals
        evals += 1
        stats["tracker"] += 1
        inp = {"payload_hex": data.hex(), "flags": flags, "pcode": pcode, "origin": "tracker"}
        handle = (256000 << 32) | 256512
        try:
            msg = Message("ObjectUpdateCompressed", Block("RegionData", RegionHandle=handle, TimeDilation=65535),
                          Block("ObjectData", UpdateFlags=0x10000104, Data=data))
            block = msg["ObjectData"][0]
            shown = block.deserialize_var("Data")
            sc = {k: canon(x) for k, x in shown.items()}
            if sc != tc:
                fail("tracker/message-subfield", "the message-level subfield view equals the template's result", inp,
                     f"differs in {sorted(k for k in set(sc) | set(tc) if sc.get(k, '?') != tc.get(k, '?'))[:4]}")
            block.serialize_var("Data", shown)
            if bytes(block["Data"]) != data:
                fail("tracker/message-subfield", "re-encoding the displayed value through the message-level subfield path reproduces the payload",
                     inp, f"{len(block['Data'])} bytes written, payload has {len(data)}")
            block["Data"] = data
            net = objs.normalize_object_update_compressed(block, handle)
        except Exception as e:  # noqa
            fail("tracker/network", "the object tracker's normalisation accepts a payload the template accepts", inp, f"{type(e).__name__}: {e}")
            return
        views = [("network", net)]
        if via_cache:
            stats["cache"] += 1
            try:
                from hippolyzer.lib.proxy.vocache import RegionViewerObjectCache
                local_id, crc = struct.unpack_from("<I", data, OFF_ID)[0], struct.unpack_from("<I", data, OFF_CRC)[0]
                with tempfile.TemporaryDirectory(prefix="c13-") as d:
                    path = os.path.join(d, "objects_1000_1002.slc")
                    with open(path, "wb") as fh:
                        fh.write(bytes(range(16)) + struct.pack("<i", 3))
                        fh.write(struct.pack("<IIiiii", 0xDEAD, 1, 0, 0, 0, 0))                  # entry without data
                        fh.write(struct.pack("<IIiiii", local_id, crc, 2, 0, 1, len(data)) + data)
                        fh.write(struct.pack("<IIiiii", 0xBEEF, 2, 0, 0, 0, 4) + b"abcd")
                    cached = RegionViewerObjectCache.from_file(path).lookup_object_data(local_id, crc)
                if cached is None or bytes(cached) != data:
                    fail("tracker/cache-entry", "a cache file entry returns the payload bytes that were stored", inp,
                         "lookup returned " + ("nothing" if cached is None else f"{len(cached)} different bytes"))
                else:
                    views.append(("cache", objs.normalize_object_update_compressed_data(cached)))
            except Exception as e:  # noqa
                fail("tracker/cache", "the cache path accepts a payload the template accepts", inp, f"{type(e).__name__}: {e}")
        ref = None
        for label, view in views:
            vc = {k: canon(x) for k, x in view.items()}
            bad = []
            for k, c in tc.items():
                if c is None or k in ("Flags", "PSBlock", "PSBlockNew"):
                    continue        # absent sections are given defaults by the normalisation; particle blocks are merged
                nk = "LocalID" if k == "ID" else k
                if nk == "OwnerID" and nk not in vc and c == "u:" + "0" * 32:
                    continue        # a null owner is deliberately not reported
                if nk not in vc or vc[nk] != c:
                    bad.append(k)
            ps = tc.get("PSBlockNew") if tc.get("PSBlockNew") is not None else tc.get("PSBlock")
            if ps is not None and vc.get("PSBlock") != ps[2]:
                bad.append("PSBlock")
            if (flags & F_PARENT) == 0 and vc.get("ParentID") != 0:
                bad.append("ParentID(absent)")
            if bad:
                fail(f"tracker/{label}-values", "the object tracker's normalised view carries the field values the template shows", dict(inp, fields=bad),
                     f"{bad[0]}: tracker={_short(view.get('LocalID' if bad[0] == 'ID' else bad[0].split('(')[0]))}")
            comparable = {k: c for k, c in vc.items() if k not in ("UpdateFlags", "RegionHandle")}
            if ref is None:
                ref = comparable
            elif comparable != ref:
                ks = sorted(k for k in set(ref) | set(comparable) if ref.get(k, "?") != comparable.get(k, "?"))
                fail("tracker/cache-vs-network", "the same payload normalises identically whether it came from the network or the cache", dict(inp, fields=ks),
                     f"differs in {ks[:4]}")

    prev_disable = logging.root.manager.disable
    logging.disable(logging.CRITICAL)      # the fast decoder logs every payload it mis-frames; the clauses below report it instead
    try:
        all_flags = list(range(1 << N_FLAG_BITS))
        draws = 1 if quick else 3
        for flags in all_flags:
            if quick:
                # the kind only selects how the State byte of the fixed header is shown, independently of the sections: rotate instead of crossing
                kinds = ((PCODE_AVATAR, PCODE_PRIMITIVE)[(flags + seed) % 2], OTHER_KNOWN[(flags // 2 + seed) % len(OTHER_KNOWN)])
            else:
                kinds = KNOWN_PCODES
            for pcode in kinds:
                for d in range(draws):
                    p = gen.payload(flags, pcode)
                    data = bytes(p.buf)
                    tc = check(data, flags, pcode, "generated")
                    if tc is not None and rng.random() < (0.04 if quick else 0.06):
                        check_tracker(data, flags, pcode, tc, via_cache=len(data) <= 10000 and rng.random() < 0.5)
                    # byte mutations that keep the framing
                    for _ in range(rng.choice((0, 0, 1)) if quick else rng.choice((0, 1, 2))):
                        mdata, what = mutate(rng, p, KNOWN_PCODES)
                        if mdata == data:
                            continue
                        stats["mutations"] += 1
                        mflags = struct.unpack_from("<I", mdata, OFF_FLAGS)[0]
                        check(mdata, mflags, mdata[OFF_PCODE], "mutated:" + ",".join(what))
        # object kinds outside the enumerated ones (the kind byte is a bitmask on the wire; the template shows them as plain numbers)
        unknown = [b for b in range(256) if b not in live_pcodes]
        for b in ([0, 1, 10, 0x1F, 0x2E, 0x30, 0x8E, 0xFE] if quick else unknown):
            if b in live_pcodes:
                continue
            for flags in (0, rng.randrange(1 << N_FLAG_BITS), (1 << N_FLAG_BITS) - 1):
                stats["unknown_pcode"] += 1
                check(bytes(gen.payload(flags, b).buf), flags, b, "unknown-kind", cls="unknown-kind")
        # a name-value section that is present but empty
        for flags in (F_NAMEVALUES, F_NAMEVALUES | F_TEXT | F_SOUND, (1 << N_FLAG_BITS) - 1):
            for pcode in (PCODE_PRIMITIVE, PCODE_AVATAR):
                check(bytes(gen.payload(flags, pcode, edge="empty-namevalue").buf), flags, pcode, "empty-namevalue", cls="empty-namevalue")
    finally:
        logging.disable(prev_disable)

    n_flags = 1 << N_FLAG_BITS
    if stats["generated"] and stats["generated_both_reject"] * 2 > stats["generated"]:
        # both decoders refuse most of what this encoder produces: the format moved on both sides and the comparison has become vacuous
        fail("generator/out-of-domain", "the generated payloads are in the decoders' domain (otherwise nothing is being compared)",
             {"generated": stats["generated"], "rejected_by_both": stats["generated_both_reject"]}, "more than half of the generated payloads are rejected by both decoders")
    return {"name": "fast-vs-template", "evaluations": evals, "distinct_nontrivial": len(seen),
            "rule": f"independent byte-level encoder of the compressed object-update format: all {n_flags} section-flag sets x "
                    f"{'2 kinds (avatar/primitive alternating + one rotating other kind)' if quick else 'all 6 enumerated kinds'} x {draws} draw(s) of section contents "
                    "(boundary-biased ints/floats/ids, texts, urls, legacy and new particle blocks, 0-8 extra params, name values, texture entries "
                    "with per-face exceptions, texture animation) + 1-3 byte mutations inside regions that do not carry framing (any byte of numeric "
                    "fields, high flag bits, kind byte, text characters) + unenumerated kind bytes + empty name-value section; a sample of payloads "
                    "also goes through the message-level subfield path, the tracker's network normalisation and a cache file. "
                    "distinct = distinct payload bytes", "bounded": True,
            "bounds": {"flag_sets": n_flags, "kinds_per_flag_set": 2 if quick else 6, "draws": draws, "stats": stats},
            "samples": samples, "failures": failures}
