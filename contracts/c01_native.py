"""Bounded tiers of C01 (codec round trip over all templates) and C02 (pass-through fidelity)."""
import random
import struct

from contracts import msggen


def _codec(deferred=False):
    from hippolyzer.lib.base.message.udpserializer import UDPMessageSerializer
    from hippolyzer.lib.base.message.udpdeserializer import UDPMessageDeserializer
    from hippolyzer.lib.base.settings import Settings
    s = Settings()
    s.ENABLE_DEFERRED_PACKET_PARSING = deferred
    return UDPMessageSerializer(), UDPMessageDeserializer(settings=s)


def bounded_roundtrip(reg, tier, seed):
    from hippolyzer.lib.base.message.msgtypes import MsgBlockType, PacketFlags
    rng = random.Random(seed)
    ser, de = _codec()
    evals, failures, seen, samples = 0, [], set(), []
    tmpls = msggen.templates()
    reps = 3 if tier == "quick" else 12

    def fail(what, inp):
        if len(failures) < 5:
            failures.append({"key": "roundtrip/bounded", "clause": what, "input": inp, "observed": what})
    for t in tmpls:
        has_var = any(b.block_type == MsgBlockType.MBT_VARIABLE for b in t.blocks)
        variants = [("rand", False), ("one", True)] + ([("min", False)] if has_var else [])
        if tier == "thorough" and has_var:
            variants.append(("max", False))
        for counts, boundary in variants * reps:
            flags = rng.choice([0, 0x40, 0x80, 0xC0, 0x20, 0xE0])
            acks = rng.choice([None, None, (1,), tuple(rng.randrange(2 ** 32) for _ in range(rng.choice([2, 5, 255]))),
                               tuple(rng.randrange(1, 300) for _ in range(rng.choice([30, 64, 255])))])
            extra = rng.choice([b"", b"", b"\x07", bytes(rng.getrandbits(8) for _ in range(rng.choice([2, 13, 255]))),
                                b"\x00\x07" * rng.choice([6, 20, 100]), b"\x00" * rng.choice([1, 12, 255]),
                                bytes(rng.choice((0, 0, 1, 255)) for _ in range(rng.choice([12, 40, 255])))])
            try:
                m = msggen.gen_message(t, rng, boundary=boundary, counts=counts, flags=flags, acks=acks, extra=extra,
                                       packet_id=rng.choice([0, 1, 2 ** 32 - 1, rng.randrange(2 ** 32)]))
            except Exception as e:  # noqa
                fail(f"generator failed for {t.name}: {e!r}", t.name)
                continue
            evals += 1
            inp = {"message": t.name, "counts": counts, "boundary": boundary, "flags": flags, "n_acks": len(acks or ()), "extra_len": len(extra)}
            if rng.random() < 0.2:
                # the serializer is long-lived (one per circuit): a message it rejected part-way (a block with an unset field) must
                # leave nothing behind for the next one
                try:
                    from hippolyzer.lib.base.message.message import Message as _RM, Block as _RB
                    ser.serialize(_RM("ChatFromViewer", _RB("AgentData", AgentID=None, SessionID=None), _RB("ChatData", Message="rejected")))
                except Exception:  # noqa
                    pass
            try:
                data = ser.serialize(m)
            except Exception as e:  # noqa
                if counts == "max" and len(str(e)) >= 0:
                    seen.add((t.name, counts, "unserialisable"))
                    continue
                fail(f"{t.name}: serialize raised {e!r}", inp)
                continue
            seen.add((t.name, counts, boundary, flags, len(acks or ()), len(extra)))
            if len(samples) < 3:
                samples.append(dict(inp, datagram=data.hex()[:100]))
            try:
                m2 = de.deserialize(data)
            except Exception as e:  # noqa
                if len(data) > 0x3000 and (flags & 0x80):
                    continue      # beyond the zero-coding cap: refusal is the specified behaviour (C03)
                fail(f"{t.name}: decode of its own encoding raised {e!r}", inp)
                continue
            if not msggen.same_message(m, m2):
                fail(f"{t.name}: decoded message differs from the encoded one", inp)
            if ser.serialize(m2) != data:
                fail(f"{t.name}: re-encoding the decoded message gives different bytes", inp)
    # default filling: every variable of every template left unset
    from hippolyzer.lib.base.message.message import Message, Block
    for t in tmpls:
        blocks = []
        for tb in t.blocks:
            n = tb.number if tb.block_type == MsgBlockType.MBT_MULTIPLE else 1
            for _ in range(n):
                b = Block(tb.name)
                b.fill_missing = True
                blocks.append(b)
        evals += 1
        seen.add((t.name, "default-fill"))
        try:
            m = Message(t.name, *blocks, packet_id=5)
            data = ser.serialize(m)
            m2 = de.deserialize(data)
            width = 0
            from contracts.udp_common import wire_width
            for tb in t.blocks:
                n = tb.number if tb.block_type == MsgBlockType.MBT_MULTIPLE else 1
                width += (1 if tb.block_type == MsgBlockType.MBT_VARIABLE else 0) + n * sum(wire_width(v) for v in tb.variables)
            body = data[6 + len(t.freq_num_bytes):]
            if len(body) != width:
                fail(f"{t.name}: default-filled body is {len(body)} bytes, the template prescribes {width}", t.name)
            elif any(body[(1 if t.blocks and t.blocks[0].block_type == MsgBlockType.MBT_VARIABLE else 0):]) and not any(
                    tb.block_type == MsgBlockType.MBT_VARIABLE for tb in t.blocks):
                fail(f"{t.name}: default-filled body is not all zero", t.name)
            if ser.serialize(m2) != data:
                fail(f"{t.name}: default-filled datagram does not survive decode/encode", t.name)
        except Exception as e:  # noqa
            fail(f"{t.name}: default-filled message is not well formed: {e!r}", t.name)
    # finite side facts, complete: (frequency, num) -> template injective; freq_num_bytes parses back
    from hippolyzer.lib.base.message.udpdeserializer import _parse_msg_num
    import hippolyzer.lib.base.serialization as se
    pairs = {}
    for t in tmpls:
        evals += 1
        r = se.BufferReader("!", t.freq_num_bytes + b"\x00\x00\x00")
        freq, num = _parse_msg_num(r)
        got = de.template_dict.get_template_by_pair(freq, num)
        if got is None or got.name != t.name:
            fail(f"{t.name}: message number bytes {t.freq_num_bytes.hex()} parse back to {getattr(got, 'name', None)}", t.name)
        if (freq, num) in pairs:
            fail(f"{t.name} and {pairs[(freq, num)]} share (frequency, number)", t.name)
        pairs[(freq, num)] = t.name
    # the assumed per-type pack/unpack pair law (conformance sampler of the trusted base)
    from hippolyzer.lib.base.message.data_packer import TemplateDataPacker
    from contracts.udp_common import live_var_instances
    for (tname, size), (mn, bn, tv) in live_var_instances().items():
        for i in range(20 if tier == "quick" else 200):
            v = msggen.gen_value(tv, rng, boundary=(i % 3 == 0), text_mode="bytes")
            evals += 1
            try:
                p = TemplateDataPacker.pack(v, tv.type)
                u = TemplateDataPacker.unpack(p, tv.type)
                if TemplateDataPacker.pack(u, tv.type) != p:
                    fail(f"pack/unpack pair law fails for {tname}", {"type": tname, "value": repr(v)[:80]})
            except Exception as e:  # noqa
                fail(f"pack/unpack raised for {tname}: {e!r}", {"type": tname, "value": repr(v)[:80]})
    return {"name": "codec-roundtrip-all-templates", "evaluations": evals, "distinct_nontrivial": len(seen),
            "rule": f"all {len(tmpls)} templates x block-count modes x boundary/seeded values per wire type x flag sets x acks {{0,1,2,5,255}} x "
                    "extra {0,1,2,13,255 bytes}; default-fill of every template; complete check of message-number bijection; per-type "
                    "pack/unpack pair law sampler. distinct = distinct (template, counts, boundary, flags, acks, extra)",
            "bounded": True, "bounds": {"reps": reps}, "samples": samples, "failures": failures}


# ---------------------------------------------------------------------------------------------------------
def _noncanonical_zerocode(body: bytes, rng):
    """re-zero-code a body non-canonically (split runs, wrap form): still decodes to the same bytes"""
    out = bytearray()
    i = 0
    while i < len(body):
        if body[i] == 0:
            j = i
            while j < len(body) and body[j] == 0:
                j += 1
            run = j - i
            while run > 0:
                k = rng.randint(1, min(run, 255))
                out += bytes([0, k])
                run -= k
            i = j
        else:
            out.append(body[i])
            i += 1
    return bytes(out)


def _ref_zero_code(body: bytes) -> bytes:
    """the canonical zero-coding, written out independently of the library: every maximal run of n zeros becomes
    (00 FF) * (n // 255) followed by 00 (n % 255) when the remainder is non-zero; everything else is copied"""
    out = bytearray()
    i = 0
    while i < len(body):
        if body[i] != 0:
            out.append(body[i])
            i += 1
            continue
        j = i
        while j < len(body) and body[j] == 0:
            j += 1
        n = j - i
        out += b"\x00\xff" * (n // 255)
        if n % 255:
            out += bytes([0, n % 255])
        i = j
    return bytes(out)


def bounded_passthrough(reg, tier, seed):
    from hippolyzer.lib.base.message.udpdeserializer import UDPMessageDeserializer
    from contracts.C03 import n_CS
    rng = random.Random(seed)
    ser, de_eager = _codec(False)
    _, de_lazy = _codec(True)
    evals, failures, seen, samples = 0, [], set(), []
    tmpls = msggen.templates()
    if tier == "quick":
        rng.shuffle(tmpls)
        tmpls = tmpls[:200]

    def fail(what, inp):
        if sum(1 for f in failures if f["key"] == "passthrough/bounded") < 5:
            failures.append({"key": "passthrough/bounded", "clause": what, "input": inp, "observed": what})

    from hippolyzer.lib.base.message.message import Message as _BadM, Block as _BadB

    def reencode(data, order):
        """returns (bytes or exception, message)"""
        if rng.random() < 0.15:
            # the serializer is a long-lived object (one per circuit): an encoding that failed earlier (here: a message with unset
            # fields) must leave nothing behind in it
            try:
                ser.serialize(_BadM("ChatFromViewer", _BadB("AgentData", AgentID=None), _BadB("ChatData", Message="x")))
            except Exception:  # noqa
                pass
        if order == "eager":
            m = de_eager.deserialize(data)
            return ser.serialize(m), m
        m = de_lazy.deserialize(data)
        if order == "header":
            _ = (m.name, m.packet_id, m.acks, m.extra, m.send_flags)
        elif order == "blocks":
            _ = m.blocks
        elif order == "failing_blocks":
            try:
                _ = m.blocks
            except Exception:  # noqa
                pass
        return ser.serialize(m), m
    for t in tmpls:
        try:
            m = msggen.gen_message(t, rng, boundary=rng.random() < 0.4, flags=rng.choice([0, 0x40, 0x80, 0xC0]),
                                   acks=rng.choice([None, (3, 9)]), extra=rng.choice([b"", b"\x01\x02"]))
            # a BOOL travels as one byte and peers are not obliged to send only 0 or 1
            from hippolyzer.lib.base.message.msgtypes import MsgType as _MT
            for tb_ in t.blocks:
                for tv_ in tb_.variables:
                    if tv_.type == _MT.MVT_BOOL and rng.random() < 0.5:
                        for b_ in m.blocks.get(tb_.name, []):
                            b_[tv_.name] = rng.choice([2, 0x7f, 0x80, 0xff])
            base = ser.serialize(m)
        except Exception:  # noqa
            continue
        variants = [("as-encoded", base)]
        body_end = len(base) - (1 + 4 * base[-1] if base[0] & 0x10 else 0)
        if m.zerocoded:
            # what a peer puts on the wire for this message: the canonical zero-coding of the plain body, whether or not it is
            # shorter than the plain body (built without the library's serializer deciding anything about zero-coding)
            try:
                m.send_flags = m.send_flags & ~0x80
                plain = ser.serialize(m)
                pe = len(plain) - (1 + 4 * plain[-1] if plain[0] & 0x10 else 0)
                variants.append(("as-a-peer-encodes-it", bytes([plain[0] | 0x80]) + plain[1:6] + _ref_zero_code(plain[6:pe]) + plain[pe:]))
            except Exception:  # noqa
                pass
        # a datagram that ends before its trailing Variable block (the sender left it out altogether, rather than sending a zero count)
        try:
            from hippolyzer.lib.base.message.msgtypes import MsgBlockType as _BT
            if t.blocks and t.blocks[-1].block_type == _BT.MBT_VARIABLE and len(t.blocks) > 1 and t.blocks[-1].name in m.blocks:
                import copy as _cp
                m_short = _cp.deepcopy(m)
                del m_short.blocks[t.blocks[-1].name]
                variants.append(("trailing-block-absent", ser.serialize(m_short)))
        except Exception:  # noqa
            pass
        if base[0] & 0x80:
            exp = bytes(UDPMessageDeserializer.zero_code_expand(base[6:body_end]))
            variants.append(("non-canonical-zerocode", base[:6] + _noncanonical_zerocode(exp, rng) + base[body_end:]))
        if body_end - 6 > 2:
            cut = rng.randrange(6 + 1, body_end)
            variants.append(("truncated-body", base[:cut] + base[body_end:]))
            variants.append(("extended-body", base[:body_end] + bytes(rng.getrandbits(8) for _ in range(3)) + base[body_end:]))
            mpos = rng.randrange(6, body_end)
            variants.append(("mutated-byte", base[:mpos] + bytes([base[mpos] ^ (1 << rng.randrange(8))]) + base[mpos + 1:]))
        for vname, data in variants:
            try:
                hdr_msg = de_lazy.deserialize(data)
            except Exception:  # noqa
                continue           # not accepted by the header parser: outside the property's quantifier
            canonical = True
            if data[0] & 0x80:
                be = len(data) - (1 + 4 * data[-1] if data[0] & 0x10 else 0)
                try:
                    canonical = _ref_zero_code(bytes(UDPMessageDeserializer.zero_code_expand(data[6:be]))) == data[6:be]
                except ValueError:
                    canonical = False
            try:
                ref = de_eager.deserialize(data)
                parses = True
            except Exception:  # noqa
                ref, parses = None, False
            for order in ("never", "header", "blocks", "eager", "failing_blocks"):
                if order in ("blocks", "eager") and not parses:
                    continue
                if order == "failing_blocks" and parses:
                    continue
                evals += 1
                seen.add((t.name, vname, order))
                inp = {"message": t.name, "variant": vname, "order": order, "datagram": data.hex()[:160]}
                if len(samples) < 3:
                    samples.append(inp)
                try:
                    out, msg = reencode(data, order)
                except Exception as e:  # noqa
                    fail(f"{vname}/{order}: re-encoding raised {type(e).__name__}: {e}", inp)
                    continue
                lossless_variant = vname in ("as-encoded", "non-canonical-zerocode", "as-a-peer-encodes-it", "truncated-body", "trailing-block-absent")
                if order in ("never", "header", "failing_blocks"):
                    if out != data:
                        fail(f"{vname}/{order}: body never (successfully) parsed but re-encoding is not byte-identical", inp)
                elif canonical and lossless_variant and out != data:
                    fail(f"{vname}/{order}: canonical datagram not byte-identical after parse", inp)
                elif canonical and vname == "extended-body" and out != data and not any(f["key"] == "passthrough/trailing-bytes" for f in failures):
                    # bytes after the last template block are not part of any block: a parse does not keep them
                    failures.append({"key": "passthrough/trailing-bytes", "clause": f"{t.name}: a datagram with {len(data) - len(out)} bytes after its last block "
                                     f"re-encodes without them once its body was parsed ({order})", "input": inp, "observed": out.hex()[:120]})
                if parses and order != "failing_blocks":
                    try:
                        again = de_eager.deserialize(out)
                        if not msggen.same_message(again, ref):
                            fail(f"{vname}/{order}: re-encoded datagram decodes to a different message", inp)
                    except Exception as e:  # noqa
                        fail(f"{vname}/{order}: re-encoded datagram no longer decodes: {e!r}", inp)
    # text heuristics: byte payloads in text-named Variable fields
    from hippolyzer.lib.base.message.message import Message, Block
    payloads = [b"", b"\x00", b"abc", b"abc\x00", b"abc\x00\x00", b"a\x00b\x00", b"\xff\xfe\x00", b"\xc3\xa9\x00", b"\xc3\x00", b"\x00\x00", b"caf\xe9"]
    for p in payloads:
        for order in ("never", "blocks", "eager"):
            m = Message("ChatFromViewer", Block("AgentData", AgentID=None, SessionID=None, fill_missing=True),
                        Block("ChatData", Message=p, Type=1, Channel=0), packet_id=3)
            data = ser.serialize(m)
            evals += 1
            seen.add(("text", p, order))
            try:
                out, _ = reencode(data, order)
                if out != data:
                    fail(f"text field payload {p!r}: not byte-identical after {order}", {"payload": p.hex(), "order": order})
            except Exception as e:  # noqa
                fail(f"text field payload {p!r}: {order} raised {e!r}", {"payload": p.hex(), "order": order})
    # a BOOL travels as one byte; peers are not obliged to send 0 or 1 (the byte is patched on the wire, not produced by the library)
    import uuid as _uuid
    for bval in (2, 0x7f, 0x80, 0xff):
        m = Message("SetAlwaysRun", Block("AgentData", AgentID=_uuid.UUID(int=1), SessionID=_uuid.UUID(int=2), AlwaysRun=1), packet_id=6)
        data = bytearray(ser.serialize(m))
        data[-1] = bval
        data = bytes(data)
        for order in ("never", "blocks", "eager"):
            evals += 1
            seen.add(("bool-byte", bval, order))
            try:
                out, _ = reencode(data, order)
                if out != data:
                    fail(f"BOOL field with wire byte {bval:#04x}: after {order} the datagram re-encodes with {out[-1]:#04x} in that field", {"datagram": data.hex(), "order": order})
            except Exception as e:  # noqa
                fail(f"BOOL field with wire byte {bval:#04x}: {order} raised {e!r}", {"datagram": data.hex(), "order": order})
    # a float field whose four bytes are a signalling NaN (any bit pattern is legal on the wire)
    for pattern in ("0100807f", "0100c07f", "000080ff", "ffffff7f", "010080ff"):
        m = Message("HealthMessage", Block("HealthData", Health=1.0), packet_id=5)
        data = bytearray(ser.serialize(m))
        data[-4:] = bytes.fromhex(pattern)
        data = bytes(data)
        for order in ("never", "blocks", "eager"):
            evals += 1
            seen.add(("f32-bits", pattern, order))
            try:
                out, _ = reencode(data, order)
                if out != data:
                    failures.append({"key": "passthrough/snan-f32", "clause": f"F32 field with wire bytes {pattern} (a signalling NaN): after {order} the datagram "
                                     f"re-encodes with {out[-4:].hex()} in that field", "input": {"datagram": data.hex(), "order": order}, "observed": out.hex()})
            except Exception as e:  # noqa
                fail(f"F32 field with wire bytes {pattern}: {order} raised {e!r}", {"datagram": data.hex(), "order": order})
    # a packed rotation travels as three F32; nothing obliges a peer to send a triple of length <= 1 (patched on the wire: the library's
    # own Quaternion constructor is not asked what it would have produced)
    import struct as _struct
    for triple in ((0.0, 0.0, 1.0), (0.5, 0.5, 0.5), (0.6, 0.8, 0.02), (0.0, 0.0, 1.0002), (0.6, 0.8, 0.001), (0.70710683, 0.70710683, 0.0),
                   (1.0, 1e-3, 0.0), (3.0, -4.0, 12.0), (1.0, 1.0, 0.0), (-0.6, 0.8, 0.0005), (0.57735032, 0.57735032, 0.57735032)):
        m = Message("ObjectRotation", Block("AgentData", AgentID=_uuid.UUID(int=0x0102030405060708090a0b0c0d0e0f10), SessionID=_uuid.UUID(int=0x1112131415161718191a1b1c1d1e1f20)),
                    Block("ObjectData", ObjectLocalID=7, Rotation=(0.0, 0.0, 0.0, 1.0)), packet_id=8)
        data = bytearray(ser.serialize(m))
        data[-12:] = _struct.pack("<fff", *triple)
        data = bytes(data)
        for order in ("never", "blocks", "eager"):
            evals += 1
            seen.add(("quat-triple", triple, order))
            try:
                out, _ = reencode(data, order)
                if out != data:
                    fail(f"LLQuaternion field with wire triple {triple}: after {order} the datagram re-encodes with "
                         f"{_struct.unpack('<fff', out[-12:])} in that field", {"datagram": data.hex(), "order": order})
            except Exception as e:  # noqa
                fail(f"LLQuaternion field with wire triple {triple}: {order} raised {e!r}", {"datagram": data.hex(), "order": order})
    return {"name": "passthrough-fidelity", "evaluations": evals, "distinct_nontrivial": len(seen),
            "rule": f"{len(tmpls)} templates: encoder output, then non-canonically re-zero-coded / truncated / extended / bit-flipped bodies that "
                    "the header parser still accepts x inspection orders {never, header only, lazy blocks, eager, failing lazy blocks}; "
                    "11 byte payloads in a text-named field; distinct = distinct (template, variant, order)",
            "bounded": True, "bounds": {"templates": len(tmpls)}, "samples": samples, "failures": failures}
