"""Tier-P contract for C02, second part: UDPMessageDeserializer.parse_message_body leaves a message whose body cannot be parsed
exactly as forwardable as it was (raw body back in place), and consumes the raw body exactly when the parse succeeds."""
from pyvc.contracts import ClassDecl, FnContract
from contracts.common import reg_message

DREL = "hippolyzer/lib/base/message/udpdeserializer.py"


def register_p2(reg, prop):
    reg_message(reg)
    reg.add_class(ClassDecl("UDPMessageDeserializer", fields={"settings": "Opaque:Any", "template_dict": "Opaque:Any"}))
    reg.add_fn(FnContract(
        key="hippolyzer.lib.base.message.udpdeserializer:UDPMessageDeserializer.parse_message_body", relpath=DREL,
        qualname="UDPMessageDeserializer.parse_message_body", cls="UDPMessageDeserializer", prop=prop,
        params={"msg": "Obj:Message"}, param_names=["msg"],
        externals={
            "self._parse_message_body": {"record_as": "parse", "may_raise": "AnyException", "modifies": ["msg._blocks"],
                                         "doc": "template-directed body parse: fills msg._blocks, may fail on any malformed body"},
            "weakref.ref": {"returns": "Opaque:Any", "doc": "weak reference to the deserializer"},
            # not called by the current body; declared so that moving the expansion here stays within reach of the contract
            "self.zero_code_expand": {"returns": "Bytes", "may_raise": "ValueError", "doc": "zero-code expansion (own contract, C03)"},
        },
        may_raise={"AnyException": ""},
        ensures=[
            # nothing to parse: untouched; otherwise the raw body is consumed by exactly one successful parse of those very bytes
            "implies(is_none(old(msg.raw_body)) or len(val(old(msg.raw_body))) == 0, ncalls('parse') == 0 and msg.raw_body == old(msg.raw_body))",
            "implies(not is_none(old(msg.raw_body)) and len(val(old(msg.raw_body))) > 0, "
            "ncalls('parse') == 1 and is_none(msg.raw_body) and called_with('parse', lambda arg0, arg1: arg1 == val(old(msg.raw_body))))",
        ],
        # a failed parse leaves the datagram forwardable verbatim: the raw body is back, byte for byte
        ensures_on_raise=["msg.raw_body == old(msg.raw_body)", "ncalls('parse') == 1"],
        frame=["msg.raw_body", "msg.deserializer", "msg._blocks"], frame_on_raise=True))
