"""Tier-P contracts for C20, third part: mesh vertex weights (hippolyzer/lib/base/mesh.py VertexWeights) - the one hand-written
framing in the mesh codec: up to four (joint, weight) records, closed by a 0xFF byte exactly when there are fewer than four.
Writer and reader are checked on the real BufferWriter / BufferReader bodies (inlined from serialization.py); what the reader
consumes for n records is what the writer produces for n records."""
import z3

from pyvc.contracts import ClassDecl, FnContract, Lemma
from contracts import udp_common

MREL = "hippolyzer/lib/base/mesh.py"
MMOD = "hippolyzer.lib.base.mesh"


def register_p3(reg, prop):
    import hippolyzer.lib.base.serialization as se
    from hippolyzer.lib.base import mesh
    udp_common.reg_buffers(reg)
    common = dict(relpath=MREL, prop=prop, consts={"se": se}, param_values={"cls": mesh.VertexWeights})
    reg.add_fn(FnContract(
        key=f"{MMOD}:VertexWeights.serialize", qualname="VertexWeights.serialize",
        params={"vals": "Opaque:WeightList", "writer": "Obj:BufferWriter", "ctx": "Opaque:Any"}, param_names=["vals", "writer", "ctx"],
        defaults={"ctx": None},
        requires=["writer.endianness == '<' or writer.endianness == '>' or writer.endianness == '!'"],
        raises={"ValueError": "len(vals) > 4"},
        # a joint index or quantised weight outside its wire range is rejected by the primitive, not written truncated
        may_raise={"struct.error": "", "OverflowError": ""},
        loops={0: {"elem_sort": "Tuple[Int,Float]",
                   "inv": ["len(writer.buffer) == old(len(writer.buffer)) + 3 * _i", "writer.endianness == old(writer.endianness)",
                           "writer.buffer[:old(len(writer.buffer))] == old(writer.buffer)"]}},
        static_loops=1,
        ensures=["len(writer.buffer) == old(len(writer.buffer)) + 3 * len(vals) + ite(len(vals) == 4, 0, 1)",
                 "implies(len(vals) != 4, writer.buffer[len(writer.buffer) - 1] == 255)",
                 "writer.buffer[:old(len(writer.buffer))] == old(writer.buffer)"],
        frame=["writer.buffer"], **common))

    # the reader consumes, for the n records it returns, exactly what the writer produces for n records: 3n bytes, plus the
    # closing byte iff n < 4 (the loop is left early exactly on that byte)
    reg.add_fn(FnContract(
        key=f"{MMOD}:VertexWeights.deserialize", qualname="VertexWeights.deserialize",
        params={"reader": "Obj:BufferReader", "ctx": "Opaque:Any"}, param_names=["reader", "ctx"], defaults={"ctx": None},
        returns="Opaque:WeightList",
        requires=["reader.endianness == '<' or reader.endianness == '>' or reader.endianness == '!'", "0 <= reader._pos",
                  "reader._len == len(reader._buffer)", "reader._pos <= reader._len"],
        externals={"VertexWeight": {"returns": "Opaque:Any", "record_as": "record", "doc": "one (joint, weight) record"},
                   "influence_list.append": {"record_as": "append", "doc": "list.append"}},
        may_raise={"IndexError": "", "struct.error": "", "ValueError": "", "IOError": ""},
        loops={0: {"ghost_init": {"_n": "0"}, "ghost_step": {"_n": "_n + ncalls('append')"},
                   "inv": ["_n == _i", "reader._pos == old(reader._pos) + 3 * _i", "reader._buffer == old(reader._buffer)",
                           "reader._len == old(reader._len)", "reader.endianness == old(reader.endianness)", "reader.pod == old(reader.pod)"],
                   "iter_post": ["ncalls('append') == 1", "joint_idx != 255",
                                 "called_with('record', lambda arg0, arg1: arg0 == old(reader._buffer)[old(reader._pos) + 3 * (_i - 1)])"]}},
        static_loops=1,
        ensures=["implies(L0_left_early == 0, _n == 4 and reader._pos == old(reader._pos) + 12)",
                 "implies(L0_left_early != 0, _n < 4 and reader._pos == old(reader._pos) + 3 * _n + 1 and "
                 "old(reader._buffer)[old(reader._pos) + 3 * _n] == 255)"],
        frame=["reader._pos"], **common))

    def framing():
        n = z3.Int("n")
        written = 3 * n + z3.If(n == 4, 0, 1)
        consumed = z3.If(n == 4, z3.IntVal(12), 3 * n + 1)
        return [("claim", [0 <= n, n <= 4], written == consumed, [])]
    reg.lemmas.append(Lemma("vertex_weights_framing", prop, framing,
                            "for n records the reader consumes exactly the bytes the writer produced (code-free, from the two contracts)"))
