"""C07 bounded tier: real proxy, up to three real addon objects with assigned behaviours per hook point."""
import itertools
import random

from contracts.proxy_harness import Harness

BEHAVIOURS = ["falsy", "truthy", "raise", "take", "take_drop", "drop", "send_orig", "send_copy", "mutate", "take_send_orig"]


# message kinds driven through the proxy: a chat message, a datagram whose body does not parse (it is still forwarded
# verbatim), and the circuit teardown messages (the proxy marks the circuit dead before forwarding them)
KINDS = ("chat", "truncated", "teardown")
TARGETS = {"ChatFromViewer", "ChatFromSimulator", "UndoLand", "HealthMessage", "CloseCircuit", "DisableSimulator"}


class Boom(Exception):
    pass


def make_addon(behaviour, hook_points, log):
    from hippolyzer.lib.proxy.addon_utils import BaseAddon

    class A(BaseAddon):
        def handle_lludp_message(self, session, region, message):
            if "lludp" not in hook_points or message.name not in TARGETS:
                return None
            log.append(("hook", behaviour))
            return act(behaviour, session, region, message)
    a = A()

    def act(b, session, region, message):
        if b == "falsy":
            return 0
        if b == "truthy":
            return True
        if b == "raise":
            raise Boom("addon failure")
        if b == "take":
            a.taken = message.take()
            return None
        if b == "take_drop":
            a.taken = message.take()
            region.circuit.drop_message(message)
            return None
        if b == "drop":
            region.circuit.drop_message(message)
            return True
        if b == "send_orig":
            region.circuit.send(message)
            return None
        if b == "send_copy":
            region.circuit.send(message.take())
            return None
        if b == "take_send_orig":
            a.taken = message.take()
            region.circuit.send(message)      # must be refused: the original of a taken message
            return None
        if b == "mutate":
            message["ChatData"]["Message"] = "rewritten"
            return None
    return a


def one_case(behaviours, outgoing, reliable, handler_raises, kind="chat"):
    """returns list of violation strings"""
    from hippolyzer.lib.base.message.message import Message, Block
    from hippolyzer.lib.base.message.msgtypes import PacketFlags
    from hippolyzer.lib.base.network.transport import Direction
    from hippolyzer.lib.base.message.udpdeserializer import UDPMessageDeserializer
    log = []
    addons = [make_addon(b, ("lludp",), log) for b in behaviours]
    h = Harness(addons=addons)
    out = []
    try:
        h.open_circuits()
        region = h.session.regions[0]
        waiter = None
        if handler_raises == "region_waiter":
            # the proxy's own one-shot wait (MessageHandler.wait_for) for either of two message names, taking by default: the first
            # matching message belongs to whoever waits; the wait is over then, later messages of either name are not its business
            waiter = region.message_handler.wait_for((("ChatFromViewer" if outgoing else "ChatFromSimulator"), "CompletePingCheck"), take=True)
        elif handler_raises:
            def bad_handler(msg):
                raise Boom("subscriber failure")

            def bad_pred(msg):
                raise Boom("predicate failure")
            mh = h.session.message_handler if handler_raises.startswith("session") else region.message_handler
            if handler_raises.endswith("_pred"):
                mh.register("*").subscribe(lambda m: None, predicate=bad_pred)
            else:
                mh.subscribe("*", bad_handler)
        seen_region = []
        region.message_handler.subscribe("ChatFromViewer", lambda m: seen_region.append(m.name))
        region.message_handler.subscribe("ChatFromSimulator", lambda m: seen_region.append(m.name))
        flags = PacketFlags.RELIABLE if reliable else 0
        if outgoing:
            msg = Message("ChatFromViewer", Block("AgentData", AgentID=h.session.agent_id, SessionID=h.session.id),
                          Block("ChatData", Message="hello", Type=1, Channel=0), packet_id=7, flags=flags, direction=Direction.OUT)
        else:
            msg = Message("ChatFromSimulator", Block("ChatData", FromName="x", SourceID=h.session.agent_id, OwnerID=h.session.agent_id,
                                                     SourceType=1, ChatType=1, Audible=1, Position=(0, 0, 0), Message="hello"),
                          packet_id=7, flags=flags, direction=Direction.IN)
        if kind == "truncated":
            if outgoing:
                msg = Message("UndoLand", Block("AgentData", AgentID=h.session.agent_id, SessionID=h.session.id), packet_id=7, flags=flags,
                              direction=Direction.OUT)
            else:
                msg = Message("HealthMessage", Block("HealthData", Health=1.0), packet_id=7, flags=flags, direction=Direction.IN)
        elif kind == "teardown":
            msg = Message("CloseCircuit" if outgoing else "DisableSimulator", packet_id=7, flags=flags,
                          direction=Direction.OUT if outgoing else Direction.IN)
        data, src = h.datagram(msg)
        if kind == "truncated":
            data = data[:-3]                # header and message number intact, the body is short
        exc, sent = h.feed(data, src)
        # a second, unrelated message must still flow (one failure never stops later messages)
        msg2 = Message("CompletePingCheck", Block("PingID", PingID=3), packet_id=8,
                       direction=Direction.OUT if outgoing else Direction.IN)
        data2, src2 = h.datagram(msg2)
        exc2, sent2 = h.feed(data2, src2)
        de = UDPMessageDeserializer()
        names = []
        for raw, dst, pkt in sent:
            m = de.deserialize(pkt.data)
            names.append((m.name, dst))
        peer = h.region_addrs[0] if outgoing else h.client_addr
        chat = msg.name
        n_chat = sum(1 for n, d in names if n == chat and d == peer)
        # reference model of the ownership protocol (what the statement prescribes)
        fin = queued = False
        wire = 0
        handled = False
        for b in (["take"] if waiter is not None else []) + list(behaviours):
            if b == "truthy":
                handled = True
                break
            if b in ("take", "take_drop", "take_send_orig", "send_copy") and not fin:
                queued = True
            if b == "send_copy":
                wire += 1
            if b == "take_drop" and not fin:
                fin = True
            if b == "drop":
                if not fin:
                    fin = True
                    handled = True
                    break
            if b in ("send_orig", "take_send_orig") and not fin and not queued:
                wire += 1
                fin = True
        if queued and not fin:
            fin = True              # proxy drops the taken original
        if not handled and not fin:
            wire += 1
        claimed = wire == 0
        desc = f"kind={kind} behaviours={behaviours} outgoing={outgoing} reliable={reliable} handler_raises={handler_raises}"
        if exc is not None:
            out.append(f"exception {type(exc).__name__}: {exc} escaped the packet handler ({desc})")
        if kind == "teardown":
            # nothing follows a teardown on that circuit; the message log holds the one entry
            if len(h.logged) < 1:
                out.append(f"proxy bookkeeping (message log) skipped: {len(h.logged)} of 1 entries ({desc})")
        elif exc2 is not None or not any(de.deserialize(p.data).name == "CompletePingCheck" for _, _, p in sent2):
            out.append(f"a later unrelated message was not forwarded ({desc})")
        if n_chat != wire:
            out.append(f"message put on the wire {n_chat} times, the ownership protocol prescribes {wire} ({desc})")
        if kind != "teardown" and len(h.logged) < 2:
            out.append(f"proxy bookkeeping (message log) skipped: {len(h.logged)} of 2 entries ({desc})")
        if kind == "chat" and handler_raises in ("session", "session_pred") and not seen_region:
            out.append(f"session-level subscriber failure stopped region-level subscribers ({desc})")
        hooks_run = sum(1 for x in log if x[0] == "hook")
        expect_hooks = 0
        for b in behaviours:
            expect_hooks += 1
            if b in ("truthy", "drop"):
                break
        if hooks_run < expect_hooks * 1:      # each addon sees message 1; message 2 adds more, never fewer
            out.append(f"an addon's failure/behaviour stopped later addons' hooks: {hooks_run} < {expect_hooks} ({desc})")
    finally:
        h.close()
    return out


def ownership_sequences(maxlen):
    """all sequences of ownership operations on one message: at most one wire emission, never sent/dropped twice"""
    from hippolyzer.lib.base.message.message import Message, Block
    from hippolyzer.lib.base.network.transport import Direction
    from hippolyzer.lib.proxy.circuit import ProxiedCircuit
    from contracts.c05_native import RecTransport
    out = []
    n = 0
    for ln in range(1, maxlen + 1):
        for seq in itertools.product(("take", "send", "drop"), repeat=ln):
            n += 1
            tr = RecTransport()
            c = ProxiedCircuit(("127.0.0.1", 1), ("127.0.0.1", 2), tr)
            m = Message("CompletePingCheck", Block("PingID", PingID=1), packet_id=5, direction=Direction.OUT, flags=0x40)
            sends = drops = 0
            for op in seq:
                try:
                    if op == "take":
                        m.take()
                    elif op == "send":
                        c.send(m)
                        sends += 1
                    else:
                        was = m.finalized
                        c.drop_message(m)
                        drops += 1
                except RuntimeError:
                    pass
            wire = sum(1 for p in tr.packets if b"\x00" in p.data or True)
            orig_on_wire = sum(1 for p in tr.packets if p.dst_addr == ("127.0.0.1", 2))
            if sends + drops > 1:
                out.append(f"message accepted {sends} sends and {drops} drops in sequence {seq}")
            if orig_on_wire > 1:
                out.append(f"message on the wire {orig_on_wire} times in sequence {seq}")
            if m.dropped and not m.finalized:
                out.append(f"dropped but not finalized after {seq}")
    return n, out


def hot_reload_case():
    """an addon loaded from a script that hot-reloads a helper module; the helper is edited between two messages. Whatever the
    addon machinery has to do before it asks the hooks, an unclaimed message goes out exactly once. Returns violation strings."""
    import os
    import sys
    import tempfile
    import textwrap
    from pathlib import Path
    from hippolyzer.lib.base.message.message import Message, Block
    from hippolyzer.lib.base.network.transport import Direction
    from hippolyzer.lib.base.message.udpdeserializer import UDPMessageDeserializer
    from hippolyzer.lib.proxy.addons import AddonManager
    out = []
    tmp = tempfile.TemporaryDirectory(prefix="c07_hotreload_")
    h = None
    try:
        helper = Path(tmp.name) / "c07_hr_helper.py"
        script = Path(tmp.name) / "c07_hr_addon.py"
        helper.write_text("GREETING = 'v1'\n")
        script.write_text(textwrap.dedent("""
            from hippolyzer.lib.proxy.addon_utils import BaseAddon
            from hippolyzer.lib.proxy.addons import AddonManager
            import c07_hr_helper
            AddonManager.hot_reload(c07_hr_helper)
            SEEN = []

            class Watching(BaseAddon):
                def handle_lludp_message(self, session, region, message):
                    SEEN.append((c07_hr_helper.GREETING, message.name))

            addons = [Watching()]
        """))
        h = Harness(addon_scripts=[str(script)])
        h.open_circuits()
        de = UDPMessageDeserializer()

        def chat(pid):
            m = Message("ChatFromViewer", Block("AgentData", AgentID=h.session.agent_id, SessionID=h.session.id),
                        Block("ChatData", Message="m%d" % pid, Type=1, Channel=0), packet_id=pid, direction=Direction.OUT)
            data, src = h.datagram(m)
            exc, sent = h.feed(data, src)
            n = sum(1 for _, _, p in sent if de.deserialize(p.data).name == "ChatFromViewer")
            return exc, n
        for pid, edit in ((1, False), (2, True), (3, False), (4, True), (5, False)):
            if edit:
                helper.write_text("GREETING = 'v%d'\n" % pid)
                st = os.stat(helper)
                os.utime(helper, (st.st_atime + 10 * pid, st.st_mtime + 10 * pid))
            AddonManager.LAST_RELOAD = 0          # (the two-second back-off between reload checks has passed)
            exc, n = chat(pid)
            if exc is not None or n != 1:
                out.append(f"unclaimed message #{pid} ({'right after the hot-reloaded helper was edited' if edit else 'no edit'}) was put on the wire "
                           f"{n} times (exception {exc!r}); expected exactly once")
    except Exception as e:  # noqa
        out.append(f"hot-reload scenario: harness error {type(e).__name__}: {e}")
    finally:
        if h is not None:
            h.close()
        sys.modules.pop("c07_hr_helper", None)
        tmp.cleanup()
    return out


def real_logger_case():
    """the proxy's own bookkeeping with the real loggers (a WrappingMessageLogger over FilteringMessageLoggers, as the GUI sets it up),
    whose filters may or may not match: logging a message leaves it as sendable as it was. Returns violation strings."""
    from hippolyzer.lib.base.message.message import Message, Block
    from hippolyzer.lib.base.network.transport import Direction
    from hippolyzer.lib.base.message.udpdeserializer import UDPMessageDeserializer
    from hippolyzer.lib.proxy.message_logger import WrappingMessageLogger, FilteringMessageLogger
    out = []
    for filt in ("Nope", "*", "StartPingCheck"):
        h = Harness(with_logger=False)
        try:
            wrap = WrappingMessageLogger()
            fl = FilteringMessageLogger()
            fl.set_filter(filt)
            wrap.loggers.append(fl)
            h.session_manager.message_logger = wrap
            h.open_circuits()
            de = UDPMessageDeserializer()
            msgs = [Message("StartPingCheck", Block("PingID", PingID=1, OldestUnacked=0), packet_id=3, direction=Direction.OUT),
                    Message("AgentDataUpdate", Block("AgentData", AgentID=h.session.agent_id, FirstName="a", LastName="b", GroupTitle="", ActiveGroupID=h.session.agent_id,
                                                     GroupPowers=0, GroupName=""), packet_id=4, direction=Direction.IN),
                    Message("CompletePingCheck", Block("PingID", PingID=1), packet_id=5, direction=Direction.IN)]
            for m in msgs:
                data, src = h.datagram(m)
                exc, sent = h.feed(data, src)
                n = sum(1 for _, _, p in sent if de.deserialize(p.data).name == m.name)
                if exc is not None or n != 1:
                    out.append(f"with the real message loggers installed (filter {filt!r}) an unclaimed {m.name} was put on the wire {n} times "
                               f"(exception {exc!r}); expected exactly once")
        except Exception as e:  # noqa
            out.append(f"real-logger scenario: harness error {type(e).__name__}: {e}")
        finally:
            h.close()
    return out


def cancelled_wait_case():
    """a one-shot wait with a time-out whose waiter went away (its future was cancelled): once the time-out has passed nobody
    waits any more, and the next message of that name is an ordinary unclaimed message. Returns violation strings."""
    import asyncio
    from hippolyzer.lib.base.message.message import Message, Block
    from hippolyzer.lib.base.network.transport import Direction
    from hippolyzer.lib.base.message.udpdeserializer import UDPMessageDeserializer
    out = []
    h = Harness()
    try:
        h.open_circuits()
        region = h.session.regions[0]
        de = UDPMessageDeserializer()

        async def arm():
            fut = region.message_handler.wait_for(("CompletePingCheck", "UndoLand"), timeout=0.03, take=True)
            fut.cancel()
            await asyncio.sleep(0.12)
        h.loop.run_until_complete(arm())
        for pid in (31, 32):
            m = Message("CompletePingCheck", Block("PingID", PingID=pid), packet_id=pid, direction=Direction.IN, flags=0x40)
            data, src = h.datagram(m)
            exc, sent = h.feed(data, src)
            n = sum(1 for _, _, p in sent if de.deserialize(p.data).name == "CompletePingCheck")
            if exc is not None or n != 1:
                out.append(f"after a cancelled wait_for had timed out, unclaimed message #{pid} was put on the wire {n} times (exception {exc!r}); expected exactly once")
    except Exception as e:  # noqa
        out.append(f"cancelled-wait scenario: harness error {type(e).__name__}: {e}")
    finally:
        h.close()
    return out


def bounded_addons(reg, tier, seed):
    rng = random.Random(seed)
    evals, failures, seen, samples = 0, [], set(), []
    combos = [(b,) for b in BEHAVIOURS]
    combos += list(itertools.product(BEHAVIOURS, repeat=2))
    if tier == "thorough":
        combos += list(itertools.product(BEHAVIOURS, repeat=3))
    else:
        trip = list(itertools.product(BEHAVIOURS, repeat=3))
        rng.shuffle(trip)
        combos += trip[:60]
    for bs in combos:
        variants = list(itertools.product((True, False), (True, False), (None, "session", "region", "session_pred", "region_pred", "region_waiter"), ("chat",)))
        other = list(itertools.product((True, False), (True, False), (None, "region"), ("truncated", "teardown")))
        if tier == "quick" and len(bs) > 1:
            variants = [rng.choice(variants), rng.choice(other)]
        else:
            variants += other
        for outgoing, reliable, hr, kind in variants:
            key = (bs, outgoing, reliable, hr, kind)
            seen.add(key)
            evals += 1
            v = one_case(list(bs), outgoing, reliable, hr, kind)
            if len(samples) < 3:
                samples.append({"behaviours": list(bs), "outgoing": outgoing, "reliable": reliable, "handler_raises": hr, "kind": kind})
            for msg in v[:1]:
                if len(failures) < 5:
                    failures.append({"key": "addons/bounded" if kind == "chat" else "addons/" + kind, "clause": msg.split(" (")[0],
                                     "input": {"behaviours": list(bs), "outgoing": outgoing, "reliable": reliable, "handler_raises": hr,
                                               "kind": kind},
                                     "observed": msg})
    evals += 5
    seen.add(("hot-reload",))
    for msg in hot_reload_case()[:2]:
        failures.append({"key": "addons/hot-reload", "clause": msg, "input": {"scenario": "addon script hot-reloading a helper module; helper edited between messages"},
                         "observed": msg})
    evals += 2
    seen.add(("cancelled-wait",))
    for msg in cancelled_wait_case()[:2]:
        failures.append({"key": "addons/cancelled-wait", "clause": msg, "input": {"scenario": "wait_for with a time-out, waiter cancelled, time-out passed"}, "observed": msg})
    evals += 9
    seen.add(("real-loggers",))
    for msg in real_logger_case()[:2]:
        failures.append({"key": "addons/real-loggers", "clause": msg, "input": {"scenario": "WrappingMessageLogger over a FilteringMessageLogger"}, "observed": msg})
    n, ov = ownership_sequences(4)
    evals += n
    for msg in ov[:3]:
        failures.append({"key": "ownership/bounded", "clause": msg, "input": msg, "observed": msg})
    return {"name": "addon-behaviours", "evaluations": evals, "distinct_nontrivial": len(seen) + n,
            "rule": "assignments of {falsy, truthy, raise, take, take+drop, drop, send original, send copy, mutate, take+send original} to "
                    "the LLUDP hook of 1..3 real addon objects x direction x reliability x {no, session-level, region-level} raising "
                    "subscriber x {chat message, datagram with an unparsable body, circuit teardown message}, through the real proxy; plus all ownership-operation sequences up to length 4; distinct = distinct assignments",
            "bounded": True, "bounds": {"addons": 3, "ownership_seq_len": 4}, "samples": samples, "failures": failures}
