"""C02 - pass-through fidelity: unmodified datagrams re-encode byte-identically."""
from contracts import udp_common

PID = "C02"
META = {
    "level": "other",
    "explanation": (
        "P (proved, all inputs): UDPMessageSerializer.serialize on a message whose body was never parsed (raw_body present) emits "
        "exactly [flags] ++ be32(packet id or 0) ++ [len(extra)] ++ raw_body, followed - iff the ACK flag is set - by the acks "
        "big-endian in reverse order and the count byte; nothing else, for every raw body, ack list and id (loop invariant over "
        "the ack loop, universally quantified ghost index; BufferWriter/SerializablePrimitive inlined from the real source). "
        "B (bounded, labelled): header parser + lazy/eager parse + text heuristics + failed-parse frame condition over generated, "
        "non-canonically re-zero-coded, truncated, extended and bit-flipped datagrams x inspection orders."),
    "trusted_base": [
        "struct.Struct.pack: exact built-in model; template lookup by name: external",
        "_parse_message_header, parse_message_body, _parse_var: bounded tier only (template walk / scoped_seek context manager "
        "outside the subset)",
        "canonical zero-coding = fixed point of zero_code_compress . zero_code_expand (C03's functions)",
    ],
}


def register(reg):
    udp_common.reg_serialize_raw(reg, PID)


from contracts import c01_native
BOUNDED = [c01_native.bounded_passthrough]
