"""C02 - pass-through fidelity: unmodified datagrams re-encode byte-identically."""
from contracts import udp_common

PID = "C02"
META = {
    "level": "other",
    "explanation": (
        "P (proved, all inputs): UDPMessageSerializer.serialize on a message whose body was never parsed (raw_body present) emits "
        "exactly [flags] ++ be32(packet id or 0) ++ [len(extra)] ++ raw_body, followed - iff the ACK flag is set - by the acks "
        "big-endian in reverse order and the count byte; nothing else, for every raw body, ack list and id (loop invariant over "
        "the ack loop, universally quantified ghost index; BufferWriter/SerializablePrimitive inlined from the real source). "
        "UDPMessageDeserializer._parse_message_header on a datagram that is not zero-coded returns exactly those fields back: flags, id, "
        "offset byte, the acks in their original order (reverse of the wire order, count byte last) and raw_body = the bytes between "
        "header and ack trailer (the trailer is snipped); it rejects datagrams whose trailer would collide with the header; on a zero-coded datagram the same, plus: the "
        "window expanded to find the message name covers the message number and the extra field (two encoded bytes per decoded byte at most) "
        "or everything that is left. The real "
        "BufferReader, scoped_seek context manager and primitives are inlined. Together: what serialize writes for an unparsed message "
        "is what the header parser reads (composition checked in the bounded tier). UDPMessageDeserializer.parse_message_body: "
        "a body parse that fails (any exception of the template-directed parser) leaves raw_body exactly as it was, so the datagram is "
        "still forwarded verbatim; a successful one consumes raw_body after exactly one parse of those very bytes. For a datagram whose "
        "body was parsed, re-encoding goes through the template walk: C01's block-framing contracts (_serialize_block, serialize on a "
        "built body, _parse_message_body) are re-verified in this check. "
        "B (bounded, labelled): zero-coded header peek, lazy/eager parse + text heuristics + failed-parse frame condition over generated, "
        "non-canonically re-zero-coded, truncated, extended and bit-flipped datagrams x inspection orders."),
    "trusted_base": [
        "struct.Struct.pack: exact built-in model; template lookup by name: external",
        "_parse_msg_num: assumed contract (reads 1..4 bytes), checked against every template in the bounded tier; _parse_var (text "
        "heuristics): bounded tier only; in the zero-coded branch of _parse_message_header zero_code_expand is an external (C03's subject)",
        "canonical zero-coding in the bounded tier: decided by the driver's own zero-coder (every maximal zero run as (00 FF)* 00 n), not by "
        "the library's compressor",
    ],
}


def register(reg):
    udp_common.reg_serialize_raw(reg, PID)
    udp_common.reg_parse_header(reg, PID)
    reg.fns["hippolyzer.lib.base.message.udpdeserializer:UDPMessageDeserializer._parse_message_header@plain"].also.append("C01")
    reg.fns["hippolyzer.lib.base.message.udpdeserializer:UDPMessageDeserializer._parse_message_header@zerocoded"].also.append("C01")
    from contracts import c02b_contracts
    c02b_contracts.register_p2(reg, PID)
    # re-encoding a datagram whose body was parsed goes through the template walk: C01's framing contracts are re-verified here
    from contracts import c01b_contracts, c01c_contracts, c01d_contracts
    c01b_contracts.register_p2(reg, "C01")
    c01c_contracts.register_p3(reg, "C01")
    c01d_contracts.register_p4(reg, "C01")
    for k_ in ("hippolyzer.lib.base.message.udpserializer:UDPMessageSerializer._serialize_block",
               "hippolyzer.lib.base.message.udpdeserializer:UDPMessageDeserializer._parse_message_body",
               "hippolyzer.lib.base.message.udpserializer:UDPMessageSerializer.serialize@built_body"):
        reg.fns[k_].also.append(PID)


from contracts import c01_native
BOUNDED = [c01_native.bounded_passthrough]
