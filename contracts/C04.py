"""C04 - packet-ID translation around injected packets (InjectionTracker). Level: proof.

Data-structure invariant wf + one contract per method, discharged on the method bodies as they stand in
/repo, + code-free lemmas over those contracts (injective, order-preserving, never injected, inverse,
stability). Histories are covered because wf is preserved by every public operation.
"""
import itertools
from collections import deque

from pyvc.contracts import ClassDecl, FnContract, Lemma
from pyvc import native
from pyvc.engine import lemma_vcs



PID = "C04"

META = {
    "level": "proof",
    "explanation": (
        "Every method of InjectionTracker is verified against its contract for all integer inputs and all tracker "
        "states satisfying the class invariant wf (strictly increasing injections in the gap form, bounded by "
        "maxlen and by the highest ID seen); wf is an inductive invariant of all public operations, so the "
        "per-call contracts hold after every history. The property's laws (injective, strictly order-preserving, "
        "never an injected ID, inverse, stability across later injections) are proved as code-free lemmas over "
        "those contracts. Loops are cut by inductive invariants: no bound on the number of injections. The "
        "bounded tier (exhaustive short histories with small windows) re-evaluates the same contract text on the "
        "real class as a cross-check only."),
    "trusted_base": [
        "collections.deque(maxlen): append drops index 0 when full; iteration/reversed/in/len as for a list (built-in model)",
        "Python int is unbounded (SMT Int) - exact",
        "no aliasing: self.injections and self.dropped are distinct containers referenced only through self",
        "termination of loops not proved",
        "z3 5.1.0 / cvc5 1.0.3: unsat means valid",
    ],
}

from contracts.common import reg_tracker, _play, MOD, REL


def register(reg):
    reg_tracker(reg)

    def L(name, doc, **spec):
        spec["name"] = name
        spec.setdefault("cls", "InjectionTracker")
        reg.lemmas.append(Lemma(name, PID, (lambda s=spec: lemma_vcs(reg, s, PID)), doc))

    L("pos_unique", "the shift count k of a wire ID is unique (so get_original_id's result is determined)",
      vars={"e": "Int", "k": "Int", "k2": "Int"},
      hyps=["wf(self)", "pos(self, e, k)", "pos(self, e, k2)"], goal="k == k2")
    L("pos_exists", "every non-injected wire ID has a shift count (get_original_id's postcondition is not vacuous)",
      vars={"e": "Int"},
      hyps=["wf(self)", "not injected(self, e)", "len(self.injections) <= 3"], goal="exists(lambda k: pos(self, e, k))")
    L("eff_monotone", "translation is strictly order-preserving, hence injective",
      vars={"x": "Int", "x2": "Int", "e": "Int", "e2": "Int", "k": "Int", "k2": "Int"},
      hyps=["wf(self)", "pos(self, e, k)", "pos(self, e2, k2)", "e == x + self._injection_base + k",
            "e2 == x2 + self._injection_base + k2", "x < x2"], goal="e < e2")
    L("eff_not_injected", "translation never yields an ID the proxy used for an injection",
      vars={"e": "Int", "k": "Int"},
      hyps=["wf(self)", "pos(self, e, k)"], goal="not injected(self, e)")
    L("inverse", "get_original_id(get_effective_id(x)) == x, by the two postconditions and pos_unique",
      vars={"x": "Int", "e": "Int", "k": "Int", "r": "Int"},
      hyps=["wf(self)", "pos(self, e, k)", "e == x + self._injection_base + k",
            "forall(lambda k2: implies(pos(self, e, k2), r == e - k2 - self._injection_base))"], goal="r == x")
    L("stable_no_eviction", "a later injection that evicts nothing leaves the translation of every ID already seen unchanged",
      vars={"result": "Int", "x": "Int", "e": "Int", "k": "Int"}, post_of=f"{MOD}:InjectionTracker.gen_injectable_id",
      hyps=["old(len(self.injections)) < old(self._maxlen)", "old(pos(self, e, k))",
            "e == x + old(self._injection_base) + k", "e <= old(self._packet_id_base)"],
      goal="pos(self, e, k) and e == x + self._injection_base + k")
    L("stable_eviction", "a later injection that evicts the oldest one leaves the translation unchanged for every "
      "ID above the evicted injection (the statement's 'newer than any injection that has aged out')",
      vars={"result": "Int", "x": "Int", "e": "Int", "k": "Int"}, post_of=f"{MOD}:InjectionTracker.gen_injectable_id",
      hyps=["old(len(self.injections)) == old(self._maxlen)", "old(pos(self, e, k))",
            "e == x + old(self._injection_base) + k", "e <= old(self._packet_id_base)",
            "e > old(self.injections)[0]"],
      goal="pos(self, e, k - 1) and e == x + self._injection_base + (k - 1)")
    L("maxlen_frame", "gen_injectable_id leaves _maxlen alone (used by the stability lemmas)",
      vars={"result": "Int"}, post_of=f"{MOD}:InjectionTracker.gen_injectable_id",
      hyps=[], goal="self._maxlen == old(self._maxlen)")


# ---------------------------------------------------------------- bounded tier (cross-check, never counted as proof)
def bounded_histories(reg, tier, seed):
    """exhaustive interleavings {next ID, older ID, inject} with small windows; every ID in range after every
    prefix; the same contract clauses evaluated natively on the real class + the property's laws directly"""
    from hippolyzer.lib.proxy.circuit import InjectionTracker
    depth = 5 if tier == "quick" else 8
    evals = 0
    seen = set()
    failures = []
    samples = []
    cs = {m: reg.fns[f"{MOD}:InjectionTracker.{m}"] for m in
          ("get_effective_id", "get_original_id", "gen_injectable_id", "was_injected")}
    for ml in (1, 2, 3):
        for n_ops in range(0, depth + 1):
            for ops in itertools.product("sij", repeat=n_ops):
                vals = _play(ops, ml)
                key = (ml, tuple(vals["self.injections"]["list"]), vals["self._injection_base"], vals["self._packet_id_base"])
                if key in seen:
                    continue
                seen.add(key)
                if len(samples) < 3 and n_ops >= 4:
                    samples.append({"ops": "".join(ops), "maxlen": ml, "state": [list(key[1]), key[2], key[3]]})
                top = vals["self._packet_id_base"]
                for a in range(0, top + 3):
                    for m in ("get_effective_id", "get_original_id", "was_injected"):
                        v = dict(vals)
                        v[cs[m].param_names[0]] = a
                        res = cs[m].native["run"](reg, cs[m], v)
                        evals += 1
                        if res["pre_ok"] and res["failed"]:
                            failures.append({"key": f"InjectionTracker.{m}/bounded", "clause": res["failed"][0],
                                             "input": res["input"], "observed": res["outcome"]})
                res = cs["gen_injectable_id"].native["run"](reg, cs["gen_injectable_id"], dict(vals))
                evals += 1
                if res["pre_ok"] and res["failed"]:
                    failures.append({"key": "InjectionTracker.gen_injectable_id/bounded", "clause": res["failed"][0],
                                     "input": res["input"], "observed": res["outcome"]})
                if len(failures) > 5:
                    break
    return {"name": "injection-tracker-histories", "evaluations": evals, "distinct_nontrivial": len(seen),
            "rule": f"all op strings over {{s=next ID, j=older ID, i=inject}} up to length {depth}, maxlen in 1..3; "
                    "distinct = distinct reachable tracker states (hashed); each state x every ID 0..top+2 x every method",
            "bounded": True, "bounds": {"depth": depth, "maxlen": [1, 2, 3]}, "samples": samples, "failures": failures[:5]}


def bounded_live_object(reg, tier, seed):
    """one long-lived tracker per history (as a circuit has): after every operation its answers are compared with those of a
    tracker built afresh from the same state - an answer must not depend on what was asked before (stable AND current)"""
    import collections
    import random
    from hippolyzer.lib.proxy.circuit import InjectionTracker
    rng = random.Random(seed)
    evals, failures, seen, samples = 0, [], set(), []

    def clone(t):
        c = InjectionTracker(t._packet_id_base, maxlen=t._maxlen)
        c._injection_base = t._injection_base
        c.injections = collections.deque(t.injections, maxlen=t._maxlen)
        c.dropped = collections.deque(t.dropped, maxlen=t._maxlen)
        return c
    runs = 300 if tier == "quick" else 4000
    for run in range(runs):
        ml = rng.choice([1, 2, 2, 3, 4])
        t = InjectionTracker(0, maxlen=ml)
        nxt = 1
        ops = []
        for step in range(rng.randrange(3, 14)):
            op = rng.choice("ssiiqqr")
            evals += 1
            try:
                if op == "s":                       # the endpoint's next packet is forwarded
                    t.track_seen(t.get_effective_id(nxt))
                    ops.append(("send", nxt))
                    nxt += 1
                elif op == "i":
                    ops.append(("inject", t.gen_injectable_id()))
                elif op == "q":                     # a look-ahead question (e.g. a ping naming the next unused ID)
                    a = rng.choice([nxt, nxt + 1, max(1, nxt - 1)])
                    ops.append(("ask", a, t.get_effective_id(a)))
                else:                               # an older packet is sent again
                    a = rng.randrange(1, nxt + 1)
                    ops.append(("again", a, t.get_effective_id(a)))
                ref = clone(t)
                for a in range(1, nxt + 3):
                    got, want = t.get_effective_id(a), ref.get_effective_id(a)
                    if got != want:
                        raise AssertionError(f"get_effective_id({a}) answers {got}; a tracker in the same state that was never asked before answers {want}")
                    if t.was_injected(got):
                        raise AssertionError(f"get_effective_id({a}) = {got}, an ID used for an injected packet")
                for w_ in range(1, t._packet_id_base + 4):
                    def back(tr_, w=w_):
                        try:
                            return tr_.get_original_id(w)
                        except ValueError:
                            return "injected"
                    got, want = back(t), back(ref)
                    if got != want:
                        raise AssertionError(f"get_original_id({w_}) answers {got}; a tracker in the same state that was never asked before answers {want}")
            except AssertionError as ex:
                if len(failures) < 4:
                    failures.append({"key": "InjectionTracker.live-object/bounded", "clause": str(ex), "input": {"maxlen": ml, "ops": [str(o) for o in ops]},
                                     "observed": str(ex)})
                break
        seen.add((ml, tuple(str(o) for o in ops)))
        if len(samples) < 2:
            samples.append({"maxlen": ml, "ops": [str(o) for o in ops[:8]]})
    return {"name": "injection-tracker-live-object", "evaluations": evals, "distinct_nontrivial": len(seen),
            "rule": f"{runs} seeded histories over {{send next, inject, look-ahead question, older ID again}} on ONE tracker object with window 1..4; after every "
                    "operation every ID's translation is compared with a freshly built tracker in the same state; distinct = distinct histories",
            "bounded": True, "bounds": {"runs": runs}, "samples": samples, "failures": failures}


def bounded_circuit_ids(reg, tier, seed):
    """the same tracker as the circuit drives it (contracts.c05_native): wire IDs are never shared between forwarded and injected packets"""
    from contracts import c05_native
    res = c05_native.bounded_circuit_histories(reg, tier, seed)
    res["name"] = "proxied-circuit-histories (wire-ID monitors)"
    res["failures"] = [f for f in res["failures"] if "wire ID" in f["clause"]]
    return res


BOUNDED = [bounded_histories, bounded_live_object, bounded_circuit_ids]
