"""C04 - packet-ID translation around injected packets (InjectionTracker). Level: proof.

Data-structure invariant wf + one contract per method, discharged on the method bodies as they stand in
/repo, + code-free lemmas over those contracts (injective, order-preserving, never injected, inverse,
stability). Histories are covered because wf is preserved by every public operation.
"""
import itertools
from collections import deque

from pyvc.contracts import ClassDecl, FnContract, Lemma
from pyvc import native
from pyvc.engine import lemma_vcs

REL = "hippolyzer/lib/proxy/circuit.py"
MOD = "hippolyzer.lib.proxy.circuit"
PID = "C04"

META = {
    "level": "proof",
    "explanation": (
        "Every method of InjectionTracker is verified against its contract for all integer inputs and all tracker "
        "states satisfying the class invariant wf (strictly increasing injections in the gap form, bounded by "
        "maxlen and by the highest ID seen); wf is an inductive invariant of all public operations, so the "
        "per-call contracts hold after every history. The property's laws (injective, strictly order-preserving, "
        "never an injected ID, inverse, stability across later injections) are proved as code-free lemmas over "
        "those contracts. Loops are cut by inductive invariants: no bound on the number of injections. The "
        "bounded tier (exhaustive short histories with small windows) re-evaluates the same contract text on the "
        "real class as a cross-check only."),
    "trusted_base": [
        "collections.deque(maxlen): append drops index 0 when full; iteration/reversed/in/len as for a list (built-in model)",
        "Python int is unbounded (SMT Int) - exact",
        "no aliasing: self.injections and self.dropped are distinct containers referenced only through self",
        "termination of loops not proved",
        "z3 5.1.0 / cvc5 1.0.3: unsat means valid",
    ],
}

WF = [
    "self._maxlen >= 1",
    "self.injections.maxlen == self._maxlen",
    "len(self.injections) <= self._maxlen",
    "self._injection_base >= 0",
    "forall(lambda i, k: implies(0 <= i and i <= k and k < len(self.injections), "
    "self.injections[k] - self.injections[i] >= k - i))",
    "implies(len(self.injections) > 0, self.injections[len(self.injections) - 1] <= self._packet_id_base)",
    "implies(self._injection_base > 0, len(self.injections) == self._maxlen)",
]

POS = ("0 <= k and k <= len(t.injections) and implies(k > 0, t.injections[k - 1] < e) "
       "and implies(k < len(t.injections), e < t.injections[k])")


def mk_tracker(vals):
    """concrete InjectionTracker from model values"""
    from hippolyzer.lib.proxy.circuit import InjectionTracker
    inj = vals.get("self.injections") or {"list": [], "maxlen": None}
    ml = vals.get("self._maxlen")
    if not isinstance(ml, int) or ml < 1:
        ml = inj.get("maxlen") or max(1, len(inj["list"]))
    t = InjectionTracker(0, maxlen=ml)
    t.injections = deque(inj["list"], maxlen=inj.get("maxlen") or ml)
    dr = vals.get("self.dropped") or {"list": [], "maxlen": None}
    t.dropped = deque(dr["list"], maxlen=dr.get("maxlen") or ml)
    t._injection_base = vals.get("self._injection_base", 0) if isinstance(vals.get("self._injection_base", 0), int) else 0
    t._packet_id_base = vals.get("self._packet_id_base", 0) if isinstance(vals.get("self._packet_id_base", 0), int) else 0
    t._maxlen = ml
    return t


def runner_for(meth):
    def run(reg, c, vals):
        from hippolyzer.lib.proxy.circuit import InjectionTracker
        t = mk_tracker(vals)
        native.QWindow.size = len(t.injections) + 2
        args = {p: vals[p] for p in c.param_names if p in vals}
        res = native.check_call(reg, c, getattr(InjectionTracker, meth), t, args)
        res["input"] = {"injections": list(t.injections), "maxlen": t._maxlen, "injection_base": t._injection_base,
                        "packet_id_base": t._packet_id_base, "args": args}
        return res
    return run


def search_states(rng):
    """small tracker states reachable by histories, plus argument values around them"""
    for ml in (1, 2, 3):
        for n_ops in range(0, 7):
            for ops in itertools.product("sij", repeat=n_ops):
                vals = _play(ops, ml)
                top = vals["self._packet_id_base"]
                for a in range(0, top + 3):
                    v = dict(vals)
                    for p in ("orig_id", "effective_id", "packet_id"):
                        v[p] = a
                    yield v


def _play(ops, ml):
    from hippolyzer.lib.proxy.circuit import InjectionTracker
    t = InjectionTracker(0, maxlen=ml)
    nxt = 1
    for o in ops:
        if o == "s":
            t.track_seen(t.get_effective_id(nxt))
            nxt += 1
        elif o == "i":
            t.gen_injectable_id()
        else:
            t.track_seen(t.get_effective_id(max(1, nxt - 2)))
    return {"self.injections": {"list": list(t.injections), "maxlen": ml}, "self._maxlen": ml,
            "self._injection_base": t._injection_base, "self._packet_id_base": t._packet_id_base,
            "self.dropped": {"list": [], "maxlen": ml}}


def fn(name, **kw):
    c = FnContract(key=f"{MOD}:InjectionTracker.{name}", relpath=REL, qualname=f"InjectionTracker.{name}",
                   cls="InjectionTracker", prop=PID, **kw)
    c.native = {"run": runner_for(name), "search": search_states}
    return c


def register(reg):
    reg.add_class(ClassDecl("InjectionTracker", fields={
        "injections": "IntDeque", "dropped": "IntDeque", "_injection_base": "Int", "_packet_id_base": "Int",
        "_maxlen": "Int"}, inv=WF))
    reg.predicates["pos"] = (["t", "e", "k"], POS)
    reg.predicates["injected"] = (["t", "e"], "exists(lambda i: 0 <= i and i < len(t.injections) and t.injections[i] == e)")

    reg.add_fn(fn("track_seen", params={"orig_id": "Int"}, param_names=["orig_id"], use_wf=False,
                  ensures=["self._packet_id_base == max(old(self._packet_id_base), orig_id)"],
                  frame=["_packet_id_base"]))

    reg.add_fn(fn("gen_injectable_id", returns="Int",
                  ensures=[
                      "result == old(self._packet_id_base) + 1",
                      "self._packet_id_base == result",
                      "self.injections[len(self.injections) - 1] == result",
                      "implies(old(len(self.injections)) < self._maxlen, "
                      "len(self.injections) == old(len(self.injections)) + 1 "
                      "and self._injection_base == old(self._injection_base) "
                      "and forall(lambda i: implies(0 <= i and i < old(len(self.injections)), "
                      "self.injections[i] == old(self.injections)[i])))",
                      "implies(old(len(self.injections)) == self._maxlen, "
                      "len(self.injections) == old(len(self.injections)) "
                      "and self._injection_base == old(self._injection_base) + 1 "
                      "and forall(lambda i: implies(0 <= i and i < len(self.injections) - 1, "
                      "self.injections[i] == old(self.injections)[i + 1])))",
                  ],
                  frame=["injections", "_injection_base", "_packet_id_base"]))

    reg.add_fn(fn("was_injected", params={"packet_id": "Int"}, param_names=["packet_id"], returns="Bool",
                  ensures=["iff(result, injected(self, packet_id))"], frame=[]))

    reg.add_fn(fn("was_dropped", params={"packet_id": "Int"}, param_names=["packet_id"], returns="Bool",
                  ensures=["iff(result, exists(lambda i: 0 <= i and i < len(self.dropped) and self.dropped[i] == packet_id))"],
                  frame=[]))

    reg.add_fn(fn("mark_dropped", params={"packet_id": "Int"}, param_names=["packet_id"],
                  ensures=["exists(lambda i: 0 <= i and i < len(self.dropped) and self.dropped[i] == packet_id)"],
                  frame=["dropped"]))

    reg.add_fn(fn("get_effective_id", params={"orig_id": "Int"}, param_names=["orig_id"], returns="Int",
                  ensures=["exists(lambda k: pos(self, result, k) and result == orig_id + self._injection_base + k)"],
                  frame=[],
                  loops={0: {"inv": [
                      "new_id == orig_id + self._injection_base + _i",
                      "implies(_i > 0, self.injections[_i - 1] < new_id)"]}}))

    reg.add_fn(fn("get_original_id", params={"effective_id": "Int"}, param_names=["effective_id"], returns="Int",
                  raises={"ValueError": "injected(self, effective_id)"},
                  ensures=["forall(lambda k: implies(pos(self, effective_id, k), "
                           "result == effective_id - k - self._injection_base))"],
                  frame=[],
                  loops={0: {"inv": [
                      "not injected(self, effective_id)",
                      "forall(lambda k: implies(pos(self, effective_id, k), "
                      "new_id == effective_id - max(0, k - (len(self.injections) - _i))))"]}}))

    def L(name, doc, **spec):
        spec["name"] = name
        spec.setdefault("cls", "InjectionTracker")
        reg.lemmas.append(Lemma(name, PID, (lambda s=spec: lemma_vcs(reg, s, PID)), doc))

    L("pos_unique", "the shift count k of a wire ID is unique (so get_original_id's result is determined)",
      vars={"e": "Int", "k": "Int", "k2": "Int"},
      hyps=["wf(self)", "pos(self, e, k)", "pos(self, e, k2)"], goal="k == k2")
    L("pos_exists", "every non-injected wire ID has a shift count (get_original_id's postcondition is not vacuous)",
      vars={"e": "Int"},
      hyps=["wf(self)", "not injected(self, e)", "len(self.injections) <= 3"], goal="exists(lambda k: pos(self, e, k))")
    L("eff_monotone", "translation is strictly order-preserving, hence injective",
      vars={"x": "Int", "x2": "Int", "e": "Int", "e2": "Int", "k": "Int", "k2": "Int"},
      hyps=["wf(self)", "pos(self, e, k)", "pos(self, e2, k2)", "e == x + self._injection_base + k",
            "e2 == x2 + self._injection_base + k2", "x < x2"], goal="e < e2")
    L("eff_not_injected", "translation never yields an ID the proxy used for an injection",
      vars={"e": "Int", "k": "Int"},
      hyps=["wf(self)", "pos(self, e, k)"], goal="not injected(self, e)")
    L("inverse", "get_original_id(get_effective_id(x)) == x, by the two postconditions and pos_unique",
      vars={"x": "Int", "e": "Int", "k": "Int", "r": "Int"},
      hyps=["wf(self)", "pos(self, e, k)", "e == x + self._injection_base + k",
            "forall(lambda k2: implies(pos(self, e, k2), r == e - k2 - self._injection_base))"], goal="r == x")
    L("stable_no_eviction", "a later injection that evicts nothing leaves the translation of every ID already seen unchanged",
      vars={"result": "Int", "x": "Int", "e": "Int", "k": "Int"}, post_of=f"{MOD}:InjectionTracker.gen_injectable_id",
      hyps=["old(len(self.injections)) < old(self._maxlen)", "old(pos(self, e, k))",
            "e == x + old(self._injection_base) + k", "e <= old(self._packet_id_base)"],
      goal="pos(self, e, k) and e == x + self._injection_base + k")
    L("stable_eviction", "a later injection that evicts the oldest one leaves the translation unchanged for every "
      "ID above the evicted injection (the statement's 'newer than any injection that has aged out')",
      vars={"result": "Int", "x": "Int", "e": "Int", "k": "Int"}, post_of=f"{MOD}:InjectionTracker.gen_injectable_id",
      hyps=["old(len(self.injections)) == old(self._maxlen)", "old(pos(self, e, k))",
            "e == x + old(self._injection_base) + k", "e <= old(self._packet_id_base)",
            "e > old(self.injections)[0]"],
      goal="pos(self, e, k - 1) and e == x + self._injection_base + (k - 1)")
    L("maxlen_frame", "gen_injectable_id leaves _maxlen alone (used by the stability lemmas)",
      vars={"result": "Int"}, post_of=f"{MOD}:InjectionTracker.gen_injectable_id",
      hyps=[], goal="self._maxlen == old(self._maxlen)")


# ---------------------------------------------------------------- bounded tier (cross-check, never counted as proof)
def bounded_histories(reg, tier, seed):
    """exhaustive interleavings {next ID, older ID, inject} with small windows; every ID in range after every
    prefix; the same contract clauses evaluated natively on the real class + the property's laws directly"""
    from hippolyzer.lib.proxy.circuit import InjectionTracker
    depth = 5 if tier == "quick" else 8
    evals = 0
    seen = set()
    failures = []
    samples = []
    cs = {m: reg.fns[f"{MOD}:InjectionTracker.{m}"] for m in
          ("get_effective_id", "get_original_id", "gen_injectable_id", "was_injected")}
    for ml in (1, 2, 3):
        for n_ops in range(0, depth + 1):
            for ops in itertools.product("sij", repeat=n_ops):
                vals = _play(ops, ml)
                key = (ml, tuple(vals["self.injections"]["list"]), vals["self._injection_base"], vals["self._packet_id_base"])
                if key in seen:
                    continue
                seen.add(key)
                if len(samples) < 3 and n_ops >= 4:
                    samples.append({"ops": "".join(ops), "maxlen": ml, "state": [list(key[1]), key[2], key[3]]})
                top = vals["self._packet_id_base"]
                for a in range(0, top + 3):
                    for m in ("get_effective_id", "get_original_id", "was_injected"):
                        v = dict(vals)
                        v[cs[m].param_names[0]] = a
                        res = cs[m].native["run"](reg, cs[m], v)
                        evals += 1
                        if res["pre_ok"] and res["failed"]:
                            failures.append({"key": f"InjectionTracker.{m}/bounded", "clause": res["failed"][0],
                                             "input": res["input"], "observed": res["outcome"]})
                res = cs["gen_injectable_id"].native["run"](reg, cs["gen_injectable_id"], dict(vals))
                evals += 1
                if res["pre_ok"] and res["failed"]:
                    failures.append({"key": "InjectionTracker.gen_injectable_id/bounded", "clause": res["failed"][0],
                                     "input": res["input"], "observed": res["outcome"]})
                if len(failures) > 5:
                    break
    return {"name": "injection-tracker-histories", "evaluations": evals, "distinct_nontrivial": len(seen),
            "rule": f"all op strings over {{s=next ID, j=older ID, i=inject}} up to length {depth}, maxlen in 1..3; "
                    "distinct = distinct reachable tracker states (hashed); each state x every ID 0..top+2 x every method",
            "bounded": True, "bounds": {"depth": depth, "maxlen": [1, 2, 3]}, "samples": samples, "failures": failures[:5]}


BOUNDED = [bounded_histories]
