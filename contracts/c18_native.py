"""C18 bounded tier."""
import itertools
import random


def _mk_session_env():
    from contracts.proxy_harness import Harness
    return Harness()


def _entries(h, rng, n):
    """generated LLUDP / EQ log entries over a few message shapes"""
    from hippolyzer.lib.base.message.message import Message, Block
    from hippolyzer.lib.base.network.transport import Direction
    from hippolyzer.lib.proxy.message_logger import LLUDPMessageLogEntry, EQMessageLogEntry
    from hippolyzer.lib.base.datatypes import UUID, Vector3
    region = h.session.regions[0]
    out = []
    for i in range(n):
        kind = rng.choice(["chat", "ping", "update", "eq", "coarse"])
        if kind == "chat":
            m = Message("ChatFromViewer", Block("AgentData", AgentID=h.session.agent_id, SessionID=h.session.id),
                        Block("ChatData", Message=rng.choice(["hello", "", "foo bar", "x" * 30]), Type=rng.choice([0, 1, 2]), Channel=rng.choice([0, 5, 524])),
                        packet_id=i, direction=Direction.OUT, flags=rng.choice([0, 0x40]))
        elif kind == "coarse":
            # Variable blocks with 0..2 instances: present-but-empty block lists are part of the message
            n_loc = rng.choice([0, 0, 1, 2])
            m = Message("CoarseLocationUpdate", Block("Index", You=-1, Prey=-1), packet_id=i, direction=Direction.IN)
            m.create_block_list("Location")
            m.create_block_list("AgentData")
            for k in range(n_loc):
                m.add_block(Block("Location", X=k, Y=2, Z=3))
                m.add_block(Block("AgentData", AgentID=UUID(int=k + 1)))
        elif kind == "ping":
            m = Message("CompletePingCheck", Block("PingID", PingID=rng.randrange(256)), packet_id=i, direction=rng.choice([Direction.IN, Direction.OUT]))
        elif kind == "update":
            m = Message("AgentUpdate", Block("AgentData", AgentID=h.session.agent_id, SessionID=h.session.id, BodyRotation=(0.0, 0.0, 0.0, 1.0),
                                             HeadRotation=(0.0, 0.0, 0.0, 1.0), State=rng.randrange(4), CameraCenter=Vector3(1.0, 2.0, 3.0),
                                             CameraAtAxis=(1.0, 0.0, 0.0), CameraLeftAxis=(0.0, 1.0, 0.0), CameraUpAxis=(0.0, 0.0, 1.0),
                                             Far=rng.choice([64.0, 128.5]), ControlFlags=rng.randrange(1 << 20), Flags=rng.randrange(4)),
                        packet_id=i, direction=Direction.OUT)
        else:
            out.append(EQMessageLogEntry({"message": rng.choice(["AgentGroupDataUpdate", "ParcelProperties"]), "body": {"Foo": [{"Bar": rng.randrange(5)}]}},
                                         region, h.session))
            continue
        m.meta["Tag"] = rng.choice(["a", 3, None])
        if rng.random() < 0.2:
            # a message the proxy injected itself: it has no sequence number yet, whatever its direction and flags
            m.packet_id = None
            m.send_flags = 0x40
            m.dropped = rng.random() < 0.5
        out.append(LLUDPMessageLogEntry(m, region, h.session))
    return out


def UUID_ZERO():
    from hippolyzer.lib.base.datatypes import UUID
    return UUID()


LEAVES = ["ChatFromViewer", "CompletePingCheck", "AgentUpdate", "*", "LLUDP", "EQ", "Nope", "Chat*",
          "ChatFromViewer.ChatData.Channel == 524", "ChatFromViewer.ChatData.Message ~= 'foo'", "ChatFromViewer.ChatData.Message ^= 'he'",
          "*.*.PingID > 100", "*.*.PingID & 1", "AgentUpdate.AgentData.Far >= 100", "AgentUpdate.AgentData.CameraCenter == (1, 2, 3)",
          "Meta.Method == 'OUT'", "Meta.Type == 'LLUDP'", "Meta.Reliable", "Meta.Tag == 3", "Meta.Tag ^= 'a'", "Meta.Tag < 5", "Meta.Tag & 1",
          "Meta.Tag ~= 'a'", "Meta.Tag $= 'a'", "ChatFromViewer.ChatData.Message < 5", "ChatFromViewer.ChatData.Channel ^= 'x'",
          "ChatFromViewer.ChatData.Channel ~= 5", "AgentUpdate.AgentData.CameraCenter & 1", "CompletePingCheck.PingID.PingID $= 'z'",
          "Meta.AgentLocal > 1", "Meta.SelectedFull == None", "AgentGroupDataUpdate", "ParcelProperties.Foo.Bar == 3"]


def _gen_tree(rng, depth):
    """(filter string fully parenthesised, reference evaluator over a leaf-truth function)"""
    if depth == 0 or rng.random() < 0.3:
        leaf = rng.choice(LEAVES)
        return leaf, (lambda truth, leaf=leaf: truth(leaf))
    k = rng.choice(["not", "and", "or"])
    if k == "not":
        s, f = _gen_tree(rng, depth - 1)
        return f"!({s})", (lambda truth, f=f: not f(truth))
    ls, lf = _gen_tree(rng, depth - 1)
    rs, rf = _gen_tree(rng, depth - 1)
    if k == "and":
        return f"({ls}) && ({rs})", (lambda truth, lf=lf, rf=rf: lf(truth) and rf(truth))
    return f"({ls}) || ({rs})", (lambda truth, lf=lf, rf=rf: lf(truth) or rf(truth))


def bounded_filters(reg, tier, seed):
    from hippolyzer.lib.proxy.message_filter import compile_filter
    from hippolyzer.lib.proxy.message_logger import (FilteringMessageLogger, LLUDPMessageLogEntry, export_log_entries, import_log_entries)
    import operator as op_
    rng = random.Random(seed)
    evals, failures, seen, samples = 0, [], set(), []

    def fail(key, what, inp):
        if sum(1 for f in failures if f["key"] == key) < 2:
            failures.append({"key": key, "clause": what, "input": inp, "observed": what})
    h = _mk_session_env()
    try:
        h.open_circuits()
        entries = _entries(h, rng, 30 if tier == "quick" else 120)
        # (1) leaf comparisons: never an error, always a truth value, for every leaf on every entry
        leaf_truth = {}
        for leaf in LEAVES:
            try:
                node = compile_filter(leaf)
            except Exception as ex:  # noqa
                fail("filters/grammar", f"filter {leaf!r} does not compile: {type(ex).__name__}", {"filter": leaf})
                for i, e in enumerate(entries):
                    leaf_truth[(leaf, i)] = False
                continue
            for i, e in enumerate(entries):
                evals += 1
                seen.add(("leaf", leaf, i))
                try:
                    r = node.match(e, True)
                    leaf_truth[(leaf, i)] = bool(r)
                    r2 = node.match(e, False)
                    if bool(r2) != bool(r):
                        fail("filters/leaf-modes", f"leaf {leaf!r}: short-circuit and full evaluation disagree", {"filter": leaf, "entry": e.name})
                except Exception as ex:  # noqa
                    leaf_truth[(leaf, i)] = False
                    fail("filters/leaf-error", f"leaf {leaf!r} raised {type(ex).__name__}: {ex} on a {e.name} entry (inapplicable comparison must be false)",
                         {"filter": leaf, "entry": e.name})
        # (1c) comparisons against a reference computed from the values themselves, on entries whose message came off the wire
        # (text fields of such messages are byte strings that also compare with str): == / != / < / > / <= / >= on one selected field
        from hippolyzer.lib.base.message.message import Message as _M2, Block as _B2
        from hippolyzer.lib.base.network.transport import Direction as _D2
        from hippolyzer.lib.base.message.udpserializer import UDPMessageSerializer as _Ser
        from hippolyzer.lib.base.message.udpdeserializer import UDPMessageDeserializer as _Des
        _ser, _des = _Ser(), _Des()
        cmp_ = {"==": op_.eq, "!=": op_.ne, "<": op_.lt, ">": op_.gt, "<=": op_.le, ">=": op_.ge}
        for text, chan in itertools.product(("hello", "foo bar", "x"), (0, 5, 524)):
            m0 = _M2("ChatFromViewer", _B2("AgentData", AgentID=h.session.agent_id, SessionID=h.session.id),
                     _B2("ChatData", Message=text, Type=1, Channel=chan), packet_id=900, direction=_D2.OUT)
            for off_wire in (False, True):
                mm = _des.deserialize(_ser.serialize(m0)) if off_wire else m0
                if off_wire:
                    mm.direction = _D2.OUT
                ent = LLUDPMessageLogEntry(mm, h.session.regions[0], h.session)
                cases = [(f"ChatFromViewer.ChatData.Message {o} '{lit}'", cmp_[o](text, lit)) for o in ("==", "!=") for lit in ("hello", "foo bar", "zzz")]
                cases += [(f"ChatFromViewer.ChatData.Channel {o} {lit}", cmp_[o](chan, lit)) for o in cmp_ for lit in (0, 5, 6, 524)]
                for flt, want in cases:
                    evals += 1
                    seen.add(("cmp", flt, text, chan, off_wire))
                    try:
                        node = compile_filter(flt)
                        got = (bool(node.match(ent, True)), bool(node.match(ent, False)))
                    except Exception as ex:  # noqa
                        fail("filters/compare", f"{flt!r} raised {type(ex).__name__}: {ex}", {"filter": flt, "off_wire": off_wire})
                        continue
                    if got != (want, want):
                        fail("filters/compare", f"{flt!r} on a message with Message={text!r} Channel={chan} ({'parsed off the wire' if off_wire else 'built in memory'}) "
                             f"gave {got}, the comparison is {want}", {"filter": flt, "Message": text, "Channel": chan, "off_wire": off_wire})
        # (1f) vector fields compare component by component (a partial order): >= holds when every component is >=, also when some
        # components are equal and the others strictly greater
        from hippolyzer.lib.base.datatypes import Vector3 as _V3
        for vec in ((1.0, 2.0, 3.0), (1.0, 1.0, 1.0), (0.0, 5.0, 1.0)):
            mv = _M2("AgentUpdate", _B2("AgentData", AgentID=h.session.agent_id, SessionID=h.session.id, BodyRotation=(0.0, 0.0, 0.0, 1.0),
                                          HeadRotation=(0.0, 0.0, 0.0, 1.0), State=0, CameraCenter=_V3(*vec), CameraAtAxis=(1.0, 0.0, 0.0),
                                          CameraLeftAxis=(0.0, 1.0, 0.0), CameraUpAxis=(0.0, 0.0, 1.0), Far=64.0, ControlFlags=0, Flags=0),
                     packet_id=903, direction=_D2.OUT)
            ent = LLUDPMessageLogEntry(mv, h.session.regions[0], h.session)
            for lit in ((1, 1, 1), (1, 2, 3), (0, 1, 2), (2, 2, 3), (2, 0, 0), (1, 5, 3)):
                for o in ("<", ">", "<=", ">=", "=="):
                    want = all(cmp_[o](a_, b_) for a_, b_ in zip(vec, lit))
                    flt = f"AgentUpdate.AgentData.CameraCenter {o} {lit}"
                    evals += 1
                    seen.add(("vec", flt, vec))
                    try:
                        got = (bool(compile_filter(flt).match(ent, True)), bool(compile_filter(flt).match(ent, False)))
                    except Exception as ex:  # noqa
                        fail("filters/compare", f"{flt!r} raised {type(ex).__name__}: {ex}", {"filter": flt, "value": vec})
                        continue
                    if got != (want, want):
                        fail("filters/compare", f"{flt!r} on a message with CameraCenter={vec} gave {got}, component by component it is {want}", {"filter": flt, "value": vec})
        # (1d) a byte-string field of a message parsed off the wire (text-or-binary fields decode to a bytes type that also compares
        # with str): for one selected field, `!=` holds exactly when `==` does not - whatever the literal's type
        gm = _M2("GenericMessage", _B2("AgentData", AgentID=h.session.agent_id, SessionID=h.session.id, TransactionID=UUID_ZERO()),
                 _B2("MethodData", Method="themethod", Invoice=UUID_ZERO()), _B2("ParamList", Parameter=b"hello"), packet_id=901, direction=_D2.OUT)
        gm2 = _des.deserialize(_ser.serialize(gm))
        gm2.direction = _D2.OUT
        for mm in (gm, gm2):
            ent = LLUDPMessageLogEntry(mm, h.session.regions[0], h.session)
            for fld in ("GenericMessage.ParamList.Parameter", "GenericMessage.MethodData.Method"):
                for lit in ("'hello'", "'themethod'", "'zzz'", "b'hello'", "b'zzz'"):      # literals of the field's own kinds (an inapplicable one is false both ways)
                    evals += 1
                    seen.add(("neq", fld, lit, mm is gm2))
                    try:
                        eq = bool(compile_filter(f"{fld} == {lit}").match(ent, True))
                        ne = bool(compile_filter(f"{fld} != {lit}").match(ent, True))
                        ne2 = bool(compile_filter(f"{fld} != {lit}").match(ent, False))
                    except Exception as ex:  # noqa
                        fail("filters/compare", f"{fld} ==/!= {lit} raised {type(ex).__name__}: {ex}", {"field": fld, "literal": lit})
                        continue
                    if ne == eq or ne2 == eq:
                        fail("filters/compare", f"{fld} == {lit} is {eq} and {fld} != {lit} is {ne} on the same entry "
                             f"({'parsed off the wire' if mm is gm2 else 'built in memory'})", {"field": fld, "literal": lit, "off_wire": mm is gm2})
        # (1b) subfield selectors (Msg.Block.Var.Subfield) with wildcards in the subfield position: "some selected subfield
        # satisfies the comparison" - against a reference that walks the decoded subfields itself
        import fnmatch as _fn
        import struct as _st
        from hippolyzer.lib.base.message.message import Message as _M, Block as _B
        from hippolyzer.lib.base.network.transport import Direction as _D
        od = _st.pack("<15f", 5.0, 5.0, 5.0, 0.0, 0.0, 0.0, 0.25, 0.25, 0.25, 0.0, 0.0, 0.0, 2.0, 2.0, 2.0)
        ou = _M("ObjectUpdate", _B("RegionData", RegionHandle=1, TimeDilation=1),
                _B("ObjectData", ID=1, State=0, FullID=UUID_ZERO(), CRC=0, PCode=9, Material=0, ClickAction=0, Scale=(1.0, 1.0, 1.0),
                   ObjectData=od, ParentID=0, UpdateFlags=0, PathCurve=0, ProfileCurve=0, PathBegin=0, PathEnd=0, PathScaleX=0, PathScaleY=0,
                   PathShearX=0, PathShearY=0, PathTwist=0, PathTwistBegin=0, PathRadiusOffset=0, PathTaperX=0, PathTaperY=0,
                   PathRevolutions=0, PathSkew=0, ProfileBegin=0, ProfileEnd=0, ProfileHollow=0, TextureEntry=b"", TextureAnim=b"",
                   NameValue=b"", Data=b"", Text=b"", TextColor=b"\x00" * 4, MediaURL=b"", PSBlock=b"", ExtraParams=b"\x00",
                   Sound=UUID_ZERO(), OwnerID=UUID_ZERO(), Gain=0.0, Flags=0, Radius=0.0, JointType=0, JointPivot=(0.0, 0.0, 0.0),
                   JointAxisOrAnchor=(0.0, 0.0, 0.0)), packet_id=77, direction=_D.IN)
        e_ou = LLUDPMessageLogEntry(ou, h.session.regions[0], h.session)
        try:
            decoded = ou["ObjectData"][0].deserialize_var("ObjectData", make_copy=False)
            decoded = getattr(decoded, "value", decoded) if not isinstance(decoded, dict) else decoded     # tagged union: the value
        except Exception as ex:  # noqa
            decoded = None
            fail("filters/subfield", f"harness: ObjectUpdate.ObjectData.ObjectData does not decode: {ex!r}", {})
        if isinstance(decoded, dict):
            for pat in ("Position", "Velocity", "Acceleration", "*", "*ion", "Vel*", "A*", "Nope*"):
                for oper, lit in (("<", "(1, 1, 1)"), (">", "(1, 1, 1)"), ("==", "(0, 0, 0)"), (None, None)):
                    flt = f"ObjectUpdate.ObjectData.ObjectData.{pat}" + (f" {oper} {lit}" if oper else "")
                    keys = [k for k in decoded.keys() if _fn.fnmatchcase(str(k), pat)]
                    if oper is None:
                        want = bool(keys)
                    else:
                        from hippolyzer.lib.proxy.message_filter import LiteralValue as _LV
                        litv = _LV(eval(lit))
                        want = any(e_ou._val_matches(oper, decoded[k], litv) for k in keys)
                    evals += 1
                    seen.add(("subfield", flt))
                    try:
                        node = compile_filter(flt)
                        for sc in (True, False):
                            got = bool(node.match(e_ou, sc))
                            if got != want:
                                fail("filters/subfield", f"{flt!r} (short_circuit={sc}) evaluates to {got}; some selected subfield "
                                     f"{'satisfies' if want else 'does not satisfy'} it (selected: {keys})", {"filter": flt, "short_circuit": sc})
                    except Exception as ex:  # noqa
                        fail("filters/subfield", f"{flt!r} raised {type(ex).__name__}: {ex}", {"filter": flt})
        # _val_matches directly: every operator x value-type pair
        from hippolyzer.lib.proxy.message_filter import LiteralValue
        vals = [0, 5, 2.5, "abc", b"ab", None, (1.0, 2.0, 3.0), True]
        e0 = [e for e in entries if isinstance(e, LLUDPMessageLogEntry)][0]
        for oper in [None, "==", "!=", "^=", "$=", "~=", "<", "<=", ">", ">=", "&"]:
            for v in vals:
                for x in vals:
                    evals += 1
                    seen.add(("valmatch", oper, repr(v), repr(x)))
                    try:
                        r = e0._val_matches(oper, v, LiteralValue(x))
                        bool(r)
                    except Exception as ex:  # noqa
                        fail("filters/val-matches-error", f"_val_matches({oper!r}, {v!r}, {x!r}) raised {type(ex).__name__} (must be false, never an error)",
                             {"operator": oper, "value": repr(v), "expected": repr(x)})
        # (2) trees: compiled filter vs denotation, both modes
        for t in range(150 if tier == "quick" else 2000):
            s, ref = _gen_tree(rng, rng.choice([1, 2, 3, 4]))
            try:
                node = compile_filter(s)
            except Exception as ex:  # noqa
                fail("filters/grammar", f"filter {s!r} does not compile: {type(ex).__name__}", {"filter": s})
                continue
            seen.add(("tree", s))
            if len(samples) < 3:
                samples.append({"filter": s})
            for i, e in enumerate(entries[:12]):
                evals += 1
                want = bool(ref(lambda leaf, i=i: leaf_truth[(leaf, i)]))
                for mode in (True, False):
                    try:
                        got = bool(node.match(e, mode))
                    except Exception as ex:  # noqa
                        got = None
                    if got != want:
                        fail("filters/tree", f"filter {s!r} short_circuit={mode}: got {got}, its denotation is {want}", {"filter": s, "entry": e.name, "mode": mode})
        # (3) view == retained entries matching the filter, arrival order, no duplicates
        for run in range(40 if tier == "quick" else 400):
            maxlen = rng.choice([3, 5, 8])
            lg = FilteringMessageLogger(maxlen=maxlen)
            filt = ""
            shown_aged = []          # aged-out entries still shown
            raw = []
            paused = False
            ops_log = []
            for step in range(rng.randrange(5, 40)):
                o = rng.choice(["log", "log", "log", "filter", "pause", "clear"])
                evals += 1
                if o == "log":
                    e = rng.choice(entries)
                    if e in raw or e in shown_aged:
                        continue          # one entry object is logged once
                    ops_log.append(("log", e.name))
                    lg.add_log_entry(e)
                    if not paused:
                        raw.append(e)
                        if len(raw) > maxlen:
                            old = raw.pop(0)
                            if bool(compile_filter(filt).match(old)):
                                shown_aged.append(old)
                elif o == "filter":
                    filt = rng.choice(["", "ChatFromViewer", "!ChatFromViewer", "CompletePingCheck || AgentUpdate", "Nope", "Meta.Reliable"])
                    ops_log.append(("filter", filt))
                    lg.set_filter(filt)
                    shown_aged = [e for e in shown_aged if bool(compile_filter(filt).match(e))]
                elif o == "pause":
                    paused = not paused
                    ops_log.append(("pause", paused))
                    lg.set_paused(paused)
                else:
                    ops_log.append(("clear",))
                    lg.clear()
                    raw, shown_aged = [], []
                f = compile_filter(filt)
                want = shown_aged + [e for e in raw if bool(f.match(e))]
                got = list(lg)
                if [id(x) for x in got] != [id(x) for x in want]:
                    fail("filters/view", f"visible log has {len(got)} entries, expected {len(want)} (retained entries matching {filt!r} in arrival order)",
                         {"ops": [str(x) for x in ops_log[-10:]], "maxlen": maxlen})
                    break
            seen.add(("view", run))
        # (3b) several loggers behind one WrappingMessageLogger (the GUI's log and a file log, say), each with its own filter, one of
        # them paused part of the time: every logger's view is the retained entries matching *its* filter
        from hippolyzer.lib.proxy.message_logger import WrappingMessageLogger
        for run in range(6 if tier == "quick" else 40):
            wrap = WrappingMessageLogger()
            filts = [rng.choice(["ChatFromViewer || CompletePingCheck", "ChatFromViewer", "*", "AgentUpdate", "Nope"]) for _ in range(rng.choice([2, 3]))]
            logs = []
            for f_ in filts:
                lg_ = FilteringMessageLogger(maxlen=50)
                lg_.set_filter(f_)
                logs.append(lg_)
                wrap.loggers.append(lg_)
            fresh = [e for e in _entries(h, rng, 12) if isinstance(e, LLUDPMessageLogEntry)]
            kept = [[] for _ in logs]
            for e in fresh:
                evals += 1
                if rng.random() < 0.15:
                    k_ = rng.randrange(len(logs))
                    logs[k_].set_paused(not logs[k_].paused)
                for k_, lg_ in enumerate(logs):
                    if not lg_.paused:
                        kept[k_].append(e)
                wrap.add_log_entry(e)
            for k_, lg_ in enumerate(logs):
                want = [id(e) for e in kept[k_] if compile_filter(filts[k_]).match(e, True)]
                got = [id(e) for e in lg_]
                if got != want:
                    fail("filters/view", f"logger #{k_ + 1} of {len(logs)} behind one wrapper (filters {filts}) shows {len(got)} entries, its filter "
                         f"{filts[k_]!r} matches {len(want)} of the entries logged while it was not paused", {"filters": filts, "logger": k_})
                lg_.set_filter("*")
                if [id(e) for e in lg_] != [id(e) for e in kept[k_]]:
                    fail("filters/view", f"logger #{k_ + 1} behind a wrapper does not retain every entry logged while it was not paused "
                         f"({len(list(lg_))} of {len(kept[k_])} after re-filtering with '*')", {"filters": filts, "logger": k_})
            seen.add(("wrapper", run, tuple(filts)))
        # (1e) Meta.* comparisons follow the value the message carries, also when that value is 0 or the empty string, and the message's
        # own value shadows the entry's
        for val in (0, 1, 5, "", "x"):
            m0 = _M2("CompletePingCheck", _B2("PingID", PingID=1), packet_id=902, direction=_D2.OUT)
            m0.meta["Hits"] = val
            m0.meta["SelectedLocal"] = val
            ent = LLUDPMessageLogEntry(m0, h.session.regions[0], h.session)
            ent.meta["SelectedLocal"] = 1234
            if isinstance(val, int):
                cases = [(f"Meta.{k} {o} {lit}", cmp_[o](val, lit)) for k in ("Hits", "SelectedLocal") for o in cmp_ for lit in (0, 1, 1234)]
            else:
                cases = [(f"Meta.{k} {o} '{lit}'", cmp_[o](val, lit)) for k in ("Hits", "SelectedLocal") for o in ("==", "!=") for lit in ("", "x")]
            for flt, want in cases:
                evals += 1
                seen.add(("meta", flt, val))
                try:
                    got = (bool(compile_filter(flt).match(ent, True)), bool(compile_filter(flt).match(ent, False)))
                except Exception as ex:  # noqa
                    fail("filters/compare", f"{flt!r} raised {type(ex).__name__}: {ex}", {"filter": flt, "meta_value": val})
                    continue
                if got != (want, want):
                    fail("filters/compare", f"{flt!r} on a message whose meta carries {val!r} gave {got}, the comparison is {want}", {"filter": flt, "meta_value": val})
        # (4) freeze/thaw and export/import
        for e in entries:
            if not isinstance(e, LLUDPMessageLogEntry):
                continue
            evals += 1
            before = e.message.to_dict(extended=True)
            name0, seq0 = e.name, e.seq
            for k in range(2):
                try:
                    e.freeze()
                    after = e.message.to_dict(extended=True)
                    if after != before or e.name != name0:
                        fail("filters/freeze", f"freeze/thaw #{k + 1} changed the logged {name0} message", {"entry": name0})
                except Exception as ex:  # noqa
                    fail("filters/freeze", f"freeze/thaw #{k + 1} of a {name0} entry raised {type(ex).__name__}: {ex}", {"entry": name0, "freeze_count": k + 1})
                    break
        try:
            lud = [e for e in entries if isinstance(e, LLUDPMessageLogEntry)]
            blob = export_log_entries(lud)
            back = import_log_entries(blob)
            evals += len(lud)
            from hippolyzer.lib.base.message.udpserializer import UDPMessageSerializer
            ser = UDPMessageSerializer()
            for a, b in zip(lud, back):
                ma, mb = a.message, b.message
                # "preserves the logged message": same name, id, flags, direction, meta and the same datagram when encoded
                # (LLSD notation carries vectors as arrays, so Python-level tuple/list identity is not part of the claim)
                same = (ma.name == mb.name and ma.packet_id == mb.packet_id and int(ma.send_flags) == int(mb.send_flags) and bool(ma.dropped) == bool(mb.dropped)
                        and dict(ma.meta) == dict(mb.meta)
                        and ma.direction == mb.direction and tuple(ma.acks) == tuple(mb.acks) and ser.serialize(ma) == ser.serialize(mb)
                        # the same block lists, empty ones included (msg["Location"] is [] before and after, not a KeyError)
                        and {k: len(v) for k, v in ma.blocks.items()} == {k: len(v) for k, v in mb.blocks.items()})
                if not same or a.name != b.name or a.type != b.type:
                    fail("filters/export", f"export/import changed a {a.name} entry", {"entry": a.name})
            if len(back) != len(lud):
                fail("filters/export", "export/import changed the number of entries", {})
        except Exception as ex:  # noqa
            fail("filters/export", f"export/import raised {type(ex).__name__}: {ex}", {})
    finally:
        h.close()
    return {"name": "filters-and-log-view", "evaluations": evals, "distinct_nontrivial": len(seen),
            "rule": "33 leaf filters x generated LLUDP/EQ entries; _val_matches over 11 operators x 8x8 value types; generated filter trees "
                    "to depth 4 compiled through the grammar vs their denotation in both modes; logger operation sequences {log, set filter, "
                    "pause, clear, overflow} vs reference; freeze twice / thaw; export/import. distinct = distinct (kind, case)",
            "bounded": True, "bounds": {"tree_depth": 4}, "samples": samples, "failures": failures}
