"""Tier-P contracts for C11: parsing in safe mode never evaluates expressions contained in the text."""
from pyvc.contracts import ClassDecl, FnContract

FREL = "hippolyzer/lib/base/message/message_formatting.py"


def register_p(reg, prop):
    reg.add_class(ClassDecl("HumanMessageSerializerCls", fields={}))
    o = "Opaque:Any"
    ext = {
        "maybe_reload_templates": {"doc": "template hot reload"},
        "string.split": {"returns": "Opaque:StrList", "doc": "str.split"},
        "*.pop": {"returns": "Str", "doc": "next line of the text (arbitrary string)"},
        "re.match": {"returns": "Opt[Opaque:Match]", "doc": "regular expression match (any outcome)"},
        "re.search": {"returns": "Opaque:Match", "doc": "regular expression search"},
        "re.sub": {"returns": "Str", "doc": "regular expression substitution"},
        "*.group": {"returns": "Str", "doc": "match group"},
        "*.groups": {"returns": "Tuple[Str,Str,Str]", "doc": "the three groups of the field regex: name, operator, value text (arbitrary strings)"},
        "Message": {"returns": o, "doc": "message constructor"},
        "Block": {"returns": o, "doc": "block constructor"},
        "*.add_block": {"doc": "append block"},
        "*.get": {"returns": "Opt[Opaque:Any]", "doc": "dict get"},
        "datatypes.UUID": {"returns": o, "may_raise": "ValueError", "doc": "uuid parse"},
        "ast.literal_eval": {"returns": o, "may_raise": "AnyException", "record_as": "literal_eval",
                             "doc": "evaluates literals only: no calls, names or attribute access (trusted)"},
        "subfield_eval": {"returns": o, "may_raise": "AnyException", "record_as": "eval", "doc": "eval() of the value text"},
        "callable": {"returns": "Bool", "doc": "callable()"},
        "call:opaque": {"returns": o, "may_raise": "AnyException", "doc": "replacement callback"},
        "se.SUBFIELD_SERIALIZERS.get": {"returns": "Opt[Opaque:Ser]", "doc": "registry lookup"},
        "*.serialize": {"returns": o, "may_raise": "AnyException", "record_as": "subfield_serialize", "doc": "registered subfield serializer"},
    }
    reg.add_fn(FnContract(
        key="hippolyzer.lib.base.message.message_formatting:HumanMessageSerializer.from_human_string", relpath=FREL,
        qualname="HumanMessageSerializer.from_human_string", cls="HumanMessageSerializerCls", prop=prop,
        params={"string": "Str", "replacements": "Opt[Opaque:Any]", "env": "Opt[Opaque:Any]", "safe": "Bool"},
        param_names=["string", "replacements", "env", "safe"], externals=ext,
        may_raise={"AnyException": "", "ValueError": "", "KeyError": "", "AttributeError": "", "TypeError": "", "IndexError": ""},
        loops={
            0: {"inv": ["True"],
                "havoc_sorts": {"msg": "Opaque:Any", "cur_block": "Opaque:Any", "first_line": "Bool"},
                "iter_post": ["implies(safe, ncalls('eval') == 0)"]},
            1: {"inv": ["True"]},
            2: {"inv": ["ncalls('eval') == 0"], "havoc_sorts": {"var_val": "Str"}},
        },
        ensures=["True"], frame=None))
