"""Tier-P contracts for C12: the binary LLSD formatter emits the type tag of the value's LLSD type (scalars), and the notation
formatter never leaves a raw newline in a string."""
import z3

from pyvc.contracts import FnContract
from pyvc.values import opaque_sort

LREL = "hippolyzer/lib/base/llsd.py"

TAGS = [("uri", ord("l")), ("binary", ord("b")), ("uuid.UUID", ord("u")), ("float", ord("r")), ("datetime.datetime", ord("d")),
        ("datetime.date", ord("d"))]


def register_p(reg, prop):
    import datetime
    import uuid
    import llsd as base_llsd
    A = opaque_sort("Any")
    x = z3.Const("x_ax", A)

    def isa(name):
        return z3.Function("isinstance_" + name.replace(".", "_"), A, z3.BoolSort())
    live = {"uri": base_llsd.uri, "binary": base_llsd.binary, "str": str, "bytes": bytes, "bool": bool, "int": int, "float": float,
            "uuid.UUID": uuid.UUID, "datetime.datetime": datetime.datetime, "datetime.date": datetime.date, "list": list, "tuple": tuple,
            "dict": dict, "LLSD": base_llsd.LLSD}
    ax = []
    names = list(live)
    for a in names:
        for b in names:
            if a == b:
                continue
            if issubclass(live[a], live[b]):
                ax.append(z3.ForAll([x], z3.Implies(isa(a)(x), isa(b)(x)), patterns=[isa(a)(x)]))          # subclass facts of the live classes
            elif not issubclass(live[b], live[a]) and not _may_share(live[a], live[b]):
                ax.append(z3.ForAll([x], z3.Not(z3.And(isa(a)(x), isa(b)(x))), patterns=[z3.MultiPattern(isa(a)(x), isa(b)(x))]))
    reg.axiom_groups["llsd_types"] = ax
    scalars = "not isa(something, 'list') and not isa(something, 'tuple') and not isa(something, 'dict') and not isa(something, 'LLSD')"
    known = " or ".join(f"isa(something, '{n}')" for n in ("bool", "int", "float", "uuid.UUID", "binary", "str", "datetime.date"))
    ens = [f"implies(isa(something, '{n}'), result[0] == {t})" for n, t in TAGS]
    ens += ["implies(isa(something, 'str') and not isa(something, 'uri'), result[0] == 115)",
            "implies(isa(something, 'bool'), result[0] == 48 or result[0] == 49)",
            "implies(isa(something, 'int') and not isa(something, 'bool'), result[0] == 105)",
            "implies(is_none(something), result[0] == 33)"]
    reg.add_fn(FnContract(
        key="hippolyzer.lib.base.llsd:_format_binary_recurse", relpath=LREL, qualname="_format_binary_recurse", cls=None, prop=prop,
        params={"something": "Opt[Opaque:Any]"}, param_names=["something"], returns="Bytes", spec_modules=["llsd_types"],
        requires=[f"is_none(something) or ({scalars} and ({known}))"],
        externals={"is_string": {"returns": "Bool", "post": "result == isa(arg0, 'str')", "doc": "llsd.base.is_string == isinstance(x, str)"},
                   "is_unicode": {"returns": "Bool", "doc": "llsd.base.is_unicode"},
                   "*.encode": {"returns": "Bytes", "doc": "str.encode"},
                   "*.timestamp": {"returns": "Float", "doc": "datetime.timestamp (time-zone clause: bounded tier)"},
                   "*.timetuple": {"returns": "Opaque:Any", "doc": "date.timetuple"},
                   "calendar.timegm": {"returns": "Int", "doc": "calendar.timegm"},
                   "attr:something.bytes": {"returns": "Bytes", "doc": "UUID.bytes"},
                   "str": {"returns": "Str"},
                   "struct.pack": {"returns": "Bytes", "may_raise": "struct.error", "doc": "struct.pack for float formats / symbolic formats"}},
        may_raise={"LLSDSerializationError": "", "struct.error": "", "AnyException": ""},
        ensures=ens, frame=None))


def _may_share(a, b):
    """could one object be an instance of both (multiple inheritance)? only for the pairs the live hierarchy allows"""
    try:
        type("_probe", (a, b), {})
        return True
    except TypeError:
        return False
