"""C17 - event queue: no event lost, duplicated or reordered; injections delivered once."""
from pyvc.contracts import ClassDecl, FnContract, Lemma
from pyvc.engine import lemma_vcs
from contracts import http_native, c17b_contracts

PID = "C17"
RREL = "hippolyzer/lib/proxy/region.py"
RMOD = "hippolyzer.lib.proxy.region"

META = {
    "level": "other",
    "explanation": (
        "P (proved on the real bodies of EventQueueManager, events abstracted to their identities): inject_event appends exactly the "
        "event to the pending queue and keeps everything queued before; take_injected_events returns everything queued, in order, and "
        "leaves the queue empty (so each injected event is taken exactly once); cache_last_poll_response / get_cached_poll_response "
        "return the cached payload exactly for the ack it was stored under; clear empties queue and cache. "
        "MITMProxyEventManager._handle_response (quick tier: EventQueueGet branch with the logger absent; thorough tier: every branch), "
        "LLSD values unmodelled, control proved as ghost call-log obligations: a simulator event stays in the response iff its handler "
        "did not swallow it, and it is that event; injected events are taken at most once and appended after the simulator's; the "
        "response is cached exactly once under the request's ack and the body written back is made from the cached payload; nothing is "
        "merged for non-200 responses, for flows the proxy injected itself or when an addon handled the response. "
        "MITMProxyEventManager._handle_request (quick: EventQueueGet branch; thorough: every branch): the replay cache is consulted at most "
        "once, under the ack the request carries; a hit is answered with a synthetic 200 made from exactly the cached payload, a miss "
        "makes no synthetic response. BaseClientSession.register_region (what region-announcing events end in): a region already known "
        "under that circuit address - with or without a circuit - is returned and nothing is created; otherwise exactly one new region is "
        "created, appended and returned. "
        "B (bounded): whole poll histories against a reference queue (delivery exactly once and in order, undef when emptied, replay of a "
        "repeated poll, non-200 responses, region registration from events)."),
    "trusted_base": [
        "events are treated parametrically (only appended / moved): identity abstraction to integers",
        "the wake-up PlacesQuery sent by inject_event goes through Circuit.send (C05); weakref proxy truthiness is external",
        "_handle_eq_event (region registration from events): bounded tier only; in _handle_request / _handle_response the LLSD values, lists and "
        "weak references are unmodelled (lookups are pure reads) - only the control of the merge is proved",
    ],
}


def register(reg):
    reg.add_class(ClassDecl("EventQueueManager", fields={"_queued_events": "IntList", "_region": "Opaque:Any", "_last_ack": "Opt[Int]",
                                                         "_last_payload": "Opt[Int]", "llsd_message_serializer": "Opaque:Any"}))
    common = dict(relpath=RREL, prop=PID, cls="EventQueueManager")
    same_prefix = ("forall(lambda i: implies(0 <= i and i < old(len(self._queued_events)), self._queued_events[i] == old(self._queued_events)[i]))")
    reg.add_fn(FnContract(key=f"{RMOD}:EventQueueManager.inject_event", qualname="EventQueueManager.inject_event",
                          params={"event": "Int"}, param_names=["event"],
                          externals={"self._region.session": {"returns": "Opaque:Any", "doc": "weakref deref"},
                                     "*.send": {"record_as": "wakeup", "may_raise": "AnyException", "doc": "wake-up PlacesQuery through the circuit (C05)"},
                                     "Message": {"returns": "Opaque:Any", "ignore_args": True, "doc": "message constructor"},
                                     "Block": {"returns": "Opaque:Any", "ignore_args": True, "doc": "block constructor"},
                                     "UUID": {"returns": "Opaque:Any", "doc": "uuid"}},
                          may_raise={"AnyException": ""},
                          ensures=["len(self._queued_events) == old(len(self._queued_events)) + 1",
                                   "self._queued_events[len(self._queued_events) - 1] == event", same_prefix, "ncalls('wakeup') <= 1"],
                          ensures_on_raise=["len(self._queued_events) == old(len(self._queued_events)) + 1",
                                            "self._queued_events[len(self._queued_events) - 1] == event", same_prefix],
                          frame=["_queued_events"], frame_on_raise=True, **common))
    reg.add_fn(FnContract(key=f"{RMOD}:EventQueueManager.take_injected_events", qualname="EventQueueManager.take_injected_events",
                          returns="IntList", ensures=["result == old(self._queued_events)", "len(self._queued_events) == 0"],
                          frame=["_queued_events"], **common))
    reg.add_fn(FnContract(key=f"{RMOD}:EventQueueManager.cache_last_poll_response", qualname="EventQueueManager.cache_last_poll_response",
                          params={"req_ack": "Opt[Int]", "payload": "Opt[Int]"}, param_names=["req_ack", "payload"],
                          ensures=["self._last_ack == req_ack", "self._last_payload == payload"], frame=["_last_ack", "_last_payload"], **common))
    reg.add_fn(FnContract(key=f"{RMOD}:EventQueueManager.get_cached_poll_response", qualname="EventQueueManager.get_cached_poll_response",
                          params={"req_ack": "Opt[Int]"}, param_names=["req_ack"], returns="Opt[Int]",
                          ensures=["implies(self._last_ack == req_ack, result == self._last_payload)",
                                   "implies(not (self._last_ack == req_ack), is_none(result))"], frame=[], **common))
    reg.add_fn(FnContract(key=f"{RMOD}:EventQueueManager.clear", qualname="EventQueueManager.clear",
                          ensures=["len(self._queued_events) == 0", "is_none(self._last_ack)", "is_none(self._last_payload)"],
                          frame=["_queued_events", "_last_ack", "_last_payload"], **common))
    c17b_contracts.register_p2(reg, PID)
    from contracts import c17c_contracts
    c17c_contracts.register_p3(reg, PID)


BOUNDED = [http_native.bounded_eq]
