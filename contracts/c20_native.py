"""C20 bounded tier: real inventory / wearable / animation / mesh codecs and the real Xfer / Transfer receivers.

Four drivers, all seeded, all running the code from $VERIF_REPO:

* bounded_inventory  - lookup-name enums enumerated completely; generated inventory models x {legacy text, legacy LLSD, AIS LLSD},
                       node level and model level; wearables in the line format.
* bounded_animations - generated animations of both layout versions (exact for the float layout, decoded image + tolerance for the
                       quantised layout).
* bounded_meshes     - generated mesh header / segment trees (LODs with several materials, 0..4 influences per vertex, convex,
                       skin, havok, unknown segments), decoded image + tolerance.
* bounded_transfers  - payload sizes around chunk boundaries x arrival sequences (all orders, duplicates) against
                       Xfer.__init__ / serve_inbound_xfer_request / _handle_send_xfer_packet and TransferManager.

The oracles are written from the property text, not from the code: a model is compared field by field with what was put in; the
only concessions are the representation limits of each format, listed next to `_canon` below.
"""
import asyncio
import contextlib
import dataclasses
import datetime as dt
import itertools
import logging
import math
import random
import struct


# --------------------------------------------------------------------------------------------------------------- helpers
@contextlib.contextmanager
def _quiet():
    """the parsers log a warning for every unknown key; keep the run silent and restore the previous level afterwards"""
    prev = logging.root.manager.disable
    logging.disable(logging.CRITICAL)
    try:
        yield
    finally:
        logging.disable(prev)


class _Fails:
    def __init__(self, driver=None, tier=None, seed=None):
        self.items = []
        # enough to regenerate the case: the drivers are deterministic in (tier, seed)
        self.ctx = {"driver": driver, "tier": tier, "seed": seed}

    def add(self, key, clause, inp, observed):
        if sum(1 for f in self.items if f["key"] == key) < 2:
            if isinstance(inp, dict):
                inp = dict(inp, generated_by=dict(self.ctx))
            self.items.append({"key": key, "clause": clause, "input": inp, "observed": str(observed)[:900]})


def _f32(x):
    return struct.unpack("<f", struct.pack("<f", x))[0]


def _short(x, n=700):
    s = repr(x)
    return s if len(s) <= n else s[:n] + "..."


# ----------------------------------------------------------------------------------------------------- structural compare
def _coords(v):
    return tuple(v.data()) if hasattr(v, "data") and callable(v.data) else tuple(v)


def _sdiff(a, b, path="", tol=None, skip=()):
    """independent field-by-field comparison; returns the list of paths that differ.
    tol: dict key/field name -> absolute tolerance that applies to every float below that key (None = exact everywhere)."""
    return _sd(a, b, path, tol or {}, 0.0, skip)


def _is_coord(v):
    from hippolyzer.lib.base.datatypes import TupleCoord
    return isinstance(v, TupleCoord)


def _sd(a, b, path, tol, eps, skip):
    from hippolyzer.lib.base.multidict import MultiDict
    if dataclasses.is_dataclass(a) and not isinstance(a, type):
        if type(a) is not type(b):
            return [path + ":type"]
        out = []
        for f in dataclasses.fields(a):
            if f.name == "model" or f.name in skip:
                continue
            out += _sd(getattr(a, f.name), getattr(b, f.name), f"{path}.{f.name}", tol, tol.get(f.name, eps), skip)
        return out
    if isinstance(a, MultiDict):
        if not isinstance(b, MultiDict):
            return [path + ":type"]
        return _sd(list(a.items(multi=True)), list(b.items(multi=True)), path, tol, eps, skip)
    if isinstance(a, dict):
        if not isinstance(b, dict):
            return [path + ":type"]
        ka, kb = [k for k in a if k not in skip], [k for k in b if k not in skip]
        if set(ka) != set(kb):
            return [f"{path}:keys"]
        out = []
        for k in ka:
            out += _sd(a[k], b[k], f"{path}.{k}", tol, tol.get(k, eps), skip)
        return out
    if hasattr(a, "joint_idx") and hasattr(a, "weight"):
        if not (hasattr(b, "joint_idx") and hasattr(b, "weight")):
            return [path + ":type"]
        out = [] if a.joint_idx == b.joint_idx else [path + ".joint_idx"]
        return out + _sd(float(a.weight), float(b.weight), path + ".weight", tol, tol.get("weight", eps), skip)
    if _is_coord(a) or _is_coord(b):
        if not (_is_coord(a) and _is_coord(b)) or type(a) is not type(b):
            return [path + ":type"]
        ca, cb = _coords(a), _coords(b)
        if len(ca) == 4 and eps:
            ca, cb = ca[:3], cb[:3]      # the packed form stores X, Y, Z only; W is derived
        return _sd(list(ca), list(cb), path, tol, eps, skip)
    if isinstance(a, (list, tuple)) and not isinstance(a, (str, bytes)):
        if not isinstance(b, (list, tuple)) or len(a) != len(b):
            return [f"{path}:len"]
        out = []
        for i, (x, y) in enumerate(zip(a, b)):
            out += _sd(x, y, f"{path}[{i}]", tol, eps, skip)
        return out
    if isinstance(a, float) and isinstance(b, (int, float)) and not isinstance(b, bool) and eps:
        return [] if abs(a - b) <= eps else [path]
    if (a is None) != (b is None):
        return [path]
    try:
        return [] if a == b else [path]
    except Exception:  # noqa
        return [path]


def _field_key(path):
    """stable failure class for an inventory field path: '.permissions.base_mask' -> '.permissions.base_mask', '.metadata.k[0]' -> '.metadata'"""
    parts = [p for p in _strip_idx(path).split(".") if p]
    if not parts:
        return _strip_idx(path)
    head = parts[0].split(":")[0]
    if head in ("permissions", "sale_info") and len(parts) > 1:
        return "." + head + "." + parts[1].split(":")[0]
    return "." + head


def _strip_idx(path):
    out, depth = [], 0
    for ch in path:
        if ch == "[":
            depth += 1
        elif ch == "]":
            depth -= 1
        elif not depth:
            out.append(ch)
    return "".join(out)


# ============================================================================================================ inventory
_TEXT_WORDS = ["", "a", "New Script", "Contents", "foo  bar", "trailing  ", "x" * 70, "é日本 \U0001f600", "a<b&c>\"d'",
               "{", "}", "back\\slash", "#1: 50%", "0", "-1", "name name", "inv_item 0", "metadata <llsd>"]
_WIDE_WORDS = ["a|b", "|", " lead", "line1\nline2", "\ttab", "x\r\ny", "  ", "trail|"]
_ALPHA = "abcXYZ 019_-.,;:!?()[]{}<>&'\"/\\+=*#@~éü日"


class InvGen:
    """Inventory model generator. `wide` strings use characters the line format cannot carry and are only used for LLSD."""

    def __init__(self, rng, bad_members):
        from hippolyzer.lib.base.templates import AssetType, InventoryType, FolderType, SaleType
        self.rng = rng
        self.members = {}
        for cls in (AssetType, InventoryType, FolderType, SaleType):
            ms = [m for m in cls if (cls.__name__, m.name) not in bad_members]
            rng.shuffle(ms)
            self.members[cls.__name__] = (ms, [0])
        self.AssetType, self.InventoryType, self.FolderType, self.SaleType = AssetType, InventoryType, FolderType, SaleType
        self.used = set()

    # every member of every enum is used in turn, so that a quick run already covers all of them
    def enum(self, name):
        ms, ctr = self.members[name]
        m = ms[ctr[0] % len(ms)]
        ctr[0] += 1
        self.used.add((name, m.name))
        return m

    def uuid(self, zero_ok=True):
        from hippolyzer.lib.base.datatypes import UUID
        if zero_ok and self.rng.random() < 0.15:
            return UUID.ZERO
        return UUID(int=self.rng.getrandbits(128))

    def mask(self):
        return self.rng.choice([0, 0xFFFFFFFF, 0x7FFFFFFF, 0x80000000, 0x0008E000, 1, self.rng.getrandbits(32)])

    def text(self, wide):
        r = self.rng
        k = r.random()
        if wide and k < 0.5:
            return r.choice(_WIDE_WORDS) + r.choice(_TEXT_WORDS)
        if k < 0.6:
            return r.choice(_TEXT_WORDS)
        s = "".join(r.choice(_ALPHA) for _ in range(r.randrange(1, 24)))
        return s.lstrip()   # leading blanks are eaten by the "key <blanks> value" line syntax

    def opt(self, f, p_none=0.3):
        return None if self.rng.random() < p_none else f()

    def llsd(self, depth, wide):
        from hippolyzer.lib.base.datatypes import UUID
        r = self.rng
        kinds = ["int", "real", "str", "uuid", "bool", "date", "bin", "undef"] + (["map", "arr"] if depth > 0 else [])
        k = r.choice(kinds)
        if k == "int":
            return r.choice([0, 1, -1, 2147483647, -2147483648, r.randrange(-10 ** 6, 10 ** 6)])
        if k == "real":
            return r.choice([0.0, -0.0, 0.1, 1.5e-10, 1e300, -2.5, r.uniform(-1e6, 1e6)])
        if k == "str":
            return r.choice(["", " lead", "trail ", "a<b&c>\"d'", "é日本\U0001f600", "a  b", self.text(wide)])
        if k == "uuid":
            return UUID(int=r.getrandbits(128)) if r.random() < 0.8 else UUID.ZERO
        if k == "bool":
            return r.random() < 0.5
        if k == "date":
            return dt.datetime(1970, 1, 1) + dt.timedelta(seconds=r.randrange(0, 2 ** 31))
        if k == "bin":
            return bytes(r.getrandbits(8) for _ in range(r.choice([0, 1, 3, 17])))
        if k == "undef":
            return None
        if k == "map":
            return {self.key(): self.llsd(depth - 1, wide) for _ in range(r.randrange(0, 4))}
        return [self.llsd(depth - 1, wide) for _ in range(r.randrange(0, 4))]

    def key(self):
        return self.rng.choice(["experience", "thumbnail", "k", "key with space", "k<&>", "", "é", "a.b", "n%d" % self.rng.randrange(100)])

    def metadata(self, wide, p_none=0.35):
        r = self.rng
        if r.random() < p_none:
            return None
        return {self.key(): self.llsd(2, wide) for _ in range(r.randrange(0, 4))}

    def date(self):
        ts = self.rng.choice([0, 1, 1587367239, 2 ** 31 - 1, 2 ** 31, 2 ** 32 - 1, self.rng.randrange(0, 2 ** 32)])
        return dt.datetime(1970, 1, 1) + dt.timedelta(seconds=ts)

    def perms(self):
        from hippolyzer.lib.base.inventory import InventoryPermissions
        return InventoryPermissions(
            base_mask=self.mask(), owner_mask=self.mask(), group_mask=self.mask(), everyone_mask=self.mask(),
            next_owner_mask=self.mask(), creator_id=self.uuid(), owner_id=self.uuid(), last_owner_id=self.uuid(),
            group_id=self.uuid(), is_owner_group=self.rng.choice([None, None, 0, 1]))

    def sale(self):
        from hippolyzer.lib.base.inventory import InventorySaleInfo
        return InventorySaleInfo(sale_type=self.enum("SaleType"),
                                 sale_price=self.rng.choice([0, 10, -1, 2 ** 31 - 1, -2 ** 31, self.rng.randrange(0, 10 ** 6)]))

    def item(self, parent, wide):
        from hippolyzer.lib.base.inventory import InventoryItem
        r = self.rng
        full = r.random() < 0.35          # all optionals present
        bare = not full and r.random() < 0.15   # all optionals absent
        p = 0.0 if full else (1.0 if bare else 0.3)
        typ = self.opt(lambda: self.enum("AssetType"), p if p in (0.0, 1.0) else 0.12)
        asset_id = self.opt(lambda: self.uuid(), p)
        if typ is not None and typ == self.AssetType.LINK and asset_id is None:
            asset_id = self.uuid()        # a link without a target is not a model
        return InventoryItem(
            parent_id=parent, item_id=self.uuid(False), permissions=self.perms(), asset_id=asset_id,
            shadow_id=self.opt(lambda: self.uuid(), max(p, 0.5) if not full else 0.0), type=typ,
            inv_type=self.opt(lambda: self.enum("InventoryType"), p),
            flags=self.opt(lambda: self.mask(), p), sale_info=self.opt(self.sale, p),
            name=self.opt(lambda: self.text(wide), p), desc=self.opt(lambda: self.text(wide), p),
            metadata=self.metadata(wide, 0.0 if full else max(p, 0.35)), creation_date=self.opt(self.date, p))

    def category(self, parent, wide):
        from hippolyzer.lib.base.inventory import InventoryCategory
        r = self.rng
        return InventoryCategory(
            parent_id=parent, cat_id=self.uuid(False),
            type=self.AssetType.CATEGORY if r.random() < 0.6 else self.enum("AssetType"),
            pref_type=self.enum("FolderType"), name=self.text(wide), owner_id=self.opt(lambda: self.uuid()),
            version=r.choice([-1, -1, 0, 1, 7, 2 ** 31 - 1]), metadata=self.metadata(wide))

    def obj(self, parent, wide):
        from hippolyzer.lib.base.inventory import InventoryObject
        return InventoryObject(parent_id=parent, obj_id=self.uuid(False),
                               type=self.AssetType.CATEGORY if self.rng.random() < 0.6 else self.enum("AssetType"),
                               name=self.text(wide), metadata=self.metadata(wide))

    def nodes(self, wide):
        from hippolyzer.lib.base.datatypes import UUID
        r = self.rng
        out, containers = [], []
        for _ in range(r.randrange(1, 8)):
            parent = r.choice(containers) if containers and r.random() < 0.7 else (UUID.ZERO if r.random() < 0.6 else self.uuid())
            k = r.choice(["item", "item", "item", "cat", "cat", "obj"])
            n = self.item(parent, wide) if k == "item" else (self.category(parent, wide) if k == "cat" else self.obj(parent, wide))
            if any(n.node_id == o.node_id for o in out):
                continue
            out.append(n)
            if k != "item":
                containers.append(n.node_id)
        return out


def _canon(node, flavor):
    """What a flavour can represent (the ONLY concessions made by the oracle):
    * line format: no category version, no permissions.is_owner_group (they exist in LLSD only) -> their defaults after parsing;
    * AIS: a category's own asset type is implicit (always CATEGORY).
    (AIS links carry no permissions / sale info at all: those two fields are left out of the comparison for links.)"""
    from hippolyzer.lib.base.inventory import InventoryCategory, InventoryItem
    from hippolyzer.lib.base.templates import AssetType
    n = node
    if flavor == "text":
        if isinstance(n, InventoryCategory):
            n = dataclasses.replace(n, version=-1)
        if isinstance(n, InventoryItem):
            n = dataclasses.replace(n, permissions=dataclasses.replace(n.permissions, is_owner_group=None))
    if flavor == "ais" and isinstance(n, InventoryCategory):
        n = dataclasses.replace(n, type=AssetType.CATEGORY)
    return n


def _skip_for(node, flavor):
    from hippolyzer.lib.base.inventory import InventoryItem
    from hippolyzer.lib.base.templates import AssetType
    if flavor == "ais" and isinstance(node, InventoryItem) and node.type is not None and node.type == AssetType.LINK:
        return ("permissions", "sale_info")
    return ()


def _build_model(nodes):
    import copy
    from hippolyzer.lib.base.inventory import InventoryModel
    m = InventoryModel()
    for n in nodes:
        c = copy.copy(n)
        c.model = None
        m.add(c)
    return m


def _lookup_names(fails):
    """from_lookup_name(to_lookup_name(m)) is m, for every member of the four live enum classes"""
    from hippolyzer.lib.base.templates import AssetType, InventoryType, FolderType, SaleType
    bad, n = set(), 0
    for cls in (AssetType, InventoryType, FolderType, SaleType):
        for m in cls:
            n += 1
            key = f"lookup-name/{cls.__name__}.{m.name}"
            clause = "from_lookup_name(to_lookup_name(m)) must be m for every member of the lookup-name enums"
            try:
                name = m.to_lookup_name()
                back = cls.from_lookup_name(name)
            except Exception as ex:  # noqa
                bad.add((cls.__name__, m.name))
                fails.add(key, clause, {"enum": cls.__name__, "member": m.name, "value": int(m)}, f"raised {type(ex).__name__}: {ex}")
                continue
            if not isinstance(name, str) or back is not m:
                bad.add((cls.__name__, m.name))
                fails.add(key, clause, {"enum": cls.__name__, "member": m.name, "value": int(m)},
                          f"to_lookup_name() = {name!r}, from_lookup_name({name!r}) = {back!r}")
    return n, bad


def bounded_inventory(reg, tier, seed):
    with _quiet():
        return _bounded_inventory(tier, seed)


def _bounded_inventory(tier, seed):
    from io import StringIO
    from hippolyzer.lib.base.inventory import InventoryModel
    from hippolyzer.lib.base.wearables import Wearable
    from hippolyzer.lib.base.templates import WearableType
    rng = random.Random(seed)
    fails = _Fails("bounded_inventory", tier, seed)
    evals, seen, samples = 0, set(), []
    n_lookup, bad = _lookup_names(fails)
    evals += n_lookup
    gen = InvGen(rng, bad)
    runs = 300 if tier == "quick" else 2000
    clause_node = "parsing the serialisation of an inventory node yields an equal node"
    clause_model = "parsing the serialisation of an inventory model yields an equal model (same nodes, every field equal)"

    def describe(node):
        return {"class": type(node).__name__, "fields": _short(node, 900)}

    def check_node(node, flavor, back, level):
        want = _canon(node, flavor)
        if back is None or type(back) is not type(want):
            fails.add(f"inventory/{flavor}-{level}/{type(node).__name__}:type", clause_node, describe(node), f"parsed to {_short(back, 200)}")
            return False
        # a field passes if it equals what was put in or the canonical form of it (a format carrying MORE than required is fine)
        full = set(_sdiff(node, back, skip=_skip_for(node, flavor)))
        d = [p for p in _sdiff(want, back, skip=_skip_for(node, flavor)) if p in full]
        for path in d:
            fails.add(f"inventory/{flavor}-{level}/{type(node).__name__}{_field_key(path)}", clause_node, describe(node),
                      f"field {path}: put in {_short(_get(want, path), 200)}, got back {_short(_get(back, path), 200)}")
        return not d

    def _get(obj, path):
        cur = obj
        for part in path.strip(".").split("."):
            part = part.split(":")[0].split("[")[0]
            if not part:
                continue
            try:
                cur = getattr(cur, part) if not isinstance(cur, dict) else cur[part]
            except Exception:  # noqa
                return cur
        return cur

    for run in range(runs):
        wide = run % 4 == 3
        fails.ctx["model"] = run
        nodes = gen.nodes(wide)
        flavors = ["legacy", "ais"] if wide else ["text", "legacy", "ais"]
        if len(samples) < 3:
            samples.append({"wide_strings": wide, "nodes": [_short(n, 260) for n in nodes[:2]]})
        for flavor in flavors:
            # ---- node level
            ok_nodes = []
            for node in nodes:
                evals += 1
                seen.add((flavor, repr(node)))
                try:
                    if flavor == "text":
                        if rng.random() < 0.5:
                            back = type(node).from_reader(StringIO(node.to_str()), read_header=True)
                        else:
                            back = type(node).from_reader(StringIO(node.to_bytes().decode("utf8")), read_header=True)
                    else:
                        back = type(node).from_llsd(node.to_llsd(flavor), flavor)
                except Exception as ex:  # noqa
                    # a KeyError names the absent member: part of the failure class, so that different absences stay apart
                    what = f":{ex.args[0]}" if isinstance(ex, KeyError) and ex.args and isinstance(ex.args[0], str) and len(ex.args[0]) < 30 else ""
                    fails.add(f"inventory/{flavor}-node/{type(node).__name__}/raises-{type(ex).__name__}{what}", clause_node, describe(node),
                              f"raised {type(ex).__name__}: {ex}")
                    continue
                if check_node(node, flavor, back, "node"):
                    ok_nodes.append(node)
            # ---- model level, over the nodes that are individually fine (a node-level failure is reported once, above)
            if not ok_nodes:
                continue
            evals += 1
            model = _build_model(ok_nodes)
            try:
                if flavor == "text":
                    parsed = InventoryModel.from_bytes(model.to_bytes()) if rng.random() < 0.5 else InventoryModel.from_str(model.to_str())
                else:
                    parsed = InventoryModel.from_llsd(model.to_llsd(flavor), flavor)
            except Exception as ex:  # noqa
                fails.add(f"inventory/{flavor}-model/raises-{type(ex).__name__}", clause_model, {"nodes": [describe(n) for n in ok_nodes]},
                          f"raised {type(ex).__name__}: {ex}")
                continue
            all_ok, identity = True, True
            for node in ok_nodes:
                got = parsed.nodes.get(node.node_id)
                if got is None:
                    all_ok = False
                    fails.add(f"inventory/{flavor}-model/{type(node).__name__}-missing", clause_model,
                              {"nodes": [describe(n) for n in ok_nodes]},
                              f"{type(node).__name__} {node.node_id} is not in the parsed model (parsed ids: {sorted(str(k) for k in parsed.nodes)})")
                    continue
                all_ok &= check_node(node, flavor, got, "model")
                identity &= not _sdiff(_canon(node, flavor), node) and not _skip_for(node, flavor)
            extra = set(parsed.nodes) - {n.node_id for n in ok_nodes}
            if extra:
                all_ok = False
                fails.add(f"inventory/{flavor}-model/extra-nodes", clause_model, {"nodes": [describe(n) for n in ok_nodes]},
                          f"parsed model has nodes that were not put in: {sorted(str(k) for k in extra)}")
            if all_ok and identity and not (parsed == model):
                fails.add(f"inventory/{flavor}-model/eq", clause_model, {"nodes": [describe(n) for n in ok_nodes]},
                          "all nodes compare equal field by field but InventoryModel.__eq__ says the models differ")

    # ---- wearables (line format): name line, permissions, sale info, type, parameters, textures
    wruns = 80 if tier == "quick" else 600
    for _ in range(wruns):
        evals += 1
        name = gen.text(False).strip() or "Shape"
        w = Wearable(name=name, wearable_type=rng.choice(list(WearableType)), permissions=gen.perms(), sale_info=gen.sale(),
                     parameters={rng.randrange(0, 1200): rng.choice([0.0, 1.0, -0.21, 0.5, 1e-05, -1.06, round(rng.uniform(-2, 2), 2), rng.uniform(-2, 2)])
                                 for _ in range(rng.randrange(0, 6))},
                     textures={rng.randrange(0, 40): gen.uuid() for _ in range(rng.randrange(0, 4))})
        seen.add(("wearable", repr(w)))
        want = dataclasses.replace(w, permissions=dataclasses.replace(w.permissions, is_owner_group=None))
        try:
            back = Wearable.from_str(w.to_str()) if rng.random() < 0.5 else Wearable.from_bytes(w.to_bytes())
        except Exception as ex:  # noqa
            fails.add(f"wearable/raises-{type(ex).__name__}", "parsing the serialisation of a wearable yields an equal wearable",
                      {"wearable": _short(w, 900)}, f"raised {type(ex).__name__}: {ex}")
            continue
        full = set(_sdiff(w, back))
        for path in [p for p in _sdiff(want, back) if p in full]:
            fails.add(f"wearable/{_field_key(path)}", "parsing the serialisation of a wearable yields an equal wearable",
                      {"wearable": _short(w, 900)}, f"field {path} differs: got back {_short(back, 300)}")

    uncovered = sorted(f"{c}.{m}" for c, (ms, _) in gen.members.items() for m in (x.name for x in ms) if (c, m) not in gen.used)
    return {"name": "inventory-codecs", "evaluations": evals, "distinct_nontrivial": len(seen),
            "rule": f"all {n_lookup} members of AssetType/InventoryType/FolderType/SaleType through to_lookup_name/from_lookup_name; {runs} seeded "
                    "models of 1..7 nodes (items/categories/objects, each optional field absent or present, all-present and all-absent items, "
                    "enum members taken in rotation so every member is used, embedded LLSD metadata up to depth 2, boundary masks/prices/dates) "
                    "x {line format, legacy LLSD, AIS LLSD} at node level (from_reader/from_llsd) and model level (InventoryModel); every 4th "
                    "model uses strings with '|', newlines, tabs and leading blanks and is checked in the LLSD flavours only; "
                    f"{wruns} wearables in the line format; distinct = distinct (flavour, node) pairs",
            "bounded": True,
            "bounds": {"models": runs, "max_nodes": 7, "metadata_depth": 2, "wearables": wruns, "enum_members_not_reached": uncovered},
            "samples": samples, "failures": fails.items}


# =========================================================================================================== animations
class AnimGen:
    def __init__(self, rng):
        self.rng = rng

    def f(self, lo, hi, specials=()):
        r = self.rng
        if specials and r.random() < 0.35:
            return _f32(r.choice(specials))
        return _f32(r.uniform(lo, hi))

    def vec(self, lo, hi, specials=()):
        from hippolyzer.lib.base.datatypes import Vector3
        return Vector3(self.f(lo, hi, specials), self.f(lo, hi, specials), self.f(lo, hi, specials))

    def quat(self):
        from hippolyzer.lib.base.datatypes import Quaternion
        r = self.rng
        k = r.random()
        if k < 0.15:
            xyz = r.choice([(0.0, 0.0, 0.0), (1.0, 0.0, 0.0), (0.0, -1.0, 0.0), (0.0, 0.0, 1.0), (-0.0, 0.0, 0.0)])
        else:
            v = [r.gauss(0, 1) for _ in range(4)]
            n = math.sqrt(sum(c * c for c in v)) or 1.0
            v = [c / n for c in v]
            if v[3] < 0:
                v = [-c for c in v]
            xyz = tuple(_f32(c) for c in v[:3])
        # W is derived from X, Y, Z: the packed form stores three components
        return Quaternion(*xyz)

    def name(self, maxlen=None):
        r = self.rng
        s = r.choice(["", "mPelvis", "mHead", "mTorso", "L_HAND", "express_smile", "émotion", "joint %d" % r.randrange(50)])
        if maxlen is not None:
            while len(s.encode("utf8")) > maxlen:
                s = s[:-1]
        return s

    def fixed_name(self, size):
        # a fixed-size, NUL-padded field: only the padding at the end is not part of the name
        if self.rng.random() < 0.25:
            return self.rng.choice(["L\x00FOOT", "\x00X", "a\x00b\x00c", "x" * size, "\x00" * 3 + "y"])[:size]
        return self.name(size)

    def animation(self, version):
        import hippolyzer.lib.base.llanim as la
        from hippolyzer.lib.base.multidict import OrderedMultiDict
        r = self.rng
        quant = version == (1, 0)
        duration = self.f(0.01, 30.0, (1.0, 2.5, 0.0) if not quant else (1.0, 2.5, 65.535, 0.0))

        def time():
            if quant:
                return self.f(0.0, duration, (0.0, duration))
            return self.f(0.0, 60.0, (0.0, duration))
        joints = OrderedMultiDict()
        for _ in range(r.randrange(0, 5)):
            rk = [la.RotKeyframe(time=time(), rot=self.quat()) for _ in range(r.randrange(0, 4))]
            if quant:
                pk = [la.PosKeyframe(time=time(), pos=self.vec(-5.0, 5.0, (-5.0, 5.0, 0.0))) for _ in range(r.randrange(0, 4))]
            else:
                pk = [la.PosKeyframe(time=time(), pos=self.vec(-100.0, 100.0, (-5.0, 5.0, 0.0, 1e-7))) for _ in range(r.randrange(0, 4))]
            joints.add(self.name() or "j", la.Joint(priority=r.choice([0, 1, 4, 6, -1, 2 ** 31 - 1, -2 ** 31]), rot_keyframes=rk, pos_keyframes=pk))
        cons = []
        for _ in range(r.randrange(0, 3)):
            cons.append(la.Constraint(
                chain_length=r.choice([0, 1, 3, 255]), type=r.choice(list(la.ConstraintType)),
                source_volume=self.fixed_name(16), source_offset=self.vec(-2, 2, (0.0,)), target_volume=self.fixed_name(16),
                target_offset=self.vec(-2, 2, (0.0,)), target_dir=self.vec(-1, 1, (0.0, 1.0)),
                ease_in_start=self.f(0, 5, (0.0,)), ease_in_stop=self.f(0, 5), ease_out_start=self.f(0, 5), ease_out_stop=self.f(0, 5)))
        return la.Animation(
            major_version=version[0], minor_version=version[1], base_priority=r.choice([0, 4, 6, -1, 2 ** 31 - 1]), duration=duration,
            emote_name=self.name(), loop_in_point=self.f(0, duration or 1.0, (0.0,)), loop_out_point=self.f(0, duration or 1.0, (duration,)),
            loop=r.choice([0, 1]), ease_in_duration=self.f(0, 2, (0.0,)), ease_out_duration=self.f(0, 2, (0.0,)),
            hand_pose=r.choice(list(la.HandPose)), joints=joints, constraints=cons)


def bounded_animations(reg, tier, seed):
    with _quiet():
        return _bounded_animations(tier, seed)


def _bounded_animations(tier, seed):
    from hippolyzer.lib.base.llanim import Animation
    rng = random.Random(seed)
    gen = AnimGen(rng)
    fails = _Fails("bounded_animations", tier, seed)
    evals, seen, samples = 0, set(), []
    runs = 400 if tier == "quick" else 3000
    clause = "parsing the serialisation of an animation yields an equal animation (quantised members: equal on the decoded image)"
    for run in range(runs):
        version = (0, 1) if run % 2 == 0 else (1, 0)
        vname = "v%d.%d" % version
        a = gen.animation(version)
        fails.ctx["animation"] = run
        evals += 1
        inp = {"version": list(version), "animation": _short(a, 1200)}
        try:
            b0 = a.to_bytes()
            a1 = Animation.from_bytes(b0)
            b1 = a1.to_bytes()
            a2 = Animation.from_bytes(b1)
        except Exception as ex:  # noqa
            fails.add(f"animation/{vname}/raises-{type(ex).__name__}", clause, inp, f"raised {type(ex).__name__}: {ex}")
            continue
        seen.add(bytes(b0))
        if len(samples) < 2:
            samples.append({"version": list(version), "bytes": len(b0), "joints": len(a.joints), "constraints": len(a.constraints)})
        if version == (0, 1):
            # plain float layout: every field is carried exactly
            d = _sdiff(a, a1)
            if not d and not (a1 == a):
                d = [":eq"]
        else:
            # quantised layout: within one quantisation step of what was put in; everything that is not quantised is exact
            step = 1.0 / 65535
            d = _sdiff(a, a1, tol={"time": a.duration * step * 1.01 + 1e-12, "pos": 10.0 * step * 1.01, "rot": 2.0 * step * 1.01})
        for path in d:
            fails.add(f"animation/{vname}/{_strip_idx(path)}", clause, inp, f"field {path} differs after one serialise/parse: {_short(a1, 500)}")
        d2 = _sdiff(a1, a2)
        if not d2 and not (a2 == a1):
            d2 = [":eq"]
        for path in d2:
            fails.add(f"animation/{vname}/image{_strip_idx(path)}", clause, inp,
                      f"the parsed animation does not survive a second serialise/parse at {path}")
    return {"name": "animation-codec", "evaluations": evals, "distinct_nontrivial": len(seen),
            "rule": f"{runs} seeded animations, alternating layout versions 0.1 (floats) and 1.0 (U16-quantised times/positions/rotations): 0..4 "
                    "joints (duplicate names allowed) with 0..3 rotation and position keyframes, 0..2 constraints, boundary times (0, duration), "
                    "positions (+-5), axis rotations; v0.1 must come back exactly, v1.0 within one quantisation step and exactly on a second "
                    "pass; distinct = distinct serialised byte strings",
            "bounded": True, "bounds": {"animations": runs, "max_joints": 4, "max_keyframes": 3, "max_constraints": 2},
            "samples": samples, "failures": fails.items}


# =============================================================================================================== meshes
LOD_NAMES = ("lowest_lod", "low_lod", "medium_lod", "high_lod", "physics_mesh")


class MeshGen:
    def __init__(self, rng):
        self.rng = rng

    def unit(self, lo=0.0, hi=1.0):
        r = self.rng
        return r.choice([lo, hi, (lo + hi) / 2]) if r.random() < 0.25 else r.uniform(lo, hi)

    def weights(self, nv):
        from hippolyzer.lib.base.mesh import VertexWeight
        r = self.rng
        out = []
        for _ in range(nv):
            k = r.choice([0, 1, 2, 3, 4, 4])
            out.append([VertexWeight(r.choice([0, 1, 254, r.randrange(0, 255)]), r.choice([0.0, 1.0, r.random(), r.random()])) for _ in range(k)])
        return out

    def material(self, rigged):
        from hippolyzer.lib.base.datatypes import Vector3, Vector2
        r = self.rng
        if r.random() < 0.12:
            return {"NoGeometry": True}
        nv = r.choice([0, 1, 2, 3, 4, 7])
        d = {
            "Normal": [Vector3(self.unit(-1, 1), self.unit(-1, 1), self.unit(-1, 1)) for _ in range(nv)],
            "PositionDomain": {"Max": [r.uniform(0, 2), 0.5, 0.0], "Min": [-0.5, r.uniform(-2, 0), 0.0]},
            "Position": [Vector3(self.unit(), self.unit(), self.unit()) for _ in range(nv)],
            "TexCoord0Domain": {"Max": [1.0, 1.0], "Min": [0.0, r.uniform(-1, 0)]},
            "TexCoord0": [Vector2(self.unit(), self.unit()) for _ in range(nv)],
            "TriangleList": [[r.choice([0, 65535, r.randrange(0, max(nv, 1))]) for _ in range(3)] for _ in range(r.randrange(0, 4))],
        }
        if rigged:
            d["Weights"] = self.weights(nv)
        if r.random() < 0.3:
            d.pop("TexCoord0")
            d.pop("TexCoord0Domain")
        return d

    def mesh(self):
        from hippolyzer.lib.base.mesh import MeshAsset
        from hippolyzer.lib.base.datatypes import Vector3, UUID
        r = self.rng
        m = MeshAsset()
        rigged = r.random() < 0.7
        hdr = {"version": r.choice([1, 2])}
        if r.random() < 0.5:
            hdr["creator"] = UUID(int=r.getrandbits(128))
        if r.random() < 0.5:
            hdr["date"] = dt.datetime(2000, 1, 1, tzinfo=dt.timezone.utc) + dt.timedelta(seconds=r.randrange(0, 10 ** 9))
        if r.random() < 0.3:
            hdr["physics_cost_data"] = {"hull": r.uniform(0, 10), "mesh_triangles": r.randrange(0, 1000), "mesh": [r.uniform(-1, 1) for _ in range(9)]}
        lods = [n for n in LOD_NAMES if r.random() < 0.6] or ["high_lod"]
        for name in lods:
            hdr[name] = {"offset": r.choice([0, 7]), "size": r.choice([0, 11])}
            if r.random() < 0.3:
                hdr[name]["mesh_triangles"] = r.randrange(0, 100)
            # (a segment that is present but empty - a LOD with no materials, an empty map - is a value like any other)
            m.segments[name] = [self.material(rigged and name != "physics_mesh") for _ in range(r.choice([0, 1, 1, 2, 3]))]
        if r.random() < 0.6:
            hdr["physics_convex"] = {"offset": 0, "size": 0}
            seg = {"Max": [0.5, 0.5, r.uniform(0, 1)], "Min": [-0.5, -0.5, r.uniform(-1, 0)]}
            if r.random() < 0.7:
                seg["BoundingVerts"] = [Vector3(self.unit(-1, 1), self.unit(-1, 1), self.unit(-1, 1)) for _ in range(r.randrange(0, 5))]
            if r.random() < 0.5:
                hl = [r.choice([1, 3, 255, 0]) for _ in range(r.randrange(0, 4))]
                seg["HullList"] = hl
                seg["Positions"] = [Vector3(self.unit(-1, 1), self.unit(-1, 1), self.unit(-1, 1)) for _ in range(min(sum(hl), 12))]
            m.segments["physics_convex"] = seg if r.random() < 0.85 else {}
        if rigged and r.random() < 0.8:
            hdr["skin"] = {"offset": 0, "size": 0}
            nj = r.randrange(1, 4)
            skin = {"joint_names": [r.choice(["mPelvis", "mHead", "mTorso", "é"]) for _ in range(nj)],
                    "bind_shape_matrix": [r.uniform(-2, 2) for _ in range(16)],
                    "inverse_bind_matrix": [[r.uniform(-2, 2) for _ in range(16)] for _ in range(nj)]}
            if r.random() < 0.5:
                skin["alt_inverse_bind_matrix"] = [[r.uniform(-2, 2) for _ in range(16)] for _ in range(nj)]
                skin["pelvis_offset"] = r.uniform(-1, 1)
                skin["lock_scale_if_joint_position"] = r.random() < 0.5
            m.segments["skin"] = skin
        if r.random() < 0.3:
            hdr["physics_havok"] = {"offset": 0, "size": 0, "version": 1, "hash": bytes(r.getrandbits(8) for _ in range(16))}
            m.segments["physics_havok"] = {"WeldingData": bytes(r.getrandbits(8) for _ in range(r.randrange(0, 40))),
                                           "MOPP": {"BuildType": 1, "MoppData": b"\x00\x01\x02", "MoppInfo": [1.0, 2.0, 3.0, 4.0]},
                                           "HullMassProps": {"CoM": [0.0, 0.5, 1.0], "mass": 2.5, "volume": 0.125, "inertia": [0.0] * 9}}
        if r.random() < 0.15:
            hdr["x_custom"] = {"offset": 0, "size": 0}
            m.segments["x_custom"] = {"anything": [1, "two", 3.0], "nested": {"k": UUID(int=r.getrandbits(128))}} if r.random() < 0.7 else {}
        # header keys in a seeded order: segment order in the file must not depend on it
        keys = list(hdr)
        r.shuffle(keys)
        m.header = {k: hdr[k] for k in keys}
        return m


_MESH_TOL = {"Position": 1.0 / 65535 * 1.01, "TexCoord0": 1.0 / 65535 * 1.01, "Normal": 2.0 / 65535 * 1.01,
             "BoundingVerts": 2.0 / 65535 * 1.01, "Positions": 2.0 / 65535 * 1.01, "Weights": 1.0 / 65535 * 1.01}
# the *Domain maps are plain LLSD reals and must be exact although their names start like the quantised members
_MESH_EXACT = {"PositionDomain": 0.0, "TexCoord0Domain": 0.0}


def bounded_meshes(reg, tier, seed):
    with _quiet():
        return _bounded_meshes(tier, seed)


def _bounded_meshes(tier, seed):
    import hippolyzer.lib.base.serialization as se
    from hippolyzer.lib.base.mesh import LLMeshSerializer
    rng = random.Random(seed)
    gen = MeshGen(rng)
    fails = _Fails("bounded_meshes", tier, seed)
    evals, seen, samples = 0, set(), []
    runs = 240 if tier == "quick" else 1500
    clause = "parsing the serialisation of a mesh asset yields an equal asset (quantised members: equal on the decoded image)"
    tol = dict(_MESH_TOL, **_MESH_EXACT)
    influences = set()

    def enc(ser, x, e):
        w = se.BufferWriter(e)
        w.write(ser, x)
        return w.copy_buffer()

    def dec(ser, b, e):
        return se.BufferReader(e, b).read(ser)

    for run in range(runs):
        m = gen.mesh()
        fails.ctx["asset"] = run
        e = rng.choice(["!", "<"])
        evals += 1
        ser = LLMeshSerializer()
        inp = {"endianness": e, "header": _short(m.header, 500), "segments": _short(m.segments, 1500)}
        try:
            b0 = enc(ser, m, e)
            m1 = dec(ser, b0, e)
            b1 = enc(ser, m1, e)
            m2 = dec(ser, b1, e)
        except Exception as ex:  # noqa
            fails.add(f"mesh/raises-{type(ex).__name__}", clause, inp, f"raised {type(ex).__name__}: {ex}")
            continue
        seen.add(bytes(b0))
        for mats in m.segments.values():
            if isinstance(mats, list):
                for mat in mats:
                    influences.update(len(v) for v in mat.get("Weights", []))
        if len(samples) < 2:
            samples.append({"bytes": len(b0), "segments": {k: (len(v) if isinstance(v, list) else "map") for k, v in m.segments.items()}})
        # what was put in comes back: structure exactly (every list length, every key), quantised floats within one step
        d1 = [("", p) for p in _sdiff(m.segments, m1.segments, tol=tol)] + \
             [("header/", p) for p in _sdiff(m.header, m1.header, skip=("offset", "size"))]
        for pre, path in d1:
            fails.add(f"mesh/roundtrip/{pre}{_mesh_key(path)}", clause, inp,
                      f"member {pre}{path} differs after one serialise/parse: put in {_short(_dig(m.header if pre else m.segments, path), 300)}, "
                      f"got back {_short(_dig(m1.header if pre else m1.segments, path), 300)}")
        if d1:
            continue        # the follow-up checks would only repeat the same difference
        # the parsed asset is a fixed point
        d2 = _sdiff(m1.segments, m2.segments) + _sdiff(m1.header, m2.header)
        if not d2 and not (m1 == m2):
            d2 = [":eq"]
        for path in d2:
            fails.add(f"mesh/image/{_mesh_key(path)}", clause, inp, f"the parsed asset does not survive a second serialise/parse at {path}")
        if d2:
            continue
        if bytes(b1) != bytes(b0):
            fails.add("mesh/image/bytes", clause, inp, "serialising the parsed asset gives different bytes than the first serialisation")
        # raw segment route: an asset parsed with raw segments kept can be rebuilt from the raw bytes alone
        if run % 4 == 0:
            evals += 1
            try:
                rser = LLMeshSerializer(include_raw_segments=True)
                mr = dec(rser, b0, e)
                dropped = sorted(mr.segments)[0]
                mr.segments.pop(dropped)
                m3 = dec(ser, enc(rser, mr, e), e)
            except Exception as ex:  # noqa
                fails.add(f"mesh/raw/raises-{type(ex).__name__}", clause, inp, f"raised {type(ex).__name__}: {ex}")
                continue
            for path in _sdiff(m1.segments, m3.segments):
                fails.add(f"mesh/raw/{_mesh_key(path)}", clause, inp, f"rebuilt from raw segment {dropped!r}: member {path} differs")
    return {"name": "mesh-codec", "evaluations": evals, "distinct_nontrivial": len(seen),
            "rule": f"{runs} seeded mesh assets: any subset of the four LODs + physics_mesh with 1..3 materials each (0..7 vertices, NoGeometry "
                    "materials, optional texture coordinates, per-vertex weight lists of 0..4 influences with joint 0/254 and weight 0/1 "
                    "boundaries), optional physics_convex / skin / physics_havok / unknown segment, header extras (creator, date, cost data) "
                    "in seeded key order, both writer endiannesses; what was put in must come back with identical structure and quantised "
                    "members within one step, the parsed asset must be a fixed point (values and bytes), and every 4th asset is rebuilt "
                    "from raw segment bytes; distinct = distinct serialised byte strings",
            "bounded": True, "bounds": {"assets": runs, "max_materials": 3, "max_vertices": 7,
                                        "influence_counts_generated": sorted(influences)},
            "samples": samples, "failures": fails.items}


def _mesh_key(path):
    """failure class = the member that differs, whichever segment / material / vertex it sits in: '.high_lod[1].Weights:len' -> 'Weights:len'"""
    tail = path.rsplit(":", 1)[1] if ":" in path else ""
    parts = [p.split(":")[0] for p in _strip_idx(path).strip(".").split(".") if p]
    if len(parts) > 1:
        parts = parts[1:]
    return "/".join(parts[:2]) + (":" + tail if tail else "")


def _dig(obj, path):
    import re
    cur = obj
    for tok in re.findall(r"\.([^.\[\]:]+)|\[(\d+)\]", path):
        try:
            cur = cur[tok[0]] if tok[0] else cur[int(tok[1])]
        except Exception:  # noqa
            break
    return cur


# ============================================================================================================ transfers
class _RecCircuit:
    """built lazily because the base class lives in the repo under test"""
    _cls = None

    @classmethod
    def make(cls):
        if cls._cls is None:
            from hippolyzer.lib.base.message.circuit import Circuit

            class RecCircuit(Circuit):
                def __init__(self):
                    super().__init__(("127.0.0.1", 1), ("127.0.0.1", 2), None)
                    self.sent = []

                def _send_prepared_message(self, message, transport=None):
                    self.sent.append(message)
            cls._cls = RecCircuit
        return cls._cls()


class _Holder:
    def __init__(self):
        from hippolyzer.lib.base.message.message_handler import MessageHandler
        self.circuit = _RecCircuit.make()
        self.message_handler = MessageHandler()


def _wire(messages):
    """through the real LLUDP serialiser and deserialiser, as the packets would travel"""
    from hippolyzer.lib.base.message.udpserializer import UDPMessageSerializer
    from hippolyzer.lib.base.message.udpdeserializer import UDPMessageDeserializer
    from hippolyzer.lib.base.settings import Settings
    s = Settings()
    s.ENABLE_DEFERRED_PACKET_PARSING = False
    ser, de = UDPMessageSerializer(), UDPMessageDeserializer(settings=s)
    out = []
    for i, m in enumerate(messages):
        if m.packet_id is None:
            m.packet_id = i + 1
        out.append(de.deserialize(ser.serialize(m)))
    return out


def _payload(rng, n):
    # every byte position distinguishable, so that any misplaced, dropped or extra byte shows
    return bytes(rng.getrandbits(8) for _ in range(n))


def _surjective(n, length):
    """all arrival sequences of the given length over chunk ids 0..n-1 in which every chunk arrives at least once"""
    ids = range(n)
    for seq in itertools.product(ids, repeat=length):
        if len(set(seq)) == n:
            yield seq


def _xfer_sizes(n):
    """payload lengths whose wire image (4-byte length prefix + payload) occupies exactly n chunks of 1150: both edges and inside"""
    lo, hi = (n - 1) * 1150 + 1, n * 1150          # wire image sizes giving n chunks
    sizes = {hi - 4, hi - 5, lo - 4, lo - 3, (lo + hi) // 2 - 4}
    if n == 1:
        sizes |= {0, 1}
    return sorted(s for s in sizes if s >= 0 and (4 + s + 1149) // 1150 == max(n, 1))


async def _spin(k=4):
    for _ in range(k):
        await asyncio.sleep(0)


async def _cancel_others():
    """the reply pumps wait up to 5 s of wall-clock for a next packet; end them now so that no timer outlives the run"""
    me = asyncio.current_task()
    others = [t for t in asyncio.all_tasks() if t is not me and not t.done()]
    for t in others:
        t.cancel()
    if others:
        await asyncio.gather(*others, return_exceptions=True)


def bounded_transfers(reg, tier, seed):
    loop = asyncio.new_event_loop()
    asyncio.set_event_loop(loop)
    try:
        with _quiet():
            return _bounded_transfers(loop, tier, seed)
    finally:
        try:
            pending = [t for t in asyncio.all_tasks(loop) if not t.done()]
            for t in pending:
                t.cancel()
            if pending:
                loop.run_until_complete(asyncio.gather(*pending, return_exceptions=True))
        finally:
            loop.close()
            asyncio.set_event_loop(None)


def _bounded_transfers(loop, tier, seed):
    from hippolyzer.lib.base.datatypes import UUID, RawBytes
    from hippolyzer.lib.base.message.message import Message, Block
    from hippolyzer.lib.base.network.transport import Direction
    from hippolyzer.lib.base.templates import TransferStatus, TransferChannelType, TransferSourceType, TransferTargetType, \
        TransferRequestParamsSimEstate, EstateAssetType
    from hippolyzer.lib.base.transfer_manager import TransferManager, Transfer
    from hippolyzer.lib.base.xfer_manager import Xfer, XferManager
    rng = random.Random(seed)
    fails = _Fails("bounded_transfers", tier, seed)
    evals, seen, samples = 0, set(), []
    thorough = tier != "quick"
    MAXN = 5
    c_chunk = "the sender cuts length prefix + payload into consecutive non-empty chunks of at most 1150 bytes, ids from 0, end mark on the last only"
    c_done = "a chunked transfer completes exactly when all chunks up to the end-marked one have arrived, regardless of order or duplication"
    c_data = "a chunked transfer reassembles to exactly the payload that was sent, regardless of arrival order or duplication"

    # ------------------------------------------------------------------------------------------------ sender side (Xfer)
    def send_side(payload, raw):
        """real Xfer chunking + real serve_inbound_xfer_request; returns the SendXferPacket messages as received from the wire"""
        holder = _Holder()
        mgr = XferManager(holder)
        prefix = struct.pack("<i", len(payload))
        xfer = Xfer(data=RawBytes(prefix + payload) if raw else payload)
        xid = rng.getrandbits(63)

        async def run():
            task = asyncio.ensure_future(mgr.serve_inbound_xfer_request(xfer, lambda m: True, wait_for_confirm=False))
            await _spin(2)
            holder.message_handler.handle(Message("RequestXfer", Block(
                "XferID", ID=xid, Filename=b"", FilePath=0, DeleteOnCompletion=False, UseBigPackets=False, VFileID=UUID.ZERO, VFileType=0),
                direction=Direction.IN))
            await asyncio.wait_for(task, 5.0)
        loop.run_until_complete(run())
        msgs = [m for m in holder.circuit.sent if m.name == "SendXferPacket"]
        return xid, _wire(msgs)

    prepared = {}

    def prepare(size, raw=False):
        nonlocal evals
        k = (size, raw)
        if k in prepared:
            return prepared[k]
        payload = _payload(rng, size)
        inp = {"payload_len": size, "raw_bytes_input": raw}
        evals += 1
        try:
            xid, msgs = send_side(payload, raw)
        except Exception as ex:  # noqa
            fails.add(f"xfer/send/raises-{type(ex).__name__}", c_chunk, inp, f"raised {type(ex).__name__}: {ex}")
            prepared[k] = None
            return None
        image = struct.pack("<i", size) + payload
        want_n = max(1, (len(image) + 1149) // 1150)
        pkts = [m["XferID"][0].deserialize_var("Packet") for m in msgs]
        datas = [bytes(m["DataPacket"]["Data"]) for m in msgs]
        obs = {"packets": [(p.PacketID, bool(p.IsEOF), len(d)) for p, d in zip(pkts, datas)]}
        if [p.PacketID for p in pkts] != list(range(want_n)):
            fails.add("xfer/send/ids", c_chunk, inp, f"expected packet ids 0..{want_n - 1}: {obs}")
        elif [bool(p.IsEOF) for p in pkts] != [False] * (want_n - 1) + [True]:
            fails.add("xfer/send/eof", c_chunk, inp, f"end mark must be on the last packet only: {obs}")
        elif any(not d or len(d) > 1150 for d in datas) or any(len(d) != 1150 for d in datas[:-1]):
            fails.add("xfer/send/chunk-size", c_chunk, inp, f"chunks must be full (1150) except a non-empty last one: {obs}")
        elif b"".join(datas) != image:
            fails.add("xfer/send/content", c_chunk, inp, f"concatenated chunks differ from length prefix + payload: {obs}")
        else:
            if any(m["XferID"]["ID"] != xid for m in msgs):
                fails.add("xfer/send/id", c_chunk, inp, "packets do not carry the requested xfer id")
            prepared[k] = (xid, payload, msgs)
            return prepared[k]
        prepared[k] = None
        return None

    # --------------------------------------------------------------------------------------------- receiver side (Xfer)
    def xfer_direct(size, seq, turbo, raw=False):
        """real _handle_send_xfer_packet, one call per arrival; completion and content checked after every arrival"""
        nonlocal evals
        prep = prepare(size, raw)
        if prep is None:
            return
        xid, payload, msgs = prep
        n = len(msgs)
        evals += 1
        seen.add(("xfer", size, tuple(seq), raw))
        holder = _Holder()
        mgr = XferManager(holder)
        xfer = Xfer(xid, direction=Direction.OUT, turbo=turbo)
        inp = {"receiver": "XferManager._handle_send_xfer_packet", "payload_len": size, "chunks": n, "arrival_order": list(seq), "turbo": turbo}
        arrived = set()
        for step, pid in enumerate(seq):
            try:
                mgr._handle_send_xfer_packet(msgs[pid], xfer)
            except Exception as ex:  # noqa
                fails.add(f"xfer/raises-{type(ex).__name__}", c_done, dict(inp, step=step), f"raised {type(ex).__name__}: {ex}")
                return
            arrived.add(pid)
            complete = arrived == set(range(n))
            if xfer.done() and not complete:
                fails.add("xfer/completes-early", c_done, dict(inp, step=step),
                          f"done after arrivals {list(seq[:step + 1])}: chunks {sorted(set(range(n)) - arrived)} have not arrived")
                return
            if complete and not xfer.done():
                fails.add("xfer/never-completes", c_done, dict(inp, step=step),
                          f"all {n} chunks have arrived ({list(seq[:step + 1])}) but the xfer is not done")
                return
            if 0 in arrived and xfer.expected_size != size:
                fails.add("xfer/size-hint", c_data, dict(inp, step=step), f"expected_size is {xfer.expected_size!r}, the payload has {size} bytes")
                return
            if complete:
                got = bytes(xfer.reassemble_chunks())
                if got != payload:
                    fails.add("xfer/reassemble", c_data, dict(inp, step=step),
                              f"reassembled {len(got)} bytes, sent {len(payload)}; first difference at byte {_first_diff(got, payload)}")
                    return
        if len(holder.circuit.sent) > 4000:
            holder.circuit.sent.clear()

    def xfer_pumped(size, seq, turbo):
        """end to end: XferManager.request() + the reply pump, packets delivered through the message handler, a foreign xfer interleaved"""
        nonlocal evals
        prep = prepare(size)
        other = prepare(1)
        if prep is None or other is None:
            return
        xid, payload, msgs = prep
        n = len(msgs)
        evals += 1
        seen.add(("xfer-pump", size, tuple(seq)))
        inp = {"receiver": "XferManager.request + _pump_xfer_replies", "payload_len": size, "chunks": n, "arrival_order": list(seq), "turbo": turbo}
        holder = _Holder()
        mgr = XferManager(holder)

        async def run():
            xfer = mgr.request(xfer_id=xid, vfile_id=UUID.ZERO, vfile_type=0, turbo=turbo)
            await _spin()
            arrived = set()
            for step, pid in enumerate(seq):
                if step == 1:
                    holder.message_handler.handle(other[2][0])     # a packet of another xfer must not matter
                holder.message_handler.handle(msgs[pid])
                await _spin()
                arrived.add(pid)
                complete = arrived == set(range(n))
                if xfer.done() and xfer._future.exception() is not None:
                    return "xfer/pump/failed", step, f"the xfer failed with {xfer._future.exception()!r}"
                if xfer.done() and not complete:
                    return "xfer/completes-early", step, f"done after arrivals {list(seq[:step + 1])}"
                if complete and not xfer.done():
                    return "xfer/never-completes", step, f"all {n} chunks have arrived but the xfer is not done"
                if complete:
                    got = bytes((await asyncio.wait_for(xfer, 1.0)).reassemble_chunks())
                    if got != payload:
                        return ("xfer/reassemble", step,
                                f"reassembled {len(got)} bytes, sent {len(payload)}; first difference at byte {_first_diff(got, payload)}")
                    return None
            return None

        async def run_and_clean():
            try:
                return await run()
            finally:
                await _cancel_others()
        try:
            res = loop.run_until_complete(run_and_clean())
        except Exception as ex:  # noqa
            fails.add(f"xfer/pump/raises-{type(ex).__name__}", c_done, inp, f"raised {type(ex).__name__}: {ex}")
            return
        if res:
            fails.add(res[0], c_done if "complet" in res[0] else c_data, dict(inp, step=res[1]), res[2])

    # the sender, for every boundary size, both input forms
    for n in range(1, MAXN + 1):
        for size in _xfer_sizes(n):
            prepare(size)
            if thorough or size % 2 == 0:
                prepare(size, raw=True)

    # arrival sequences: every order, every way of duplicating
    seq_count = 0
    for n in range(1, MAXN + 1):
        sizes = _xfer_sizes(n)
        if thorough:
            max_extra = {1: 3, 2: 3, 3: 3, 4: 3, 5: 2}[n]
        else:
            max_extra = {1: 3, 2: 3, 3: 3, 4: 2, 5: 1}[n]
        i = 0
        for extra in range(0, max_extra + 1):
            for seq in _surjective(n, n + extra):
                xfer_direct(sizes[i % len(sizes)], seq, turbo=(i % 3 == 2), raw=(i % 7 == 6 and (sizes[i % len(sizes)], True) in prepared))
                i += 1
        # beyond the exhaustive depth: seeded sequences with more duplicates
        for _ in range(60 if not thorough else 600):
            seq = list(range(n)) + [rng.randrange(n) for _ in range(rng.randrange(max_extra + 1, max_extra + 4))]
            rng.shuffle(seq)
            xfer_direct(sizes[i % len(sizes)], tuple(seq), turbo=rng.random() < 0.3)
            i += 1
        seq_count += i
        if len(samples) < 2 and n >= 3:
            samples.append({"receiver": "xfer", "chunks": n, "payload_sizes": sizes, "sequences": i})
    # every boundary size in order, reversed, and with every single chunk duplicated right away
    for n in range(1, MAXN + 1):
        for size in _xfer_sizes(n):
            base = list(range(n))
            xfer_direct(size, tuple(base), False)
            xfer_direct(size, tuple(reversed(base)), True)
            for d in range(n):
                xfer_direct(size, tuple(base[:d + 1] + [d] + base[d + 1:]), False)
                xfer_direct(size, tuple([d] + list(reversed(base))), False)
    for _ in range(40 if not thorough else 400):
        n = rng.randrange(1, MAXN + 1)
        seq = list(range(n)) + [rng.randrange(n) for _ in range(rng.randrange(0, 3))]
        rng.shuffle(seq)
        xfer_pumped(rng.choice(_xfer_sizes(n)), tuple(seq), rng.random() < 0.3)

    # ------------------------------------------------------------------------------------------------ Transfer receiver
    CH = 1000

    def transfer_msgs(size):
        payload = _payload(rng, size)
        tid = UUID(int=rng.getrandbits(128))
        chunks = [payload[i:i + CH] for i in range(0, len(payload), CH)] or [b""]
        msgs = [Message("TransferPacket", Block("TransferData", TransferID=tid, ChannelType=TransferChannelType.ASSET, Packet=i,
                                                Status=TransferStatus.DONE if i == len(chunks) - 1 else TransferStatus.OK, Data=c))
                for i, c in enumerate(chunks)]
        params = TransferRequestParamsSimEstate(AgentID=UUID.ZERO, SessionID=UUID.ZERO, EstateAssetType=EstateAssetType.COVENANT)
        info = Message("TransferInfo", Block("TransferInfo", TransferID=tid, ChannelType=TransferChannelType.ASSET,
                                             TargetType_=TransferTargetType.UNKNOWN, Status=TransferStatus.OK, Size=size,
                                             Params_=dataclasses.asdict(params)))
        # the data packets travel through the wire codec; the info message is handed over as built (its Params member is another property's business)
        return tid, payload, _wire(msgs), info

    tprepared = {}

    def transfer_direct(size, seq, info_at):
        nonlocal evals
        if size not in tprepared:
            tprepared[size] = transfer_msgs(size)
        tid, payload, msgs, info = tprepared[size]
        n = len(msgs)
        evals += 1
        seen.add(("transfer", size, tuple(seq), info_at))
        holder = _Holder()
        mgr = TransferManager(holder, UUID.ZERO, UUID.ZERO)
        tr = Transfer(tid)
        inp = {"receiver": "TransferManager._handle_transfer_packet", "payload_len": size, "chunks": n, "arrival_order": list(seq),
               "info_before_arrival": info_at}
        arrived = set()
        for step, pid in enumerate(seq):
            try:
                if step == info_at:
                    mgr._handle_transfer_info(info, tr)
                    if tr.expected_size != size:
                        fails.add("transfer/size", c_data, dict(inp, step=step), f"expected_size {tr.expected_size!r}, payload has {size}")
                mgr._handle_transfer_packet(msgs[pid], tr)
            except Exception as ex:  # noqa
                fails.add(f"transfer/raises-{type(ex).__name__}", c_done, dict(inp, step=step), f"raised {type(ex).__name__}: {ex}")
                return
            arrived.add(pid)
            complete = arrived == set(range(n))
            if tr.done() and not complete:
                fails.add("transfer/completes-early", c_done, dict(inp, step=step),
                          f"done after arrivals {list(seq[:step + 1])}: chunks {sorted(set(range(n)) - arrived)} have not arrived, "
                          f"{len(bytes(tr.reassemble_chunks()))} of {size} bytes present")
                return
            if complete and not tr.done():
                fails.add("transfer/never-completes", c_done, dict(inp, step=step), f"all {n} chunks have arrived but the transfer is not done")
                return
            if complete:
                got = bytes(tr.reassemble_chunks())
                if got != payload:
                    fails.add("transfer/reassemble", c_data, dict(inp, step=step),
                              f"reassembled {len(got)} bytes, sent {len(payload)}; first difference at byte {_first_diff(got, payload)}")
                    return

    def transfer_pumped(size, seq):
        nonlocal evals
        if size not in tprepared:
            tprepared[size] = transfer_msgs(size)
        tid, payload, msgs, info = tprepared[size]
        n = len(msgs)
        evals += 1
        seen.add(("transfer-pump", size, tuple(seq)))
        inp = {"receiver": "TransferManager.request + _pump_transfer_replies", "payload_len": size, "chunks": n, "arrival_order": list(seq)}
        holder = _Holder()
        mgr = TransferManager(holder, UUID.ZERO, UUID.ZERO)

        async def run():
            tr = mgr.request(source_type=TransferSourceType.SIM_ESTATE, transfer_id=tid,
                             params=TransferRequestParamsSimEstate(EstateAssetType=EstateAssetType.COVENANT))
            await _spin()
            holder.message_handler.handle(info)
            await _spin()
            arrived = set()
            for step, pid in enumerate(seq):
                holder.message_handler.handle(msgs[pid])
                await _spin()
                arrived.add(pid)
                complete = arrived == set(range(n))
                if tr.done() and tr._future.exception() is not None:
                    return "transfer/pump/failed", step, f"the transfer failed with {tr._future.exception()!r}"
                if tr.done() and not complete:
                    return "transfer/completes-early", step, f"done after arrivals {list(seq[:step + 1])}"
                if complete and not tr.done():
                    return "transfer/never-completes", step, f"all {n} chunks have arrived but the transfer is not done"
                if complete:
                    got = bytes(tr.reassemble_chunks())
                    if got != payload or tr.expected_size != size:
                        return "transfer/reassemble", step, f"reassembled {len(got)} bytes (size hint {tr.expected_size}), sent {len(payload)}"
                    return None
            return None

        async def run_and_clean():
            try:
                return await run()
            finally:
                await _cancel_others()
        try:
            res = loop.run_until_complete(run_and_clean())
        except Exception as ex:  # noqa
            fails.add(f"transfer/pump/raises-{type(ex).__name__}", c_done, inp, f"raised {type(ex).__name__}: {ex}")
            return
        if res:
            fails.add(res[0], c_done if "complet" in res[0] else c_data, dict(inp, step=res[1]), res[2])

    def tsizes(n):
        lo, hi = (n - 1) * CH + 1, n * CH
        s = {lo, hi, hi - 1, (lo + hi) // 2}
        if n == 1:
            s |= {0}
        return sorted(s)

    for n in range(1, MAXN + 1):
        sizes = tsizes(n)
        max_extra = ({1: 3, 2: 3, 3: 2, 4: 2, 5: 1} if thorough else {1: 2, 2: 2, 3: 1, 4: 1, 5: 0})[n]
        i = 0
        for extra in range(0, max_extra + 1):
            for seq in _surjective(n, n + extra):
                transfer_direct(sizes[i % len(sizes)], seq, info_at=(0 if i % 4 else i % (n + extra)))
                i += 1
        for size in sizes:
            transfer_pumped(size, tuple(range(n)))
            transfer_pumped(size, tuple(x for k in range(n) for x in ((k, k) if k % 2 == 0 else (k,))))
        if len(samples) < 3 and n >= 3:
            samples.append({"receiver": "transfer", "chunks": n, "payload_sizes": sizes, "sequences": i})
    for _ in range(20 if not thorough else 200):
        n = rng.randrange(2, MAXN + 1)
        seq = list(range(n)) + [rng.randrange(n) for _ in range(rng.randrange(0, 3))]
        rng.shuffle(seq)
        transfer_pumped(rng.choice(tsizes(n)), tuple(seq))

    return {"name": "chunked-transfers", "evaluations": evals, "distinct_nontrivial": len(seen),
            "rule": "Xfer: payload lengths at both edges and the middle of every chunk count 1..5 (prefix+payload = k*1150 and k*1150+-1, empty "
                    "payload, bytes and RawBytes input) are chunked by the real Xfer.__init__ and sent by the real serve_inbound_xfer_request, "
                    "passed through the LLUDP serialiser/deserialiser and fed to the real _handle_send_xfer_packet in EVERY arrival sequence "
                    "of length n..n+extra that contains every chunk (all permutations, all duplications), plus seeded longer sequences, plus "
                    "end-to-end runs through XferManager.request and its reply pump with a foreign xfer interleaved; completion is checked after "
                    "every single arrival, content at completion and after later duplicates. Transfer: the same for TransferPacket sequences "
                    "(chunks of 1000, DONE status on the last) against TransferManager, directly and through request() + pump. distinct = "
                    "distinct (receiver, payload length, arrival sequence)",
            "bounded": True, "bounds": {"max_chunks": MAXN, "xfer_chunk": 1150, "transfer_chunk": CH,
                                        "exhaustive_extra_arrivals": "quick: 3,3,3,2,1 / thorough: 3,3,3,3,2 for 1..5 chunks (xfer)"},
            "samples": samples, "failures": fails.items}


def _first_diff(a, b):
    for i, (x, y) in enumerate(zip(a, b)):
        if x != y:
            return i
    return min(len(a), len(b))
