"""C14 - tracked world stays self-consistent under any object update / kill history"""
from contracts import c14_native
PID = "C14"
META = {"level": "other", "explanation": "<filled in later by the framework owner>", "trusted_base": []}


def register(reg):
    pass


BOUNDED = [c14_native.bounded_transitions, c14_native.bounded_random_walks]
REPLAY = c14_native.replay
