"""C14 - tracked world stays self-consistent under any object update / kill history"""
from contracts import c14_native, c14_contracts, c14b_contracts
PID = "C14"
META = {
    "level": "other",
    "explanation": (
        "P (proved on the real bodies): RegionObjectsState.cancel_futures - the scan of the (local id, update type) table is never "
        "left early, an entry is visited iff its key carries the local id and then every future in it is cancelled exactly once "
        "(found the 'break' defect, fixed); RegionObjectsState.resolve_futures - a future of the snapshot is resolved iff it is still "
        "pending, given that set_result raises exactly on a done future, so no InvalidStateError escapes (the fixed defect fails this). "
        "RegionObjectsState.register_future files the new future under (local id, update type) - the key the other two look under - and returns it. "
        "Orphanage bookkeeping over the abstract view orph(table, parent id, child id): untrack_object leaves every former child filed "
        "under the departed object's local id, the object itself no orphan of its parent, its pending requests cancelled (once, for its "
        "own id) and its id removed from the index; _unparent_object removes exactly the (old parent, object) entry; _parent_object "
        "files an object whose parent is not tracked under the parent's id (and notes the id as missing) and otherwise inserts it at "
        "one position of both child lists of the parent; track_object files the object under its own id, links it and re-links every "
        "collected orphan exactly once; handle_object_reparented breaks the old link and makes the new one. "
        "B (bounded, NOT proved): an independent reference model of the scene graph compared after every message with the real "
        "ProxyWorldObjectManager / region managers driven through a real Session: every (scene graph, enabled message) pair over a universe "
        "of 3 local ids x 3 full ids x 2 regions + unknown handle (91-message alphabet; quick: ~7.7k of ~16k pairs under full renaming "
        "symmetry, thorough: all ~94.7k pairs), plus seeded random walks of 20-69 steps with terse / cached / property / request steps. "
        "Four genuine defects found and fixed."),
    "trusted_base": [
        "RegionObjectsState._track_orphan / _untrack_orphan: assumed contracts (add / remove exactly one (parent, child) entry of the "
        "orphan table - a defaultdict of lists edited in place); the bounded tier compares the table with a reference after every message",
        "untrack_object / track_object / _parent_object: the internal consistency asserts (a child id is tracked, no child left, not "
        "already a child) are admitted as AssertionError in the proof; the bounded tier checks that no handler raises",
        "the child lists (ChildIDs / Children) of the parent are abstracted in _unparent_object / _parent_object: edits are counted "
        "and their positions compared, list contents are bounded tier",
        "whole-history clause (indices, parent/child/orphan links, futures) is bounded tier only: the handlers mutate dict-of-object "
        "graphs through aliasing that the VC generator does not model",
        "asyncio futures and the event loop are real CPython objects in the bounded tier, externals in the proof",
    ],
}


def register(reg):
    c14_contracts.register_p(reg, PID)
    c14b_contracts.register_p2(reg, PID)


BOUNDED = [c14_native.bounded_transitions, c14_native.bounded_random_walks]
REPLAY = c14_native.replay
