"""Tier-P contracts for C07, second part: the addon hook chain (AddonManager._call_module_hooks / _call_all_addon_hooks): every
addon object is asked in order until one returns something truthy, which ends the chain and is what the caller gets."""
from pyvc.contracts import ClassDecl, FnContract, alias_loops_by_order

AREL = "hippolyzer/lib/proxy/addons.py"
MOD = "hippolyzer.lib.proxy.addons"


def register_p2(reg, prop):
    o = "Opaque:Any"
    if "AddonManagerCls" not in reg.classes:
        reg.add_class(ClassDecl("AddonManagerCls", fields={"_SUBPROCESS": "Bool", "_SWALLOW_ADDON_EXCEPTIONS": "Bool", "SCHEDULER": o}))
    reg.classes["AddonManagerCls"].fields.setdefault("FRESH_ADDON_MODULES", "Opaque:ModDict")
    reg.add_fn(FnContract(
        key=f"{MOD}:AddonManager._call_module_hooks", relpath=AREL, qualname="AddonManager._call_module_hooks", cls="AddonManagerCls", prop=prop,
        params={"module": "Opaque:Module", "hook_name": "Str", "args": o, "call_async": "Bool", "kwargs": o},
        param_names=["module", "hook_name"], defaults={"call_async": False}, returns=o,
        externals={
            "cls._get_module_addons": {"returns": "Opaque:AddonList", "doc": "the module's `addons` list"},
            "cls._try_call_hook": {"returns": o, "record_as": "hook", "record_result": True, "may_raise": "AnyException",
                                   "doc": "one addon object's hook (own contract: failures isolated)"},
        },
        may_raise={"AnyException": ""},
        loops={"for addon in cls._get_module_addons(module)": {
            "inv": ["True"],
            # one addon object: asked exactly once for this hook; the chain goes on only if it returned nothing truthy
            "iter_post": ["ncalls('hook') == 1 and called_with('hook', lambda arg0, arg1, result: arg0 == addon and arg1 == hook_name and not truthy(result))"]}},
        ensures=[
            # left early: the truthy answer of the addon that ended the chain is the result
            "implies(L0_left_early == 1, truthy(result) and called_with('hook', lambda result: result == RESULT))",
            # not left early: the module itself was asked last, and its answer is the result
            "implies(L0_left_early == 0, ncalls('hook') == 1 and called_with('hook', lambda arg0, arg1, result: arg0 == module and arg1 == hook_name and result == RESULT))",
        ],
        frame=[]))
    alias_loops_by_order(reg.fns[f"{MOD}:AddonManager._call_module_hooks"])
    reg.add_fn(FnContract(
        key=f"{MOD}:AddonManager._call_all_addon_hooks", relpath=AREL, qualname="AddonManager._call_all_addon_hooks", cls="AddonManagerCls", prop=prop,
        params={"hook_name": "Str", "args": o, "call_async": "Bool", "kwargs": o},
        param_names=["hook_name"], defaults={"call_async": False}, returns="Opt[Opaque:Any]",
        externals={
            "cls.FRESH_ADDON_MODULES.values": {"returns": "Opaque:ModList", "doc": "loaded addon modules in load order"},
            "cls._call_module_hooks": {"returns": o, "record_as": "module_hooks", "record_result": True, "may_raise": "AnyException",
                                       "doc": "one module's addons, then the module (own contract)"},
        },
        may_raise={"AnyException": ""},
        loops={"for module in cls.FRESH_ADDON_MODULES.values()": {
            "inv": ["True"],
            # one module: skipped if it failed to load (falsy), otherwise asked exactly once; the chain goes on only without a truthy answer
            "iter_post": ["iff(ncalls('module_hooks') == 1, truthy(module))", "ncalls('module_hooks') <= 1",
                          "implies(ncalls('module_hooks') == 1, called_with('module_hooks', lambda arg0, arg1, result: arg0 == module and arg1 == hook_name "
                          "and not truthy(result)))"]}},
        ensures=[
            "implies(L0_left_early == 0, is_none(result))",
            "implies(L0_left_early == 1, not is_none(result) and truthy(val(result)) and called_with('module_hooks', lambda result: result == val(RESULT)))",
        ],
        frame=[]))
    alias_loops_by_order(reg.fns[f"{MOD}:AddonManager._call_all_addon_hooks"])
