"""Tier-P contracts for C20, second part: the receive side of chunked transfers - what one arriving packet does to the
reassembly state (XferManager._handle_send_xfer_packet, TransferManager._handle_transfer_packet)."""
from pyvc.contracts import ClassDecl, FnContract

XREL = "hippolyzer/lib/base/xfer_manager.py"
TREL = "hippolyzer/lib/base/transfer_manager.py"


def register_p2(reg, prop):
    from hippolyzer.lib.base.message.msgtypes import MsgType, PacketFlags
    from hippolyzer.lib.base import xfer_manager as xm
    from hippolyzer.lib.base.templates import TransferStatus
    o = "Opaque:Any"
    reg.add_class(ClassDecl("XferPacket", fields={"PacketID": "Int", "IsEOF": "Bool"}))
    reg.add_class(ClassDecl("XferManager", fields={"_connection_holder": o, "_secure_session_id": o}))
    common_ext = {
        # Xfer.done / Transfer.done and mark_done are inlined from the real classes: they reach the completion future here
        "self._future.done": {"returns": "Bool", "record_as": "is_done", "record_result": True, "doc": "Future.done() of the completion future"},
        "self._future.set_result": {"record_as": "mark_done", "doc": "Future.set_result on the completion future"},
    }
    reg.add_fn(FnContract(
        key="hippolyzer.lib.base.xfer_manager:XferManager._handle_send_xfer_packet", relpath=XREL,
        qualname="XferManager._handle_send_xfer_packet", cls="XferManager", prop=prop,
        params={"msg": "Opaque:Message", "xfer": "Obj:Xfer"}, param_names=["msg", "xfer"],
        consts={"MsgType": MsgType, "PacketFlags": PacketFlags, "ACK_AHEAD_MAX": xm.ACK_AHEAD_MAX},
        externals={
            **common_ext,
            "*.deserialize_var": {"returns": "Obj:XferPacket", "doc": "the XferPacket subfield (PacketID, IsEOF) of the message"},
            "sub:msg['DataPacket']['Data']": {"returns": "Bytes", "record_as": "wire_data", "record_result": True, "doc": "payload bytes of the message"},
            "TemplateDataPacker.unpack": {"returns": "Int", "doc": "S32 size hint"},
            "xfer.size_known.done": {"returns": "Bool", "doc": "size future"},
            "xfer.size_known.set_result": {"record_as": "size_known", "doc": "size future resolved"},
            "Message": {"returns": o, "ignore_args": True, "doc": "message constructor"},
            "Block": {"returns": o, "record_as": "ack_block", "doc": "block constructor"},
            "self._connection_holder.circuit.send_reliable": {"record_as": "send_reliable", "doc": "ack goes out"},
        },
        loops={0: {"inv": ["True"]}},
        ensures=[
            # the chunk is filed under the packet's own number; packet 0 loses its 4-byte size hint, no other packet loses anything
            "ncalls('store:xfer.chunks') == 1",
            "stored_key('store:xfer.chunks') == packet_id.PacketID",
            "called_with('wire_data', lambda result: stored_value('store:xfer.chunks') == ite(packet_id.PacketID == 0, result[4:], result))",
            # the end marker fixes how many chunks are expected; nothing else touches that number
            "xfer.expected_chunks == ite(packet_id.IsEOF, packet_id.PacketID + 1, old(xfer.expected_chunks))",
            # completion: exactly when the transfer is not already done and the number of distinct chunks equals the expected number
            "iff(ncalls('mark_done') == 1, called_with('is_done', lambda result: not result) and len(xfer.chunks) == xfer.expected_chunks)",
            "ncalls('mark_done') <= 1",
            # without turbo, exactly the arriving packet is acknowledged
            "implies(not xfer.turbo, ncalls('send_reliable') == 1 and called_with('ack_block', lambda Packet: Packet == packet_id.PacketID))",
        ],
        frame=["xfer.expected_size", "xfer.expected_chunks", "xfer.next_ackable", "xfer.chunks"]))

    reg.add_class(ClassDecl("Transfer", fields={"transfer_id": o, "chunks": "Opaque:Dict", "expected_size": "Opt[Int]", "expected_chunks": "Opt[Int]",
                                                "size_known": o, "error_code": "Int", "_future": o},
                            inline={"done": (TREL, "Transfer.done"), "mark_done": (TREL, "Transfer.mark_done")}))
    reg.add_class(ClassDecl("TransferManager", fields={"_connection_holder": o, "_agent_id": o, "_session_id": o}))
    reg.add_fn(FnContract(
        key="hippolyzer.lib.base.transfer_manager:TransferManager._handle_transfer_packet", relpath=TREL,
        qualname="TransferManager._handle_transfer_packet", cls="TransferManager", prop=prop,
        params={"msg": "Opaque:Message", "transfer": "Obj:Transfer"}, param_names=["msg", "transfer"],
        consts={"TransferStatus": TransferStatus},
        externals={
            **common_ext,
            "sub:transfer_block['Packet']": {"returns": "Int", "doc": "packet number"},
            "sub:transfer_block['Data']": {"returns": "Bytes", "doc": "payload bytes"},
            "sub:transfer_block['Status']": {"returns": "Int", "record_as": "status", "record_result": True, "doc": "status code"},
        },
        ensures=[
            "ncalls('store:transfer.chunks') == 1",
            "stored_key('store:transfer.chunks') == packet_id and stored_value('store:transfer.chunks') == packet_data",
            f"called_with('status', lambda result: transfer.expected_chunks == ite(result == {int(TransferStatus.DONE)}, packet_id + 1, old(transfer.expected_chunks)))",
            "iff(ncalls('mark_done') == 1, called_with('is_done', lambda result: not result) and len(transfer.chunks) == transfer.expected_chunks)",
            "ncalls('mark_done') <= 1",
        ],
        frame=["transfer.expected_chunks", "transfer.chunks"]))


    # reassembly: the chunks are concatenated in the order of their packet numbers, each exactly once, whatever order they arrived in
    for cls_, rel_, mod_ in (("Xfer", XREL, "hippolyzer.lib.base.xfer_manager"), ("Transfer", TREL, "hippolyzer.lib.base.transfer_manager")):
        reg.add_fn(FnContract(
            key=f"{mod_}:{cls_}.reassemble_chunks", relpath=rel_, qualname=f"{cls_}.reassemble_chunks", cls=cls_, prop=prop, use_wf=False,
            returns="Opaque:Any",
            externals={
                "self.chunks.items": {"returns": "Opaque:Items", "record_as": "items", "record_result": True, "doc": "(packet number, data) pairs"},
                "sorted": {"returns": "Opaque:Sorted", "record_as": "sorted", "record_result": True, "doc": "pairs in ascending packet-number order (built-in sort of (int, bytes) pairs with distinct ints)"},
                "assembled.extend": {"record_as": "extend", "doc": "append the chunk's bytes"},
            },
            loops={"for _, data in sorted(self.chunks.items())": {
                "elem_sort": "Tuple[Int,Bytes]", "ghost_init": {"_n": "0"}, "ghost_step": {"_n": "_n + ncalls('extend')"}, "inv": ["_n == _i"],
                "iter_post": ["ncalls('extend') == 1 and called_with('extend', lambda arg0: arg0 == data)"]}},
            ensures=[
                "ncalls('items') == 1 and ncalls('sorted') == 1 and called_with('items', lambda result: called_with('sorted', lambda arg0: arg0 == result))",
                "L0_left_early == 0 and defined('_n')",
                "called_with('sorted', lambda result: _n == len(result))"],
            frame=[]))
        from pyvc.contracts import alias_loops_by_order
        alias_loops_by_order(reg.fns[f"{mod_}:{cls_}.reassemble_chunks"])
