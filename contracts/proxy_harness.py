"""Shared run-time harness: a real InterceptingLLUDPProxyProtocol + SessionManager + recording transport, driven
synchronously (no sockets). Used by the bounded tiers of C06, C07 (and others)."""
import asyncio
import logging


class RecTransport:
    """stands in for SOCKS5UDPTransport: records what would be put on the wire"""

    def __init__(self):
        self.packets = []       # (serialized bytes as SOCKS5UDPTransport would send them, dst_addr, UDPPacket)

    def send_packet(self, packet):
        from hippolyzer.lib.proxy.transport import SOCKS5UDPTransport
        self.packets.append((SOCKS5UDPTransport.serialize(packet), packet.dst_addr, packet))

    def close(self):
        pass


class LogCatcher(logging.Handler):
    def __init__(self):
        super().__init__(level=logging.ERROR)
        self.records = []

    def emit(self, record):
        self.records.append(record)


class Harness:
    def __init__(self, addons=(), n_regions=1, swallow=True, with_logger=True, same_ip=False, addon_scripts=(), login_extras=None):
        from hippolyzer.lib.base.datatypes import UUID
        from hippolyzer.lib.base.message.udpserializer import UDPMessageSerializer
        from hippolyzer.lib.proxy.addons import AddonManager
        from hippolyzer.lib.proxy.lludp_proxy import InterceptingLLUDPProxyProtocol
        from hippolyzer.lib.proxy.sessions import SessionManager
        from hippolyzer.lib.proxy.settings import ProxySettings
        self.loop = asyncio.new_event_loop()
        asyncio.set_event_loop(self.loop)
        self.client_addr = ("127.0.0.1", 1)
        # same_ip: the simulators share the viewer's IP (local grid / test topology): only the port tells them apart
        self.region_addrs = [(("127.0.0.1" if same_ip else "10.0.0.%d" % (i + 1)), 13000 + i) for i in range(n_regions)]
        self.session_manager = SessionManager(ProxySettings())
        self.session_manager.settings.USE_VIEWER_OBJECT_CACHE = False
        self.logged = []
        if with_logger:
            h = self

            class _Logger:
                def log_lludp_message(self, session, region, message):
                    h.logged.append((message.name, message.packet_id, message.dropped, message.finalized))

                def log_http_response(self, flow):
                    h.logged.append(("http", flow.request.url))

                def log_eq_event(self, session, region, event):
                    h.logged.append(("eq", event.get("message")))
            self.session_manager.message_logger = _Logger()
        self.session = self.session_manager.create_session(dict({
            "session_id": UUID.random(), "secure_session_id": UUID.random(), "agent_id": UUID.random(),
            "circuit_code": 1234, "sim_ip": self.region_addrs[0][0], "sim_port": self.region_addrs[0][1],
            "region_x": 0, "region_y": 123, "seed_capability": "https://test.localhost:4/foo"}, **(login_extras or {})))
        for i, addr in enumerate(self.region_addrs[1:]):
            self.session.register_region(addr, handle=1000 + i, seed_url="https://test.localhost:4/r%d" % i)
        self.transport = RecTransport()
        AddonManager.init(list(addon_scripts), self.session_manager, list(addons), swallow_addon_exceptions=swallow)
        self.protocol = InterceptingLLUDPProxyProtocol(self.client_addr, self.session_manager)
        self.protocol.transport = self.transport
        self.serializer = UDPMessageSerializer()
        self.session.objects.track_region_objects(123)
        self.errors = LogCatcher()
        logging.getLogger().addHandler(self.errors)

    def open_circuits(self):
        self.protocol.session = self.session
        self.session_manager.claim_session(self.session.id)
        for region in self.session.regions:
            self.protocol.far_to_near_map[region.circuit_addr] = self.client_addr
            self.session.open_circuit(self.client_addr, region.circuit_addr, self.protocol.transport)
        self.session.main_region = self.session.regions[0]

    def datagram(self, msg, region_idx=0, socks=True):
        """bytes as they arrive at the proxy's UDP socket, and the source address"""
        from hippolyzer.lib.base.network.transport import UDPPacket, Direction
        from hippolyzer.lib.proxy.transport import SOCKS5UDPTransport
        far = self.region_addrs[region_idx]
        if msg.direction == Direction.OUT:
            pkt = UDPPacket(src_addr=self.client_addr, dst_addr=far, data=self.serializer.serialize(msg), direction=Direction.OUT)
            return SOCKS5UDPTransport.serialize(pkt, force_socks_header=socks), self.client_addr
        pkt = UDPPacket(src_addr=far, dst_addr=self.client_addr, data=self.serializer.serialize(msg), direction=Direction.IN)
        return pkt.data, far

    def feed(self, data, src):
        """deliver one datagram; returns (exception or None, packets put on the wire by this call)"""
        before = len(self.transport.packets)
        exc = None
        try:
            self.protocol.datagram_received(data, src)
        except Exception as e:  # noqa
            exc = e
        return exc, self.transport.packets[before:]

    def close(self):
        from hippolyzer.lib.proxy.addons import AddonManager
        logging.getLogger().removeHandler(self.errors)
        try:
            self.protocol.close()
        except Exception:  # noqa
            pass
        try:
            AddonManager.shutdown()
            AddonManager.FRESH_ADDON_MODULES.clear()
        except Exception:  # noqa
            pass
        try:
            self.loop.run_until_complete(asyncio.sleep(0))
            self.loop.close()
        except Exception:  # noqa
            pass
