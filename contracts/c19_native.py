"""C19 bounded tier: real HippoClientProtocol + Circuit, arrival sequences with duplication and reordering."""
import asyncio
import itertools
import random

from contracts.c05_native import FakeClock, RecTransport


class _Region:
    def __init__(self, circuit, handler):
        self.circuit = circuit
        self.message_handler = handler
        self.circuit_addr = circuit.host


class _SM:
    def __init__(self):
        # the client's own settings class, untouched: how the endpoint parses what it receives is part of what is checked
        from hippolyzer.lib.client.hippo_client import ClientSettings
        self.settings = ClientSettings()


class _Session:
    def __init__(self, region, handler):
        self.session_manager = _SM()
        self.message_handler = handler
        self._region = region

    def region_by_circuit_addr(self, addr):
        return self._region if addr == self._region.circuit_addr else None


class Env:
    def __init__(self):
        import hippolyzer.lib.base.message.circuit as bc
        from hippolyzer.lib.base.message.circuit import Circuit
        from hippolyzer.lib.base.message.message_handler import MessageHandler
        from hippolyzer.lib.client.hippo_client import HippoClientProtocol
        self.loop = asyncio.new_event_loop()
        asyncio.set_event_loop(self.loop)
        self.clock = FakeClock()
        self._bc, self._dt = bc, bc.dt
        bc.dt = self.clock
        self.tr = RecTransport()
        self.sim = ("10.0.0.1", 13000)
        self.circuit = Circuit(("127.0.0.1", 1), self.sim, self.tr)
        self.rh = MessageHandler(take_by_default=False)
        self.sh = MessageHandler(take_by_default=False)
        self.region = _Region(self.circuit, self.rh)
        self.session = _Session(self.region, self.sh)
        self.proto = HippoClientProtocol(self.session)
        self.got = {"session": [], "region": []}
        # a subscriber that unsubscribes itself on its first message sits ahead of the recorders at both levels
        self.sh.subscribe("*", lambda m: True)
        self.rh.subscribe("*", lambda m: True)
        self.sh.subscribe("*", lambda m: self.got["session"].append((m.packet_id, m.name)))
        self.rh.subscribe("*", lambda m: self.got["region"].append((m.packet_id, m.name)))
        # a subscriber by name that got its notifier from register() while it was still empty, and subscribes to it only after
        # somebody else registered the same name again: it is a subscriber like any other
        self.got_named = {"session": [], "region": []}
        self._held = {}
        self.named_on = False
        for lvl, mh in (("session", self.sh), ("region", self.rh)):
            ev_ = mh.register("CompletePingCheck")
            mh.register("CompletePingCheck")
            mh.register("ChatFromSimulator")
            self._held[lvl] = ev_        # subscribed to only after the first datagram has arrived (see recv)
        # coroutine subscribers (two per level): each is run once per delivery, like any other subscriber
        self.got_async = {"session": {"a1": [], "a2": []}, "region": {"a1": [], "a2": []}}
        for lvl, mh in (("session", self.sh), ("region", self.rh)):
            for nm in ("a1", "a2"):
                async def _sub(m, lvl=lvl, nm=nm):
                    self.got_async[lvl][nm].append(m.packet_id)
                mh.subscribe("*", _sub)
        self.seen = 0

    def recv(self, data):
        """one datagram arrives (inside the running loop, so that coroutine subscribers get scheduled and run)"""
        async def go():
            try:
                self.proto.datagram_received(data, self.sim)
            finally:
                for _ in range(3):
                    await asyncio.sleep(0)
        try:
            self.loop.run_until_complete(go())
        finally:
            if not self.named_on:
                # packets of that name may have come and gone while the notifier had no subscriber: it is still the notifier
                self.named_on = True
                for lvl, ev_ in self._held.items():
                    ev_.subscribe(lambda m, lvl=lvl: self.got_named[lvl].append((m.packet_id, m.name)))

    def close(self):
        self._bc.dt = self._dt
        self.loop.close()

    def wire(self):
        from hippolyzer.lib.base.message.udpdeserializer import UDPMessageDeserializer
        d = self.__dict__.setdefault("_wire_deser", UDPMessageDeserializer())     # kept alive: lazily parsed messages hold it weakly
        out = [d.deserialize(p.data) for p in self.tr.packets[self.seen:]]
        self.seen = len(self.tr.packets)
        return out


def UUID_ZERO():
    from hippolyzer.lib.base.datatypes import UUID
    return UUID(int=0)


def bounded_arrivals(reg, tier, seed):
    from hippolyzer.lib.base.message.message import Message, Block
    from hippolyzer.lib.base.message.msgtypes import PacketFlags
    from hippolyzer.lib.base.message.udpserializer import UDPMessageSerializer
    from hippolyzer.lib.base.network.transport import Direction
    rng = random.Random(seed)
    ser = UDPMessageSerializer()
    evals, failures, seen, samples = 0, [], set(), []

    def fail(key, what, inp):
        if sum(1 for f in failures if f["key"] == key) < 2:
            failures.append({"key": key, "clause": what, "input": inp, "observed": what})
    runs = 60 if tier == "quick" else 600
    for run in range(runs):
        env = Env()
        try:
            trace = []
            delivered = {"session": set(), "region": set()}
            unreliable_sent = 0
            sends = {}           # our reliable sends: packet id -> dict(future, acked, ticks)
            last_id = -1
            steps = rng.randrange(5, 35)
            # the resend interval is a setting of the circuit, and the time between sweeps is the caller's business: any sweep made
            # after more than the interval has passed counts against the retry budget
            env.circuit.resend_every = rng.choice([env.circuit.resend_every, env.circuit.resend_every, 0.25, 1.5])
            gaps = [0.05, 0.5, 86400.0 + 2.0, 3 * 86400.0]
            raise_in = rng.choice([None, "session", "region"])
            if raise_in:
                def boom(m):
                    raise RuntimeError("subscriber failure")
                (env.sh if raise_in == "session" else env.rh).subscribe("CompletePingCheck", boom)
            for _ in range(steps):
                ev = rng.choice(["rel", "rel", "dup", "unrel", "send", "ack_app", "ack_pkt", "tick", "rel_cut"])
                evals += 1
                if ev == "rel_cut":
                    # a reliable packet whose header is intact but whose body does not decode (cut short): it was received, so it
                    # is acknowledged on every arrival and handed to the subscribers once (they get the message, body unparsed)
                    pid = rng.randrange(20, 26)
                    m = Message("ChatFromSimulator", Block("ChatData", FromName="x", SourceID=UUID_ZERO(), OwnerID=UUID_ZERO(), SourceType=1,
                                                           ChatType=1, Audible=1, Position=(0, 0, 0), Message="hello"),
                                packet_id=pid, direction=Direction.IN, flags=PacketFlags.RELIABLE)
                    data = ser.serialize(m)[:-6]
                    trace.append((ev, pid))
                    before = {k: len(v) for k, v in env.got.items()}
                    try:
                        env.recv(data)
                    except Exception as ex:  # noqa
                        fail("client/raise", f"reliable packet with an undecodable body: {type(ex).__name__} escaped datagram_received", {"trace": [str(t) for t in trace[-6:]]})
                    out = env.wire()
                    acked = [b["ID"] for w in out if w.name == "PacketAck" for b in w["Packets"]]
                    if acked != [pid]:
                        fail("client/ack", f"reliable packet {pid} (body cut short) acknowledged with {acked}, expected exactly [{pid}]", {"trace": [str(t) for t in trace[-6:]]})
                    for lvl in ("session", "region"):
                        n_new = len(env.got[lvl]) - before[lvl]
                        want = 0 if pid in delivered[lvl] else 1
                        if n_new != want:
                            fail("client/dispatch", f"reliable packet {pid} (body cut short) delivered {n_new} times to {lvl}-level subscribers, expected {want}",
                                 {"trace": [str(t) for t in trace[-8:]], "level": lvl})
                        delivered[lvl].add(pid)
                elif ev in ("rel", "dup", "unrel"):
                    if ev == "dup" and delivered["session"]:
                        pid = rng.choice(sorted(delivered["session"]))
                        reliable = True
                    else:
                        # packet ids are any 32-bit numbers: small ones, and ones a multiple of 1000 / 1024 / 65536 apart (fewer than a
                        # dedupe window of reliable packets ever arrives in one run, so none of them may be forgotten)
                        pid = rng.randrange(1, 12) + rng.choice([0, 0, 0, 1000, 2000, 1024, 65536, 5000000])
                        reliable = ev != "unrel"
                    acks = ()
                    if ev != "unrel" and sends and rng.random() < 0.3:
                        a = rng.choice(sorted(sends))
                        acks = (a,)
                    m = Message("CompletePingCheck", Block("PingID", PingID=pid % 256), packet_id=pid, direction=Direction.IN,
                                flags=(PacketFlags.RELIABLE if reliable else 0), acks=acks)
                    if acks:
                        m.send_flags |= PacketFlags.ACK
                    trace.append((ev, pid, reliable, acks))
                    before = {k: len(v) for k, v in env.got.items()}
                    before_named = {k: len(v) for k, v in env.got_named.items()}
                    named_was_on = env.named_on
                    before_async = {k: {n_: len(v_) for n_, v_ in d_.items()} for k, d_ in env.got_async.items()}
                    try:
                        env.recv(ser.serialize(m))
                    except RuntimeError:
                        if raise_in != "region":
                            fail("client/raise", "subscriber failure escaped datagram_received", {"trace": [str(t) for t in trace[-6:]]})
                    out = env.wire()
                    acked = [b["ID"] for w in out if w.name == "PacketAck" for b in w["Packets"]]
                    if reliable and acked != [pid]:
                        fail("client/ack", f"reliable packet {pid} arrival acknowledged with {acked}, expected exactly [{pid}]", {"trace": [str(t) for t in trace[-6:]]})
                    if not reliable and acked:
                        fail("client/ack", f"unreliable packet acknowledged: {acked}", {"trace": [str(t) for t in trace[-6:]]})
                    for lvl in ("session", "region"):
                        n_new = len(env.got[lvl]) - before[lvl]
                        n_named = len(env.got_named[lvl]) - before_named[lvl]
                        for nm_ in ("a1", "a2"):
                            n_async = len(env.got_async[lvl][nm_]) - before_async[lvl][nm_]
                            if n_async != n_new and raise_in is None:
                                fail("client/dispatch", f"coroutine subscriber {nm_} at {lvl} level was run {n_async} times for a packet the plain subscriber "
                                     f"got {n_new} times", {"trace": [str(t) for t in trace[-8:]], "level": lvl})
                        if named_was_on and n_named != n_new and not (lvl == "region" and raise_in == "session") and raise_in is None:
                            fail("client/dispatch", f"the by-name subscriber at {lvl} level got {n_named} deliveries where the wildcard subscriber got {n_new}",
                                 {"trace": [str(t) for t in trace[-8:]], "level": lvl})
                        if reliable:
                            want = 0 if pid in delivered[lvl] else 1
                            if lvl == "region" and raise_in == "session":
                                pass
                            if n_new != want:
                                fail("client/dispatch", f"reliable packet {pid} delivered {n_new} times to {lvl}-level subscribers on this arrival, expected {want}",
                                     {"trace": [str(t) for t in trace[-8:]], "level": lvl})
                            delivered[lvl].add(pid)
                        elif n_new != 1:
                            fail("client/dispatch", f"unreliable packet delivered {n_new} times to {lvl}-level subscribers", {"trace": [str(t) for t in trace[-6:]]})
                    for a in acks:
                        if a in sends:
                            sends[a]["acked"] = True
                elif ev == "send":
                    m = Message("CompletePingCheck", Block("PingID", PingID=1))
                    fut = env.circuit.send_reliable(m)
                    out = env.wire()
                    pid = m.packet_id
                    trace.append(("send", pid))
                    if pid <= last_id:
                        fail("client/ids", f"packet id {pid} issued after {last_id}: not strictly increasing", {"trace": [str(t) for t in trace[-6:]]})
                    last_id = pid
                    sends[pid] = {"fut": fut, "acked": False, "ticks": 0, "failed": False}
                elif ev in ("ack_app", "ack_pkt") and sends:
                    also_acked = []
                    a = rng.choice(sorted(sends))
                    if ev == "ack_app":
                        m = Message("CompletePingCheck", Block("PingID", PingID=0), packet_id=rng.randrange(100, 200), direction=Direction.IN, acks=(a,),
                                    flags=PacketFlags.ACK)
                    else:
                        # an explicit PacketAck may carry appended acks as well: both forms in one datagram
                        extra_ = [x for x in sorted(sends) if x != a and rng.random() < 0.4][:2]
                        m = Message("PacketAck", Block("Packets", ID=a), packet_id=rng.randrange(200, 300), direction=Direction.IN,
                                    acks=tuple(extra_), flags=(PacketFlags.ACK if extra_ else 0))
                        also_acked = extra_
                    trace.append((ev, a))
                    try:
                        env.recv(ser.serialize(m))
                    except Exception as ex:  # noqa
                        if not (isinstance(ex, RuntimeError) and raise_in == "region"):
                            fail("client/raise", f"ack delivery raised {type(ex).__name__}: {ex}", {"trace": [str(t) for t in trace[-6:]]})
                    env.wire()
                    if not sends[a]["failed"]:
                        sends[a]["acked"] = True
                    for x_ in (also_acked if ev == "ack_pkt" else []):
                        if not sends[x_]["failed"]:
                            sends[x_]["acked"] = True
                elif ev == "tick":
                    env.clock.advance(env.circuit.resend_every + rng.choice(gaps))
                    env.circuit.resend_unacked()
                    out = env.wire()
                    trace.append(("tick",))
                    for pid, rec in sends.items():
                        n = sum(1 for w in out if w.packet_id == pid and w.name != "PacketAck")
                        pending = not rec["acked"] and not rec["failed"]
                        if pending:
                            rec["ticks"] += 1
                            if rec["ticks"] >= 10:
                                rec["failed"] = True
                                if n != 0:
                                    fail("client/resend", f"send {pid} retransmitted after its retry budget was spent", {"trace": [str(t) for t in trace[-6:]]})
                            elif n != 1:
                                fail("client/resend", f"unacked send {pid} retransmitted {n} times in one pass", {"trace": [str(t) for t in trace[-6:]]})
                        elif n:
                            fail("client/resend", f"send {pid} retransmitted although acked/failed", {"trace": [str(t) for t in trace[-6:]]})
                # completion signals
                for pid, rec in sends.items():
                    f = rec["fut"]
                    if rec["acked"] and not (f.done() and f.exception() is None):
                        fail("client/complete", f"send {pid} was acknowledged but its completion did not fire", {"trace": [str(t) for t in trace[-6:]]})
                    if rec["failed"] and not (f.done() and f.exception() is not None):
                        fail("client/complete", f"send {pid} spent its retry budget but did not fail", {"trace": [str(t) for t in trace[-6:]]})
                    if not rec["acked"] and not rec["failed"] and f.done():
                        fail("client/complete", f"send {pid} completed without ack or exhaustion", {"trace": [str(t) for t in trace[-6:]]})
            seen.add(tuple(str(t) for t in trace))
            if len(samples) < 2:
                samples.append([str(t) for t in trace[:8]])
        finally:
            env.close()
    # a block-scoped subscription (subscribe_async) that is drained only after a burst: every unreliable packet of the burst is there
    env = Env()
    try:
        burst = 1500 if tier == "quick" else 5000

        async def burst_case():
            got_ = []
            with env.sh.subscribe_async(("AgentDataUpdate",), take=False) as get_s, env.rh.subscribe_async(("AgentDataUpdate",), take=False) as get_r:
                for k_ in range(burst):
                    m_ = Message("CompletePingCheck", Block("PingID", PingID=k_ % 256), packet_id=10_000 + k_, direction=Direction.IN)
                    m_.name = "CompletePingCheck"
                    mm = Message("AgentDataUpdate", Block("AgentData", AgentID=UUID_ZERO(), FirstName="a", LastName="b", GroupTitle="", ActiveGroupID=UUID_ZERO(),
                                                          GroupPowers=0, GroupName=""), packet_id=20_000 + k_, direction=Direction.IN)
                    env.proto.datagram_received(ser.serialize(mm), env.sim)
                for getter in (get_s, get_r):
                    n_ = 0
                    try:
                        while True:
                            await asyncio.wait_for(getter(), 0.01)
                            n_ += 1
                    except asyncio.TimeoutError:
                        pass
                    got_.append(n_)
            return got_
        evals += burst
        seen.add(("burst", burst))
        counts = env.loop.run_until_complete(burst_case())
        if counts != [burst, burst]:
            fail("client/dispatch", f"a burst of {burst} unreliable packets: the block-scoped subscribers at session / region level were handed {counts}", {"burst": burst})
    except Exception as ex:  # noqa
        fail("client/raise", f"burst scenario raised {type(ex).__name__}: {ex}", {})
    finally:
        env.close()
    return {"name": "client-arrival-sequences", "evaluations": evals, "distinct_nontrivial": len(seen),
            "rule": f"{runs} seeded arrival sequences (5..35 events) over {{reliable, duplicate of an earlier reliable, unreliable, our reliable send, "
                    "ack appended, ack as PacketAck, clock tick past the resend interval, reliable packet whose body is cut short}} with optional raising subscriber at either level; "
                    "distinct = distinct event traces", "bounded": True, "bounds": {"runs": runs}, "samples": samples, "failures": failures}
