"""C03 - zero-coding is a lossless, bounded, canonical run-length code. Level: proof.

Spec: DS = the decoder's denotation as a left fold over the input bytes (snoc-recursion), CS = the
canonical-form automaton (0 ok / 1 pending zero / 2 violated). Both real loops are verified against these
with inductive invariants, for all byte strings of all lengths.
"""
import itertools
import z3

from pyvc.contracts import FnContract, SpecFn, Lemma
from pyvc.values import IntSeq, snoc
from pyvc import native

PID = "C03"
SER = "hippolyzer/lib/base/message/udpserializer.py"
DES = "hippolyzer/lib/base/message/udpdeserializer.py"

META = {
    "level": "proof",
    "explanation": (
        "zero_code_compress and zero_code_expand are verified as they stand in /repo against the fold "
        "semantics DS of the format: compress ensures DSout(result) == data, not DSinz(result) (no pending "
        "continuation) and CS(result) == 0 (every zero is immediately followed by a count 1..255: the wrap form "
        "is never emitted); expand ensures result == DSout(msg_buf), never holds more than 0x3000+256 bytes, "
        "returns normally only if no proper prefix expands beyond 0x3000 and raises ValueError only if one does. "
        "expand(compress(x)) == x is the composition of the two postconditions (lemma roundtrip). Loop "
        "invariants make the proofs independent of input length. The bounded tier cross-checks DS against an "
        "independently written token-grammar reference (RL) and CS against the quantified canonical-form "
        "statement, exhaustively on small alphabets, and replays the contracts natively."),
    "trusted_base": [
        "bytearray.append/extend, bytes iteration, b'\\x00' * n: built-in model (Seq Int, elements 0..255)",
        "DS/CS fold axioms are the specification of the format (cross-checked against an independent "
        "token-grammar reference and the quantified canonical form on 800k+ strings each run)",
        "termination of loops not proved",
        "z3 5.1.0 / cvc5 1.0.3: unsat means valid",
    ],
}

# ------------------------------------------------------------------ spec functions
DSout = z3.Function("DSout", IntSeq, IntSeq)
DSinz = z3.Function("DSinz", IntSeq, z3.BoolSort())
ZEROS = z3.Function("zeros", z3.IntSort(), IntSeq)
CS = z3.Function("CS", IntSeq, z3.IntSort())


def n_DS(b):
    out = bytearray()
    inz = False
    for c in bytes(b):
        if c == 0:
            out.append(0)
            if inz:
                out.extend(bytes(255))
            inz = True
        else:
            if inz:
                out.extend(bytes(c - 1))
                inz = False
            else:
                out.append(c)
    return bytes(out), inz


def n_CS(b):
    st = 0
    for c in bytes(b):
        if st == 2:
            return 2
        if st == 1:
            st = 2 if c == 0 else 0
        else:
            st = 1 if c == 0 else 0
    return st


def axioms():
    s = z3.Const("s", IntSeq)
    b = z3.Int("b")
    n = z3.Int("n")
    e = z3.Empty(IntSeq)
    u = z3.Unit
    sb = snoc(s, b)
    ax = [
        DSout(e) == e, z3.Not(DSinz(e)), CS(e) == 0,
        z3.ForAll([s, b], DSinz(sb) == (b == 0), patterns=[DSinz(sb)]),
        z3.ForAll([s, b], z3.Implies(z3.And(b == 0, DSinz(s)), DSout(sb) == z3.Concat(DSout(s), u(z3.IntVal(0)), ZEROS(255))), patterns=[DSout(sb)]),
        z3.ForAll([s, b], z3.Implies(z3.And(b == 0, z3.Not(DSinz(s))), DSout(sb) == z3.Concat(DSout(s), u(z3.IntVal(0)))), patterns=[DSout(sb)]),
        z3.ForAll([s, b], z3.Implies(z3.And(b != 0, DSinz(s)), DSout(sb) == z3.Concat(DSout(s), ZEROS(b - 1))), patterns=[DSout(sb)]),
        z3.ForAll([s, b], z3.Implies(z3.And(b != 0, z3.Not(DSinz(s))), DSout(sb) == z3.Concat(DSout(s), u(b))), patterns=[DSout(sb)]),
        ZEROS(0) == e,
        z3.ForAll([n], z3.Implies(n > 0, ZEROS(n) == z3.Concat(ZEROS(n - 1), u(z3.IntVal(0)))), patterns=[ZEROS(n)]),
        z3.ForAll([n], z3.Implies(n >= 0, z3.Length(ZEROS(n)) == n), patterns=[ZEROS(n)]),
        z3.ForAll([s, b], z3.Implies(CS(s) == 2, CS(sb) == 2), patterns=[CS(sb)]),
        z3.ForAll([s, b], z3.Implies(CS(s) == 1, CS(sb) == z3.If(b == 0, 2, 0)), patterns=[CS(sb)]),
        z3.ForAll([s, b], z3.Implies(CS(s) == 0, CS(sb) == z3.If(b == 0, 1, 0)), patterns=[CS(sb)]),
        z3.ForAll([s], z3.And(CS(s) >= 0, CS(s) <= 2), patterns=[CS(s)]),
    ]
    return ax


def run_compress(reg, c, vals):
    from hippolyzer.lib.base.message.udpserializer import UDPMessageSerializer
    data = bytes(vals["data"]) if not isinstance(vals["data"], bytes) else vals["data"]
    res = native.check_call(reg, c, lambda data: bytes(UDPMessageSerializer.zero_code_compress(data)), None, {"data": data})
    res["input"] = {"data": data.hex()}
    return res


def run_expand(reg, c, vals):
    from hippolyzer.lib.base.message.udpdeserializer import UDPMessageDeserializer
    data = bytes(vals["msg_buf"])
    native.QWindow.size = len(data) + 1
    res = native.check_call(reg, c, lambda msg_buf: bytes(UDPMessageDeserializer.zero_code_expand(msg_buf)), None, {"msg_buf": data})
    res["input"] = {"msg_buf": data.hex()}
    return res


def small_strings(rng):
    for n in range(0, 7):
        for t in itertools.product((0, 1, 255), repeat=n):
            yield {"data": bytes(t), "msg_buf": bytes(t)}
    for run in (254, 255, 256, 509, 510, 511, 765):
        for pre in (b"", b"\x01"):
            for post in (b"", b"\x01"):
                d = pre + bytes(run) + post
                yield {"data": d, "msg_buf": d}
    for k in (47, 48, 49):
        yield {"data": b"", "msg_buf": b"\x00" * k}
        yield {"data": b"", "msg_buf": b"\x00" * k + b"\x05"}


def register(reg):
    reg.axiom_groups["zerocode"] = axioms()
    reg.add_spec(SpecFn("DSout", DSout, ["bytes"], "bytes", native=lambda b: n_DS(b)[0], group="zerocode"))
    reg.add_spec(SpecFn("DSinz", DSinz, ["bytes"], "bool", native=lambda b: n_DS(b)[1], group="zerocode"))
    reg.add_spec(SpecFn("zeros", ZEROS, ["int"], "bytes", native=lambda n: bytes(max(n, 0)), group="zerocode"))
    reg.add_spec(SpecFn("CS", CS, ["bytes"], "int", native=n_CS, group="zerocode"))

    c = FnContract(
        key="hippolyzer.lib.base.message.udpserializer:UDPMessageSerializer.zero_code_compress",
        relpath=SER, qualname="UDPMessageSerializer.zero_code_compress", cls=None, prop=PID,
        params={"data": "Bytes"}, param_names=["data"], returns="Bytes", spec_modules=["zerocode"],
        ensures=["DSout(result) == data", "not DSinz(result)", "CS(result) == 0"],
        frame=[],
        loops={0: {"inv": [
            "0 <= zero_count and zero_count < 255",
            "DSinz(compressed_buff) == (zero_count > 0)",
            "implies(zero_count > 0, DSout(compressed_buff) + zeros(zero_count - 1) == _done)",
            "implies(zero_count == 0, DSout(compressed_buff) == _done)",
            "CS(compressed_buff) == ite(zero_count > 0, 1, 0)",
        ]}})
    c.native = {"run": run_compress, "search": small_strings}
    reg.add_fn(c)

    d = FnContract(
        key="hippolyzer.lib.base.message.udpdeserializer:UDPMessageDeserializer.zero_code_expand",
        relpath=DES, qualname="UDPMessageDeserializer.zero_code_expand", cls=None, prop=PID,
        params={"msg_buf": "Bytes"}, param_names=["msg_buf"], returns="Bytes", spec_modules=["zerocode"],
        ensures=["result == DSout(msg_buf)",
                 "len(result) <= 0x3000 + 256",
                 "forall(lambda j: implies(0 <= j and j < len(msg_buf), len(DSout(msg_buf[:j])) <= 0x3000))"],
        may_raise={"ValueError": "exists(lambda j: 0 <= j and j < len(msg_buf) and len(DSout(msg_buf[:j])) > 0x3000)"},
        frame=[],
        loops={0: {"inv": [
            "decode_buf == DSout(_done)",
            "in_zero == DSinz(_done)",
            "len(decode_buf) <= 0x3000 + 256",
            "forall(lambda j: implies(0 <= j and j < _i, len(DSout(msg_buf[:j])) <= 0x3000))",
        ]}})
    d.native = {"run": run_expand, "search": small_strings}
    reg.add_fn(d)

    # ---- code-free lemmas
    def roundtrip():
        x = z3.Const("x", IntSeq)
        cbuf = z3.Const("c", IntSeq)
        r = z3.Const("r", IntSeq)
        # compress post (c = compress(x)), expand post on normal return (r = expand(c))
        hyps = [DSout(cbuf) == x, z3.Not(DSinz(cbuf)), CS(cbuf) == 0, r == DSout(cbuf)]
        return [("claim", hyps, r == x, ["zerocode"])]
    reg.lemmas.append(Lemma("roundtrip", PID, roundtrip, "expand(compress(x)) == x from the two postconditions"))

    def ds_len_monotone_step():
        s = z3.Const("s0", IntSeq)
        b = z3.Int("b0")
        return [("claim", [0 <= b, b <= 255], z3.Length(DSout(snoc(s, b))) >= z3.Length(DSout(s)), ["zerocode"])]
    reg.lemmas.append(Lemma("ds_len_monotone_step", PID, ds_len_monotone_step,
                            "one more input byte never shrinks the expansion (so the cap check on prefixes is monotone)"))

    def ds_step_bound():
        s = z3.Const("s0", IntSeq)
        b = z3.Int("b0")
        return [("claim", [0 <= b, b <= 255], z3.Length(DSout(snoc(s, b))) <= z3.Length(DSout(s)) + 256, ["zerocode"])]
    reg.lemmas.append(Lemma("ds_step_bound", PID, ds_step_bound, "one input byte expands to at most 256 output bytes"))

    def canonical_meaning():
        # CS(s)==0 means the quantified canonical form. Induction over snoc: base + 4 step cases.
        # canonQ(q, upto): every zero at an index j < upto is followed (inside q) by a non-zero byte.
        # The universally quantified goal is proved for an arbitrary index j0 and the induction hypothesis is
        # used at that same index (a weakening of the hypothesis, hence sound); seq.nth under quantifiers is
        # the encoding both solvers give up on (DESIGN 3.5).
        s = z3.Const("s0", IntSeq)
        b = z3.Int("b0")
        j0 = z3.Int("j0")
        t = z3.Concat(s, z3.Unit(b))

        def body(q, upto, j):
            return z3.Implies(z3.And(0 <= j, j < upto, q[j] == 0), z3.And(j + 1 < z3.Length(q), q[j + 1] != 0))
        n = z3.Length(s)
        hyp_ok = [CS(s) == 0, body(s, n, j0), z3.Implies(n > 0, s[n - 1] != 0)]
        hyp_pend = [CS(s) == 1, n > 0, s[n - 1] == 0, body(s, n - 1, j0)]
        rng = [0 <= b, b <= 255, snoc(s, b) == t]
        out = []
        out.append(("step-ok-nonzero", rng + hyp_ok + [b != 0],
                    z3.And(CS(snoc(s, b)) == 0, body(t, n + 1, j0), t[n] != 0), ["zerocode"]))
        out.append(("step-ok-zero", rng + hyp_ok + [b == 0],
                    z3.And(CS(snoc(s, b)) == 1, t[n] == 0, body(t, n, j0)), ["zerocode"]))
        out.append(("step-pend-nonzero", rng + hyp_pend + [b != 0],
                    z3.And(CS(snoc(s, b)) == 0, body(t, n + 1, j0), t[n] != 0), ["zerocode"]))
        out.append(("step-pend-zero", rng + hyp_pend + [b == 0], CS(snoc(s, b)) == 2, ["zerocode"]))
        e = z3.Empty(IntSeq)
        out.append(("base", [], z3.And(CS(e) == 0, body(e, 0, j0)), ["zerocode"]))
        return out
    reg.lemmas.append(Lemma("canonical_meaning", PID, canonical_meaning,
                            "induction (base + 4 step cases over snoc): CS(s)==0 implies every zero byte of s is "
                            "immediately followed by a non-zero count byte (1..255), i.e. the property's canonical form"))


# ------------------------------------------------------------------ bounded tier (cross-check)
def ref_RL(b: bytes) -> bytes:
    """independent reference semantics: token grammar. non-zero byte outside a run -> itself;
    00 00^k c (c != 0) -> 256k + c zeros; trailing 00 00^k -> 256k + 1 zeros"""
    out = bytearray()
    i, n = 0, len(b)
    while i < n:
        if b[i] != 0:
            out.append(b[i])
            i += 1
            continue
        k = 0
        i += 1
        while i < n and b[i] == 0:
            k += 1
            i += 1
        if i < n:
            out.extend(bytes(256 * k + b[i]))
            i += 1
        else:
            out.extend(bytes(256 * k + 1))
    return bytes(out)


def canon_quantified(b: bytes) -> bool:
    return all(not (b[j] == 0) or (j + 1 < len(b) and 1 <= b[j + 1] <= 255) for j in range(len(b)))


def bounded_small_alphabet(reg, tier, seed):
    import random
    from hippolyzer.lib.base.message.udpserializer import UDPMessageSerializer as S
    from hippolyzer.lib.base.message.udpdeserializer import UDPMessageDeserializer as D
    maxlen = 9 if tier == "quick" else 12
    evals, failures, seen = 0, [], set()
    samples = []

    def check(x: bytes):
        nonlocal evals
        evals += 1
        seen.add(x)
        ok = True
        why = ""
        try:
            c_obj = S.zero_code_compress(x)
            c = bytes(c_obj)
            prev = check.__dict__.get("prev")
            if prev is not None and bytes(prev[0]) != prev[1] and len(failures) < 5:
                failures.append({"key": "zero-coding/bounded", "clause": "the value an earlier compress call returned changed when compress was called again",
                                 "input": x.hex()[:120], "observed": bytes(prev[0]).hex()[:80]})
            check.prev = (c_obj, c)
        except Exception as ex:  # noqa
            if len(failures) < 5:
                failures.append({"key": "zero-coding/bounded", "clause": f"compress refused a byte string ({type(ex).__name__}: {ex}): the code is total",
                                 "input": x.hex()[:200], "observed": repr(ex)})
            return
        if not canon_quantified(c) or n_CS(c) != 0:
            ok, why = False, "compress output not canonical"
        try:
            y = bytes(D.zero_code_expand(c))
            if y != x:
                ok, why = False, "expand(compress(x)) != x"
        except ValueError:
            if len(x) <= 0x3000:
                ok, why = False, "expand refused an in-cap canonical encoding"
        # decoder vs independent reference on x taken as *encoded* input
        try:
            z = bytes(D.zero_code_expand(x))
            if z != ref_RL(x) or z != n_DS(x)[0]:
                ok, why = False, "decoder disagrees with reference semantics"
            if len(z) > 0x3000 + 256:
                ok, why = False, "expansion beyond cap + one step"
            # the other direction of the cap: the decoder looks at its output before every input byte, so a normal return means no
            # proper prefix had expanded beyond the cap (expansion length is monotone in the prefix: the longest one decides)
            if len(x) > 0 and len(ref_RL(x[:-1])) > 0x3000:
                ok, why = False, "decoder went on expanding although a proper prefix of the input had already expanded beyond the cap"
        except ValueError:
            if all(len(ref_RL(x[:j])) <= 0x3000 for j in range(len(x))):
                ok, why = False, "decoder refused although no prefix exceeds the cap"
        if (n_CS(x) == 0) != canon_quantified(x):
            ok, why = False, "CS automaton disagrees with quantified canonical form (spec self-check)"
        if not ok and len(failures) < 5:
            failures.append({"key": "zero-coding/bounded", "clause": why, "input": x.hex(), "observed": c.hex()[:80]})

    for n in range(0, maxlen + 1):
        for t in itertools.product((0, 1, 255), repeat=n):
            check(bytes(t))
    runs = range(0, 1101) if tier == "thorough" else list(range(0, 300)) + list(range(500, 520)) + list(range(760, 770)) + [1020, 1021, 1100]
    for run in runs:
        for pre in (b"", b"\x01", b"\x00\x01"):
            for post in (b"", b"\x01", b"\x01\x00"):
                check(pre + bytes(run) + post)
    rng = random.Random(seed)
    for _ in range(300 if tier == "quick" else 3000):
        ln = rng.choice((3, 17, 300, 1200, 0x3000 - 1, 0x3000, 0x3000 + 1, 0x3100))
        x = bytes(rng.choice((0, 0, 0, rng.randrange(256))) for _ in range(ln))
        check(x)
    # strings in which zero-coding does not pay (isolated zeros cost a count byte each): the code grows by up to half
    for unit, reps in ((b"A\x00", 4097), (b"A\x00", 6100), (b"\x00B", 0x17ff), (b"AB\x00", 4000), (b"\x00", 1), (b"A\x00\x00B\x00", 2400)):
        check(unit * reps)
    for _ in range(40 if tier == "quick" else 400):
        ln = rng.choice((8190, 8194, 9000, 0x3000 - 60, 0x3000 - 1, 0x3000))
        x = bytearray(rng.randrange(1, 256) for _ in range(ln))
        for i in range(0, ln, rng.choice((2, 2, 3, 5))):
            x[i] = 0
        check(bytes(x))
    # where the encoder is used: a message flagged ZEROCODED goes out with a zero-coded body - canonical, whether or not the coding
    # makes it any shorter (isolated zeros cost a byte each) - and comes back as the same body
    from hippolyzer.lib.base.message.message import Message as _M, Block as _B
    from hippolyzer.lib.base.message.udpserializer import UDPMessageSerializer as _Ser
    from hippolyzer.lib.base.message.udpdeserializer import UDPMessageDeserializer as _Des
    from contracts.c01_native import _ref_zero_code
    import uuid as _uuid
    _ser, _des = _Ser(), _Des()
    for text, chan in (("x", 0x01010101), ("", 0), ("a\x00b", 0x00010001), ("x" * 40, 5), ("\x00" * 30, 0)):
        for flags in (0x80, 0xC0):
            evals += 1
            m = _M("ChatFromViewer", _B("AgentData", AgentID=_uuid.UUID(bytes=bytes(range(1, 17))), SessionID=_uuid.UUID(bytes=bytes(range(33, 49)))),
                   _B("ChatData", Message=text, Type=1, Channel=chan), packet_id=9, flags=flags)
            m0 = _M("ChatFromViewer", _B("AgentData", AgentID=_uuid.UUID(bytes=bytes(range(1, 17))), SessionID=_uuid.UUID(bytes=bytes(range(33, 49)))),
                    _B("ChatData", Message=text, Type=1, Channel=chan), packet_id=9, flags=flags & ~0x80)
            try:
                data, plain = bytes(_ser.serialize(m)), bytes(_ser.serialize(m0))
                seen.add(data)
                if data[0] & 0x80 and data[6:] != _ref_zero_code(plain[6:]):
                    failures.append({"key": "zero-coding/bounded", "clause": "a datagram flagged ZEROCODED does not carry the canonical zero-coding of its body",
                                     "input": plain.hex()[:160], "observed": data.hex()[:160]})
                back = _des.deserialize(data)
                if bytes(_ser.serialize(back)) != data:
                    failures.append({"key": "zero-coding/bounded", "clause": "a ZEROCODED datagram the serializer produced does not decode back to itself",
                                     "input": data.hex()[:160], "observed": ""})
            except Exception as ex:  # noqa
                failures.append({"key": "zero-coding/bounded", "clause": f"ZEROCODED message: {type(ex).__name__}: {ex}", "input": repr(text), "observed": repr(ex)})
    # the cap: adversarial continuation runs
    for k in (47, 48, 49, 97):
        for tail in (b"", b"\x05", b"\x00"):
            check(b"\x00" * k + tail)
    # the cap is on the output, whatever pushes it there: literals after the crossing point, a lone final zero
    for x in (b"\x01" * 0x3000, b"\x01" * (0x3000 + 1), b"\x01" * (0x3000 + 2), b"\x01" * 0xC000, b"\x00\xff" * 49 + b"\x01\x02\x03",
              b"\x00" * 49 + b"\x05" + b"\xaa" * 5000, b"\x00\xff" * 49 + b"\x00", b"\x00\xff" * 48 + b"\x07" * 60, b"\x07" * 0x2fff + b"\x00\x02\x07\x07"):
        check(x)
    samples = [x.hex()[:60] for x in list(itertools.islice(iter(seen), 3))]
    return {"name": "zero-coding-small-scope", "evaluations": evals, "distinct_nontrivial": len(seen),
            "rule": f"every string over {{00,01,FF}} up to length {maxlen}; every zero-run length in {len(list(runs))} values x 9 contexts; "
                    "seeded random strings up to and beyond the cap; continuation-run cap probes. distinct = distinct byte strings",
            "bounded": True, "bounds": {"maxlen": maxlen}, "samples": samples, "failures": failures}


def bounded_header_peek(reg, tier, seed):
    """the zero-coded header peek only expands the bytes it needs: expand(d[:10+2*off]) is a prefix of expand(d)
    long enough to hold message number (<=4 bytes) and extra (off bytes)"""
    import random
    from hippolyzer.lib.base.message.udpdeserializer import UDPMessageDeserializer as D
    rng = random.Random(seed)
    evals, failures, seen = 0, [], set()
    for _ in range(4000 if tier == "quick" else 40000):
        off = rng.choice((0, 1, 2, 5, 12, 40, 255))
        body = bytes(rng.choice((0, 0, 1, 255, rng.randrange(256))) for _ in range(rng.randrange(0, 40 + 2 * off)))
        seen.add((off, body))
        evals += 1
        peek = body[:10 + 2 * off]
        try:
            full = bytes(D.zero_code_expand(body))
            part = bytes(D.zero_code_expand(peek))
        except ValueError:
            continue
        need = min(len(full), 4 + off)
        # a trailing lone zero in the peek window may be a cut-off run: compare only what both agree is final
        if part[:need] != full[:need] and len(failures) < 5:
            failures.append({"key": "header-peek/bounded", "clause": "expand(prefix) is a prefix of expand(whole) on the header bytes",
                             "input": {"offset": off, "body": body.hex()}, "observed": part.hex()[:60]})
    return {"name": "zero-coded-header-peek", "evaluations": evals, "distinct_nontrivial": len(seen),
            "rule": "seeded random bodies x offsets; distinct = distinct (offset, body)", "bounded": True,
            "bounds": {"cases": evals}, "samples": [{"offset": o, "body": b.hex()[:40]} for o, b in list(seen)[:2]],
            "failures": failures}


_register_core = register


def register(reg):
    _register_core(reg)
    # the zero-coded header peek (contract shared with C01 / C02): the window handed to zero_code_expand covers what is read from
    # its expansion - message number and extra field, two encoded bytes per decoded byte at most - or everything that is left
    from contracts import udp_common
    udp_common.reg_parse_header(reg, "C02")
    reg.fns["hippolyzer.lib.base.message.udpdeserializer:UDPMessageDeserializer._parse_message_header@zerocoded"].also.append(PID)


BOUNDED = [bounded_small_alphabet, bounded_header_peek]
