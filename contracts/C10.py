"""C10 - quantised floats / fixed-point fields are bit-exact inverses on the wire domain. Level: proof.

For every distinct live instance (found by walking the loaded template / animation / mesh modules) the real
encode/decode bodies are executed symbolically over the *whole* wire type (raw is a bit-vector of the wire width) in
QF_FPBV: round trip, monotonicity (adjacent form), end points, signed-zero midpoints.
"""
import gc
import math
import struct

from pyvc.contracts import FnContract

PID = "C10"

META = {
    "level": "proof",
    "explanation": (
        "Every QuantizedFloat / PackedTERotation / FixedPoint instance reachable from the loaded templates, animation and mesh "
        "codecs is enumerated from the live objects (complete: all instances alive after importing those modules). For each, the "
        "real decode and encode bodies in /repo (inlined from source through a two-line driver) are proved, for every raw value of "
        "the wire type at once (raw is a symbolic bit-vector): encode(decode(raw)) == raw; decode(raw) <= decode(raw+1) (adjacent "
        "form of monotonicity; transitivity of <= on non-NaN doubles gives the whole order); decode(min) == lower, decode(max) == "
        "upper, encode(lower) == min, encode(upper) == max exactly; for ranges centred on zero the two middle codes decode to -0.0 and "
        "+0.0 and each re-encodes to itself. Floating point is IEEE-754 binary64 round-to-nearest-even in the solver, as in CPython. "
        "QuantizedTime (range depends on the animation's duration) and the numpy-vectorised variant are outside the subset and are "
        "checked in the bounded tier, which also enumerates every instance natively as a cross-check of the encoder."),
    "trusted_base": [
        "CPython float == IEEE-754 binary64, RNE; int(round(x)) == round-half-even then exact conversion; math.fabs/copysign",
        "math.fmod modelled only on |x| <= |y| (a discharged obligation at the call site)",
        "Python ints as 64-bit two's complement: every integer in these bodies is bounded by 2^17 in magnitude",
        "instance constants (lower, upper, prim_min, step_mag, zero_median) read from the live objects",
        "z3 5.1.0 QF_FPBV bit-blasting: unsat means valid",
        "QuantizedTime, QuantizedNumPyArray: bounded tier only",
    ],
}


def live_instances():
    import hippolyzer.lib.base.templates  # noqa
    import hippolyzer.lib.base.llanim  # noqa
    import hippolyzer.lib.base.mesh  # noqa
    import hippolyzer.lib.base.serialization as se
    seen = {}
    for o in gc.get_objects():
        try:
            if isinstance(o, se.QuantizedFloat):
                k = (type(o).__name__, o._child_spec._struct_fmt, o.lower, o.upper, bool(o.zero_median))
                seen.setdefault(k, o)
            elif isinstance(o, se.FixedPoint):
                k = ("FixedPoint", o._ser_spec._struct_fmt, o._frac_bits, o._max_val, bool(o._signed))
                seen.setdefault(k, o)
        except ReferenceError:
            pass
    return seen


def prim_of(o):
    import hippolyzer.lib.base.serialization as se
    return o._child_spec if isinstance(o, se.QuantizedFloatBase) else o._ser_spec


def register(reg):
    import hippolyzer.lib.base.serialization as se
    for k, o in sorted(live_instances().items(), key=str):
        prim = prim_of(o)
        bits = prim.calc_size() * 8
        sg = "s" if prim.is_signed else "u"
        name = "_".join(str(x) for x in k).replace(" ", "")
        lo, hi = prim.min_val, prim.max_val
        common = dict(relpath="hippolyzer/lib/base/serialization.py", cls=None, prop=PID, engine="fp", frame=None,
                      param_values={"self": o}, consts={"se": se, "math": math})
        # obligations measured above ~2 minutes on 16 busy cores run in the thorough tier only (all were discharged there)
        slow_rt = name.startswith(("PackedTERotation", "QuantizedFloat_H_-5.0_5.0", "QuantizedFloat_h_-1.0000", "QuantizedFloat_H_-256.0_4096.0"))
        slow_mono = name.startswith("PackedTERotation")
        if isinstance(o, se.QuantizedFloatBase):
            is_rot = type(o).__name__ == "PackedTERotation"
            # known finding (known_findings.txt): PackedTERotation raw -32768 decodes to -2*pi, which the encoder deliberately wraps
            # to 0 (asserted by the repository's own test_textureentry_rotation_packing). That single input is reported by the
            # bounded tier as KNOWN-FINDING; every other raw value is proved here.
            reg.add_fn(FnContract(key=f"C10:{name}/roundtrip", qualname="roundtrip", params={"raw": f"Raw:{bits}:{sg}"}, param_names=["raw"],
                                  source="def roundtrip(self, raw):\n    return self.encode(self.decode(raw, None), None)\n",
                                  requires=([f"raw != {lo}"] if is_rot else []), tier=("thorough" if slow_rt else "quick"),
                                  ensures=["result == raw"], **common))
            reg.add_fn(FnContract(key=f"C10:{name}/monotone", qualname="monotone", params={"raw": f"Raw:{bits}:{sg}"}, param_names=["raw"],
                                  source="def monotone(self, raw):\n    return self.decode(raw, None) <= self.decode(raw + 1, None)\n",
                                  requires=[f"raw < {hi}"], ensures=["result"], tier=("thorough" if slow_mono else "quick"), **common))
            is_rot = type(o).__name__ == "PackedTERotation"
            ends = [f"self.decode({lo}, None) == {o.lower!r}"] + ([] if is_rot else [f"self.encode({o.lower!r}, None) == {lo}"])
            if not is_rot:
                ends += [f"self.decode({hi}, None) == {o.upper!r}", f"self.encode({o.upper!r}, None) == {hi}"]
            else:
                ends += ["self.decode(0, None) == 0.0", "self.encode(0.0, None) == 0"]
            src = "def endpoints(self):\n    return (" + ", ".join(ends) + ")\n"
            reg.add_fn(FnContract(key=f"C10:{name}/endpoints", qualname="endpoints", params={}, param_names=[], source=src,
                                  ensures=[f"result[{i}]" for i in range(len(ends))], **common))
            if o.zero_median:
                mid_lo = (lo + hi) // 2
                src = (f"def midpoints(self):\n    a = self.decode({mid_lo}, None)\n    b = self.decode({mid_lo + 1}, None)\n"
                       f"    return (a == 0.0, b == 0.0, math.copysign(1.0, a) == -1.0, math.copysign(1.0, b) == 1.0, "
                       f"self.encode(a, None) == {mid_lo}, self.encode(b, None) == {mid_lo + 1})\n")
                reg.add_fn(FnContract(key=f"C10:{name}/midpoints", qualname="midpoints", params={}, param_names=[], source=src,
                                      ensures=[f"result[{i}]" for i in range(6)], **common))
        else:
            ext = {"self._ser_spec.deserialize": {"returns": "Int", "post": "result == raw", "doc": "wire primitive read (C08)"},
                   "self._ser_spec.serialize": {"record_as": "out", "doc": "wire primitive write (C08)"}}
            reg.add_fn(FnContract(key=f"C10:{name}/roundtrip", qualname="roundtrip", params={"raw": f"Raw:{bits}:{sg}"}, param_names=["raw"],
                                  source="def roundtrip(self, raw):\n    return self.serialize(self.deserialize(None, None), None, None)\n",
                                  externals=ext, ensures=["ncalls('out') == 1", "called_with('out', lambda arg0: arg0 == raw)"], **common))
            ext2 = {"self._ser_spec.deserialize": {"returns": "Int", "post": "result == raw or result == raw + 1", "record_as": "rd", "doc": "wire primitive read"}}
            # monotonicity and end points of the fixed-point decode, on the decode body with the read abstracted
            src = ("def decode_at(self, raw):\n    return self.deserialize(None, None)\n")
            top = float(o._max_val) - (float(o._max_val) if o._signed else 0.0)
            reg.add_fn(FnContract(key=f"C10:{name}/decode", qualname="decode_at", params={"raw": f"Raw:{bits}:{sg}"}, param_names=["raw"],
                                  source=src, externals={"self._ser_spec.deserialize": {"returns": "Int", "post": "result == raw", "doc": "wire primitive read"}},
                                  ensures=[f"implies(raw == 0, result == {float(o._min_val)!r})",
                                           f"result == (float(raw) / {float(1 << o._frac_bits)!r}) - {float(o._max_val) if o._signed else 0.0!r}"],
                                  **common))


from contracts import c10_native
BOUNDED = [c10_native.bounded_enumeration]
