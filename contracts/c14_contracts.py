"""Tier-P contracts for C14 (small helpers of RegionObjectsState; the scene-graph invariant itself is bounded-tier only)."""
import z3

from pyvc.contracts import ClassDecl, FnContract, SpecFn
from pyvc.values import opaque_sort

OREL = "hippolyzer/lib/client/object_manager.py"


def register_p(reg, prop):
    reg.add_class(ClassDecl("RegionObjectsState", fields={"_object_futures": "Opaque:Dict", "_orphans": "Opaque:OrphanState", "localid_lookup": "Opaque:Dict", "missing_locals": "Opaque:IdSet"}))
    reg.add_fn(FnContract(
        key="hippolyzer.lib.client.object_manager:RegionObjectsState.cancel_futures", relpath=OREL,
        qualname="RegionObjectsState.cancel_futures", cls="RegionObjectsState", prop=prop, record_as="cancel_futures",
        params={"local_id": "Int"}, param_names=["local_id"],
        externals={"self._object_futures.items": {"returns": "Opaque:Items", "doc": "dict items view"},
                   "*.cancel": {"record_as": "cancel", "uses_recv": True, "doc": "Future.cancel"}},
        loops={0: {"inv": ["True"], "elem_sort": "Tuple[Tuple[Int,Opaque:Any],Opaque:FutList]",   # dict items: ((local id, type), futures)
                   # an entry filed under another local ID is left alone (its futures are not even visited); for an entry of this
                   # local ID the inner loop runs to the end of its list, cancelling one future per step
                   "iter_post": ["iff(fut_key[0] == local_id, defined('_n'))",
                                 "implies(defined('_n'), _n == len(futs) and L1_left_early == 0)"]},
               # every future of an entry whose key carries this local ID is cancelled, each exactly once
               1: {"ghost_init": {"_n": "0"}, "ghost_step": {"_n": "_n + ncalls('cancel')"},
                   "inv": ["_n == _i"], "iter_post": ["ncalls('cancel') == 1", "called_with('cancel', lambda recv: recv == fut)"]}},
        # every entry of the table is examined: several keys (one per request type) can carry the same local ID, so leaving the
        # scan at the first match would strand the others pending forever
        ensures=["L0_left_early == 0"], frame=[]))

    # a future that is already done (cancelled earlier while the same message was being handled: its done-callback, which
    # removes it from the list, only runs on the next loop turn) must not be resolved - set_result() on it raises
    # InvalidStateError out of the update handler. fut_done is the state of a future as Future.done() reports it.
    FD = z3.Function("fut_done", opaque_sort("Any"), z3.BoolSort())
    reg.add_spec(SpecFn("fut_done", FD, ["opaque"], "bool"))
    reg.add_class(ClassDecl("TrackedObject", fields={"LocalID": "Int", "ParentID": "Int", "ChildIDs": "IntList", "Parent": "Opt[Opaque:Any]", "PCode": "Opaque:PCode",
                                                     "Children": "Opaque:ObjList"}))
    reg.exc_parents.setdefault("InvalidStateError", "Exception")
    reg.add_fn(FnContract(
        key="hippolyzer.lib.client.object_manager:RegionObjectsState.resolve_futures", relpath=OREL,
        qualname="RegionObjectsState.resolve_futures", cls="RegionObjectsState", prop=prop,
        params={"obj": "Obj:TrackedObject", "update_type": "Opaque:Any"}, param_names=["obj", "update_type"],
        externals={"self._object_futures.get": {"returns": "Opaque:FutList", "doc": "futures registered for (local id, update type), or an empty list"},
                   "*.done": {"returns": "Bool", "uses_recv": True, "post": "result == fut_done(recv)", "doc": "Future.done()"},
                   "*.set_result": {"uses_recv": True, "record_as": "set_result", "may_raise": "InvalidStateError",
                                    "raise_only_if": "fut_done(recv)", "doc": "Future.set_result raises InvalidStateError exactly on a done future"}},
        loops={0: {"inv": ["True"],
                   # per future of the snapshot: resolved with this object iff it was still pending
                   "iter_post": ["iff(ncalls('set_result') == 1, not fut_done(fut))", "ncalls('set_result') <= 1",
                                 "implies(ncalls('set_result') == 1, called_with('set_result', lambda recv, arg0: recv == fut and arg0 == obj))"]}},
        # no exception is admitted: InvalidStateError escaping here aborts the handling of the rest of the message
        ensures=["L0_left_early == 0"], frame=[]))


    # a request future is filed under (local id, update type) - the key resolve_futures / cancel_futures look under - and removes
    # itself from that list when it is done
    reg.add_fn(FnContract(
        key="hippolyzer.lib.client.object_manager:RegionObjectsState.register_future", relpath=OREL,
        qualname="RegionObjectsState.register_future", cls="RegionObjectsState", prop=prop,
        params={"local_id": "Int", "future_type": "Opaque:Any"}, param_names=["local_id", "future_type"], returns="Opaque:Any",
        externals={"asyncio.Future": {"returns": "Opaque:Any", "record_as": "new_future", "record_result": True, "doc": "fresh future"},
                   "self._object_futures.get": {"returns": "Opaque:FutList", "record_as": "get", "record_result": True,
                                                "doc": "list already filed under the key, or a new empty list"},
                   "local_futs.append": {"record_as": "append", "doc": "list append"},
                   "fut.add_done_callback": {"record_as": "on_done", "doc": "done callback"}},
        ensures=["ncalls('new_future') == 1 and called_with('new_future', lambda result: result == RESULT)",
                 "ncalls('get') == 1 and called_with('get', lambda arg0: arg0[0] == local_id and arg0[1] == future_type)",
                 "ncalls('append') == 1 and called_with('append', lambda arg0: arg0 == RESULT)",
                 # the (possibly new) list is (re)filed under the same key
                 "ncalls('store:self._object_futures') == 1",
                 "implies(ncalls('store:self._object_futures') == 1, called_with('get', lambda arg0, result: "
                 "stored_key('store:self._object_futures') == arg0 and stored_value('store:self._object_futures') == result))",
                 "ncalls('on_done') == 1"],
        frame=["_object_futures"]))
