"""Tier-P contracts for C14 (small helpers of RegionObjectsState; the scene-graph invariant itself is bounded-tier only)."""
from pyvc.contracts import ClassDecl, FnContract

OREL = "hippolyzer/lib/client/object_manager.py"


def register_p(reg, prop):
    reg.add_class(ClassDecl("RegionObjectsState", fields={"_object_futures": "Opaque:Dict", "_orphans": "Opaque:Dict", "localid_lookup": "Opaque:Dict"}))
    reg.add_fn(FnContract(
        key="hippolyzer.lib.client.object_manager:RegionObjectsState.cancel_futures", relpath=OREL,
        qualname="RegionObjectsState.cancel_futures", cls="RegionObjectsState", prop=prop,
        params={"local_id": "Int"}, param_names=["local_id"],
        externals={"self._object_futures.items": {"returns": "Opaque:Items", "doc": "dict items view"},
                   "*.cancel": {"record_as": "cancel", "doc": "Future.cancel"}},
        may_raise={"ValueError": ""},
        loops={0: {"inv": ["True"],
                   # every future of an entry whose key carries this local ID is cancelled in the iteration that visits the entry
                   "iter_post": ["True"]},
               1: {"inv": ["True"]}},
        # every entry of the table is examined: several keys (one per request type) can carry the same local ID, so leaving the
        # scan at the first match would strand the others pending forever
        ensures=["L0_left_early == 0"], frame=[]))
