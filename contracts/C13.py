"""C13 - hand-optimised compressed-object decoder agrees with the declarative template"""
from contracts import c13_native
PID = "C13"
META = {"level": "other", "explanation": "<filled in later by the framework owner>", "trusted_base": []}


def register(reg):
    pass


BOUNDED = [c13_native.bounded_fast_vs_template]
