"""C13 - hand-optimised compressed-object decoder agrees with the declarative template"""
from contracts import c13_native, c13_contracts
PID = "C13"
META = {"level": "other", "explanation": "<filled in later by the framework owner>", "trusted_base": []}


def register(reg):
    c13_contracts.register_p(reg, PID)


BOUNDED = [c13_native.bounded_fast_vs_template]
