"""C13 - hand-optimised compressed-object decoder agrees with the declarative template"""
from contracts import c13_native, c13_contracts
PID = "C13"
META = {
    "level": "other",
    "explanation": (
        "P (proved on the real body of FastObjectUpdateCompressedDataDeserializer.read, reads recorded in a ghost call log): each "
        "optional section is read iff the flag the live template puts on it is set; sections using the same kind of read come in the "
        "template's order; the header is read first and the prim parameters last among fixed reads; the unconditional sub-templates are "
        "the template's own objects; plus static layout facts computed from the live objects (every struct constant of the fast reader has "
        "exactly the wire types of the template fields it stands for). Quick tier: one section flag free at a time and each pair of "
        "adjacent sections, kinds other than avatar/primitive, plus one instance with all kinds; thorough tier: every pair and all 2^11 "
        "combinations in one instance. B (bounded, NOT proved): equality of decoded field values and byte-exact re-encoding on generated "
        "payloads (flag combinations x kinds x contents x byte mutations). Empty NameValue section recorded as a known finding."),
    "trusted_base": [
        "SimpleStructReader / BufferReader reads are externals (what a read returns is arbitrary); contents equality is bounded tier only",
        "correspondence template field -> struct constant is written by hand in c13_contracts.sections; flags, order and wire types come from the live template",
        "quick tier covers flag sets with at most two adjacent free bits; the all-free instance runs in the thorough tier",
    ],
}


def register(reg):
    c13_contracts.register_p(reg, PID)


BOUNDED = [c13_native.bounded_fast_vs_template]
