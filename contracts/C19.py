"""C19 - client endpoint: always ack, dispatch once, reliable sends complete on ack only."""
from pyvc.contracts import ClassDecl, FnContract
from contracts.common import reg_message, reg_circuits, CIRC_REL
from contracts import C05 as c05

PID = "C19"
HREL = "hippolyzer/lib/client/hippo_client.py"

META = {
    "level": "other",
    "explanation": (
        "P (proved for every path of the real HippoClientProtocol.datagram_received, with the deserializer, ban list and message "
        "handlers abstracted by effect summaries; stated over the ghost call log only, no local of the body is named): a reliable packet is acknowledged exactly once per arrival, with exactly its "
        "packet id, whether or not it was seen before; the session-level and the region-level subscribers are each invoked iff the "
        "packet is unreliable or Circuit.track_reliable reports it new, and at most once; a subscriber failure at session level does "
        "not skip the region level. Circuit.track_reliable (new iff not in the window; window gains it), Circuit.prepare_message "
        "(IDs strictly increasing) are proved on their bodies (contracts shared with C05). Circuit.collect_acks: every ack carried by an incoming message is looked up and removed exactly once under the opposite direction, and the waiting future is resolved iff there was an entry; without an explicit PacketAck body exactly the piggybacked acks are processed. B (bounded): arrival sequences with "
        "duplication/reordering of packets and acks in both forms, virtual clock for the resend budget, subscribers at both levels."),
    "trusted_base": [
        "deserialize returns a fresh message with a packet id; message handlers may raise; region lookup returns a region with a circuit",
        "Circuit.send_acks: assumed to emit one PacketAck with the given ids (bounded tier checks the wire)",
        "Circuit.resend_unacked: per-entry obligations proved (contract shared with C05) with the clock comparison as an external; "
        "when a send is due in wall-clock terms (interval, gaps of any length) is bounded tier only",
        "dedupe window of 1000 ids: a retransmission arriving after 1000 newer reliable packets is delivered again (stated limit of the code)",
    ],
}


ACCEPTED = "ncalls('validate') == 1 and called_with('validate', lambda result: result)"


def register(reg):
    c05.register(reg)
    from contracts import events_contracts
    if "hippolyzer.lib.base.events:Event.notify" not in reg.fns:
        events_contracts.register_p(reg, "C19", also=["C07"])
    tr = reg.fns["hippolyzer.lib.base.message.circuit:Circuit.track_reliable"]
    tr.also.append(PID)
    tr.record_as = "track_reliable"
    reg.fns["hippolyzer.lib.base.message.circuit:Circuit.prepare_message"].also.append(PID)
    reg.add_class(ClassDecl("HippoClientProtocol", fields={"session": "Obj:ClientSession", "message_xml": "Opaque:Any", "deserializer": "Opaque:Any"}))
    reg.add_class(ClassDecl("ClientSession", fields={"message_handler": "Opaque:Any"}))
    reg.add_class(ClassDecl("ClientRegion", fields={"circuit": "Obj:Circuit", "message_handler": "Opaque:Any"}))
    handler = {"may_raise": "AnyException", "doc": "message handler: subscribers may raise"}
    reg.add_fn(FnContract(
        key="hippolyzer.lib.client.hippo_client:HippoClientProtocol.datagram_received", relpath=HREL,
        qualname="HippoClientProtocol.datagram_received", cls="HippoClientProtocol", prop=PID,
        params={"data": "Bytes", "source_addr": "Opaque:Addr"}, param_names=["data", "source_addr"],
        externals={
            "self.session.region_by_circuit_addr": {"returns": "Opt[Obj:ClientRegion]", "fresh": False, "doc": "region lookup"},
            "self.deserializer.deserialize": {"returns": "Obj:Message", "may_raise": "AnyException", "record_as": "deser", "record_result": True,
                                              "post": ["not is_none(result.packet_id)"], "doc": "fresh message from the wire"},
            "self.message_xml.validate_udp_msg": {"returns": "Bool", "record_as": "validate", "record_result": True, "doc": "UDP ban list"},
            "region.circuit.collect_acks": {"record_as": "collect", "doc": "completes futures of acked sends"},
            "self.session.message_handler.handle": dict(handler, record_as="session_handler"),
            "region.message_handler.handle": dict(handler, record_as="region_handler"),
        },
        may_raise={"PermissionError": "", "AnyException": ""},
        # stated over the call log only (no local of the body is named): ACCEPTED = the datagram came from a known region,
        # decoded, and its message may arrive over UDP; msg_ is the decoded message
        ensures=[
            # always ack a reliable packet, exactly once per arrival, with exactly its id
            "implies(" + ACCEPTED + ", called_with('deser', lambda result_: implies((result_.send_flags & 64) != 0, ncalls('send_acks') == 1 and "
            "called_with('send_acks', lambda to_ack, direction, packet_id: len(to_ack) == 1 and to_ack[0] == val(result_.packet_id)))))",
            # an unreliable packet is never acknowledged and always delivered, to both levels, once
            "implies(" + ACCEPTED + ", called_with('deser', lambda result_: implies((result_.send_flags & 64) == 0, ncalls('send_acks') == 0 and "
            "ncalls('track_reliable') == 0 and ncalls('session_handler') == 1 and ncalls('region_handler') == 1)))",
            # a reliable packet is delivered to each level iff the dedupe window reports it new - asked once, about its own id
            "implies(" + ACCEPTED + ", called_with('deser', lambda result_: implies((result_.send_flags & 64) != 0, ncalls('track_reliable') == 1 and "
            "called_with('track_reliable', lambda packet_id, result: packet_id == val(result_.packet_id) and "
            "iff(result, ncalls('session_handler') == 1) and iff(result, ncalls('region_handler') == 1)))))",
            "ncalls('session_handler') <= 1 and ncalls('region_handler') <= 1",
            # acks carried by the packet are collected on every arrival, duplicate or not
            "implies(" + ACCEPTED + ", ncalls('collect') == 1 and called_with('deser', lambda result_: called_with('collect', lambda arg0: arg0 == result_)))",
            # nothing is acknowledged, collected or delivered for a datagram that was not accepted
            "implies(not (" + ACCEPTED + "), ncalls('send_acks') == 0 and ncalls('collect') == 0 and ncalls('session_handler') == 0 and ncalls('region_handler') == 0)",
        ],
        ensures_on_raise=[
            # the only exception allowed past the dedupe point is the region-level handler's own failure, after both levels were invoked once
            "implies(" + ACCEPTED + ", ncalls('session_handler') == 1 and ncalls('region_handler') == 1 and ncalls('collect') == 1 and "
            "called_with('deser', lambda result_: implies((result_.send_flags & 64) != 0, ncalls('send_acks') == 1)))",
            "implies(not (" + ACCEPTED + "), ncalls('send_acks') == 0 and ncalls('collect') == 0 and ncalls('session_handler') == 0 and ncalls('region_handler') == 0)",
        ],
        frame=["*.direction", "*.sender", "*.seen_reliable"]))
    from contracts import c19b_contracts
    c19b_contracts.register_p2(reg, PID)


from contracts import c19_native
BOUNDED = [c19_native.bounded_arrivals]
