"""Bounded tiers of C15 (flows handed back exactly once), C16 (capability attribution), C17 (event queue):
real MITMProxyEventManager + ProxiedRegion + SessionManager with mitmproxy test flows."""
import asyncio
import gc
import itertools
import queue
import random

from contracts.proxy_harness import Harness


class _SyncQueue(queue.Queue):
    """Stand-in for the two multiprocessing.Queue objects of HTTPFlowContext inside this single-process harness: same
    put/get interface and the same pickling of every item, but an item is visible as soon as put() returns. (A
    multiprocessing.Queue hands items to a feeder thread; under CPU load the 50 ms drain below missed items that were
    still in flight and reported flows as never handed back - a harness race, not a property of the code.)"""
    def put(self, item, block=True, timeout=None):
        import pickle
        super().put(pickle.loads(pickle.dumps(item)), block, timeout)


class HttpHarness(Harness):
    def __init__(self, addons=(), n_regions=2, login_extras=None):
        super().__init__(addons=addons, n_regions=n_regions, login_extras=login_extras)
        from hippolyzer.lib.proxy.http_event_manager import MITMProxyEventManager
        self.flow_context = self.session_manager.flow_context
        self.flow_context.from_proxy_queue = _SyncQueue()
        self.flow_context.to_proxy_queue = _SyncQueue()
        self.mgr = MITMProxyEventManager(self.session_manager, self.flow_context)
        self.open_circuits()

    def drain(self, q):
        out = []
        while True:
            try:
                out.append(q.get(False))
            except queue.Empty:
                return out

    def event(self, kind, fake_flow):
        """push one mitmproxy event through the real pump; returns (exception, items handed back)"""
        self.flow_context.from_proxy_queue.put((kind, fake_flow.get_state()), True)
        exc = None

        async def run():
            await asyncio.sleep(0.01)
            await self.mgr.pump_proxy_event()
        try:
            self.loop.run_until_complete(run())
        except Exception as e:  # noqa
            exc = e
        return exc, self.drain(self.flow_context.to_proxy_queue)

    def mkflow(self, url, content=b"", resp_content=None, status=200, cap=None, method="POST"):
        from mitmproxy.test import tflow, tutils
        from hippolyzer.lib.proxy.caps import SerializedCapData
        import urllib.parse
        u = urllib.parse.urlsplit(url)
        req = tutils.treq(host=u.hostname, port=u.port or (443 if u.scheme == "https" else 80), scheme=u.scheme.encode(),
                          path=(u.path or "/") + (("?" + u.query) if u.query else ""), content=content, method=method.encode(),
                          authority=u.netloc.encode())
        resp = tutils.tresp(content=resp_content, status_code=status) if resp_content is not None else None
        f = tflow.tflow(req=req, resp=resp if resp is not None else False)
        f.metadata["cap_data_ser"] = cap if cap is not None else SerializedCapData()
        return f


# ---------------------------------------------------------------------------------------------------------- C15
def bounded_flows(reg, tier, seed):
    from mitmproxy.http import HTTPFlow
    from hippolyzer.lib.proxy.addon_utils import BaseAddon
    from hippolyzer.lib.proxy.http_flow import HippoHTTPFlow
    from hippolyzer.lib.proxy.caps import CapData, CapType, SerializedCapData
    import mitmproxy.http
    import weakref
    rng = random.Random(seed)
    evals, failures, seen, samples = 0, [], set(), []

    def fail(key, what, inp):
        if sum(1 for f in failures if f["key"] == key) < 2:
            failures.append({"key": key, "clause": what, "input": inp, "observed": what})
    behaviours = ["ignore", "take", "take_resume_later", "inject_response", "rewrite_url", "raise", "take_raise"]
    raise_points = [None, "resolve_cap", "logger", "session_handler", "region_handler"]

    class A(BaseAddon):
        def __init__(self):
            self.b = "ignore"
            self.taken = []

        def _act(self, flow):
            if self.b == "take":
                self.taken.append(flow.take())
            elif self.b == "take_resume_later":
                self.taken.append(flow.take())
            elif self.b == "inject_response":
                flow.response = mitmproxy.http.Response.make(418, b"teapot", {})
            elif self.b == "rewrite_url":
                flow.request.url = "http://rewritten.example/x"
            elif self.b == "custom" and getattr(self, "custom", None):
                self.custom(flow)
            elif self.b == "raise":
                raise RuntimeError("addon failure")
            elif self.b == "take_raise":
                self.taken.append(flow.take())
                raise RuntimeError("addon failure after take")

        def handle_http_request(self, session_manager, flow):
            self.last = flow
            self._act(flow)

        def handle_http_response(self, session_manager, flow):
            self._act(flow)
    a = A()
    h = HttpHarness(addons=[a])
    try:
        region = h.session.regions[0]
        region.update_caps({"Foo": "https://sim.example/cap/foo", "EventQueueGet": "https://sim.example/cap/eq"})
        cases = list(itertools.product(("request", "response"), behaviours, raise_points, ("cap", "nocap")))
        if tier == "quick":
            rng.shuffle(cases)
            cases = cases[:70]
        for kind, b, rp, capkind in cases:
            a.b = b
            a.taken = []
            url = "https://sim.example/cap/foo/bar?x=1" if capkind == "cap" else "https://other.example/zzz"
            cap = SerializedCapData("Foo", str(region.circuit_addr), str(h.session.id), "https://sim.example/cap/foo", "NORMAL") if (capkind == "cap" and kind == "response") else None
            f = h.mkflow(url, content=b"<llsd><map/></llsd>", resp_content=(b"<llsd><map/></llsd>" if kind == "response" else None), cap=cap)
            saved = {}
            try:
                if rp == "resolve_cap":
                    saved["resolve_cap"] = h.session_manager.resolve_cap
                    h.session_manager.resolve_cap = lambda url_: (_ for _ in ()).throw(RuntimeError("resolve_cap failure"))
                elif rp == "logger":
                    class L:
                        def log_http_response(self, flow):
                            raise RuntimeError("logger failure")

                        def log_lludp_message(self, *a_):
                            pass

                        def log_eq_event(self, *a_):
                            pass
                    saved["logger"] = h.session_manager.message_logger
                    h.session_manager.message_logger = L()
                elif rp == "session_handler":
                    h.session.http_message_handler.subscribe("Foo", lambda fl: (_ for _ in ()).throw(RuntimeError("subscriber failure")))
                elif rp == "region_handler":
                    region.http_message_handler.subscribe("Foo", lambda fl: (_ for _ in ()).throw(RuntimeError("subscriber failure")))
                exc, back = h.event(kind, f)
            finally:
                if "resolve_cap" in saved:
                    h.session_manager.resolve_cap = saved["resolve_cap"]
                if "logger" in saved:
                    h.session_manager.message_logger = saved["logger"]
                h.session.http_message_handler.handlers.clear()
                region.http_message_handler.handlers.clear()
            evals += 1
            key = (kind, b, rp, capkind)
            seen.add(key)
            inp = {"event": kind, "addon": b, "raise_point": rp, "url": url}
            if len(samples) < 3:
                samples.append(inp)
            hook_ran = not (rp == "resolve_cap" and kind == "request")
            took = bool(a.taken)
            if took:
                if back:
                    fail("flows/handback", f"taken flow handed back {len(back)} times before its owner released it", inp)
                a.taken[0].resume()
                back2 = h.drain(h.flow_context.to_proxy_queue)
                if len(back2) != 1:
                    fail("flows/handback", f"taken flow handed back {len(back2)} times on release, expected exactly 1", inp)
                try:
                    a.taken[0].resume()
                    fail("flows/handback", "a released flow could be released again", inp)
                except AssertionError:
                    pass
                back = back2
            elif len(back) != 1:
                fail("flows/handback", f"{kind} event handed back {len(back)} times, expected exactly 1 (exception {exc!r})", inp)
            # what came back carries the addon's edits and the routing metadata
            if back:
                st = back[0][2]
                mf = HTTPFlow.from_state(st)
                if b == "inject_response" and hook_ran and (mf.response is None or mf.response.status_code != 418):
                    fail("flows/state", "injected response lost in the state transfer", inp)
                if b == "rewrite_url" and hook_ran and mf.request.url != "http://rewritten.example/x":
                    fail("flows/state", "rewritten request URL lost in the state transfer", inp)
                ser = mf.metadata.get("cap_data_ser")
                if capkind == "cap" and rp != "resolve_cap" and ser is not None:
                    if ser.cap_name != "Foo" or ser.session_id != str(h.session.id) or ser.region_addr != str(region.circuit_addr) or ser.type != "NORMAL":
                        fail("flows/state", f"routing metadata changed in transfer: {tuple(ser)}", inp)
        # an exception that ESCAPES the proxy's own handler after an addon took the flow (unparseable EventQueueGet poll body:
        # the handler's own parse raises after the addon hook ran): the flow stays with the addon until it releases it
        for b_ in ("take", "take_raise"):
            a.b = b_
            a.taken = []
            f = h.mkflow("https://sim.example/cap/eq", content=b"this is not llsd")
            exc, back = h.event("request", f)
            evals += 1
            seen.add(("escaping-handler-exception", b_))
            inp = {"event": "request", "addon": b_, "url": "https://sim.example/cap/eq", "body": "not LLSD"}
            if not a.taken:
                fail("flows/handback", "the addon hook did not run before the handler failed (harness expectation)", inp)
                continue
            if back:
                fail("flows/handback", f"taken flow handed back {len(back)} times when the proxy's handler raised ({exc!r}), before its owner released it", inp)
            try:
                a.taken[0].resume()
                if len(h.drain(h.flow_context.to_proxy_queue)) != 1:
                    fail("flows/handback", "taken flow was not handed back exactly once on release after a handler failure", inp)
            except AssertionError:
                fail("flows/handback", "the owner could not release its flow after a handler failure (already handed back)", inp)
        # two more sessions in the same proxy (two viewers on one machine): one in the same simulator - a region at the very same
        # address -, one elsewhere. A flow's owning session AND region are those it had, for every (session, region) pair
        from hippolyzer.lib.base.datatypes import UUID as _U
        others = []
        for k_, (ip_, port_) in enumerate((region.circuit_addr, ("10.0.0.77", 13077))):
            s_ = h.session_manager.create_session({"session_id": _U.random(), "secure_session_id": _U.random(), "agent_id": _U.random(), "circuit_code": 2000 + k_,
                                                   "sim_ip": ip_, "sim_port": port_, "region_x": 0, "region_y": 123,
                                                   "seed_capability": "https://test.localhost:4/other%d" % k_})
            others.append(s_)
        for sess_ in [h.session] + others:
            for reg_ in sess_.regions:
                f = h.mkflow("https://sim.example/cap/foo/q")
                hf = HippoHTTPFlow.from_state(f.get_state(), h.session_manager)
                hf.cap_data = CapData("Foo", weakref.ref(reg_), weakref.ref(sess_), "https://sim.example/cap/foo", CapType.NORMAL)
                hf2 = HippoHTTPFlow.from_state(hf.get_state(), h.session_manager)
                evals += 1
                seen.add(("transfer-sessions", str(sess_.id)[-4:], str(reg_.circuit_addr)))
                cd = hf2.cap_data
                if cd.session is None or cd.session() is not sess_ or cd.region is None or cd.region() is not reg_:
                    fail("flows/state", "with several sessions in the proxy (one sharing a simulator address) the flow's owning session / region changed in the "
                         "state transfer", {"region_addr": str(reg_.circuit_addr), "sessions": len(others) + 1})
        # state transfer round trip: from_state(get_state(f)) keeps cap data and flags
        for cap_type in CapType:
            for flags in itertools.product((False, True), repeat=3):
                f = h.mkflow("https://sim.example/cap/foo/q")
                hf = HippoHTTPFlow.from_state(f.get_state(), h.session_manager)
                hf.cap_data = CapData("Foo", weakref.ref(region), weakref.ref(h.session), "https://sim.example/cap/foo", cap_type)
                hf.metadata["request_injected"], hf.metadata["from_browser"] = flags[0], flags[1]
                hf.can_stream = flags[2]
                hf2 = HippoHTTPFlow.from_state(hf.get_state(), h.session_manager)
                evals += 1
                seen.add(("transfer", cap_type.name, flags))
                cd = hf2.cap_data
                ok = (cd.cap_name == "Foo" and cd.type == cap_type and cd.session() is h.session and cd.region() is region and cd.base_url == "https://sim.example/cap/foo"
                      and hf2.request_injected == flags[0] and hf2.from_browser == flags[1] and hf2.can_stream == flags[2])
                if not ok:
                    fail("flows/state", f"from_state(get_state(f)) changed routing metadata for cap type {cap_type.name}", {"cap_type": cap_type.name, "flags": flags})
        # a flow whose region died while an addon held it can still be handed back
        from hippolyzer.lib.proxy.region import ProxiedRegion
        tmp = h.session.register_region(("10.9.9.9", 9), handle=777, seed_url="https://sim.example/seed/tmp")
        tmp.update_caps({"Bar": "https://sim.example/cap/bar"})
        f = h.mkflow("https://sim.example/cap/bar/1")
        a.b = "take"
        a.taken = []
        exc, back = h.event("request", f)
        h.session.regions.remove(tmp)
        del tmp
        gc.collect()
        evals += 1
        seen.add(("dead-region",))
        try:
            a.taken[0].resume()
            if len(h.drain(h.flow_context.to_proxy_queue)) != 1:
                fail("flows/handback", "flow of a vanished region was not handed back on release", {"case": "dead-region"})
        except Exception as e:  # noqa
            fail("flows/handback", f"releasing a flow whose region is gone raised {type(e).__name__}: {e}", {"case": "dead-region"})
        # an addon's rewrite of a request for an asset wrapper capability (the main process itself rewrites the host of those):
        # what is handed back carries the addon's path / query, on the asset server's host
        from mitmproxy.test import tflow as _tflow, tutils as _tutils
        import urllib.parse as _up
        region.update_caps({"ViewerAsset": "http://assets.example/va", "GetTexture": "http://assets.example/tex"})
        for capname, newq, stream in itertools.product(("ViewerAsset", "GetTexture"), ("asset_id=bbbb", "texture_id=cccc&x=1"), (False, True)):
            evals += 1
            seen.add(("wrapper-rewrite", capname, newq, stream))
            wurl = region.register_wrapper_cap(capname)
            wp = _up.urlsplit(wurl)

            def _rewrite(flow, newq=newq, stream=stream):
                flow.request.url = flow.request.url.split("?")[0] + "/sub?" + newq
                if not stream:
                    flow.can_stream = False
            a.b = "custom"
            a.custom = _rewrite
            a.taken = []
            wf = _tflow.tflow(req=_tutils.treq(host=wp.hostname, port=wp.port or 80, scheme=wp.scheme.encode(),
                                               path=(wp.path or "") + "/item?asset_id=aaaa", authority=wp.netloc.encode()), resp=False)
            wf.metadata["cap_data_ser"] = SerializedCapData()
            exc, back = h.event("request", wf)
            a.custom = None
            inp = {"cap": capname, "addon_rewrites_query_to": newq, "can_stream": stream}
            if exc is not None or len(back) != 1:
                fail("flows/handback", f"wrapper-cap request handed back {len(back)} times (exception: {exc!r})", inp)
                continue
            mf = HTTPFlow.from_state(back[0][2])
            got = mf.request.url
            if mf.response is not None and mf.response.status_code == 307:
                got = mf.response.headers.get("Location", "")
            gp = _up.urlsplit(got)
            if gp.query != newq or not gp.path.endswith("/sub") or gp.netloc != "assets.example":
                fail("flows/rewrite-wrapper", f"addon rewrote the wrapper-cap request to .../sub?{newq}; handed back: {got}", inp)
        # end to end through the proxy-side addon: the real SLMITMAddon hook queues the event, the real pump handles it, the real
        # callback pump applies what came back - the flow mitmproxy holds must be released then, carrying the addon's rewrite
        from unittest import mock
        import mitmproxy.ctx
        from hippolyzer.lib.proxy.http_proxy import SLMITMAddon
        for kind, beh in itertools.product(("request", "response"), ("ignore", "rewrite_url", "raise")):
            evals += 1
            seen.add(("end-to-end", kind, beh))
            a.b = beh
            a.taken = []
            mf = h.mkflow("https://sim.example/cap/e2e/%s" % beh, resp_content=b"x" if kind == "response" else None)
            res = {}

            async def e2e(mf=mf, kind=kind, res=res):
                h.flow_context.shutdown_signal.clear()
                side = SLMITMAddon(h.flow_context)
                had_master = getattr(mitmproxy.ctx, "master", None)
                mitmproxy.ctx.master = mock.MagicMock()
                try:
                    getattr(side, kind)(mf)
                    res["held"] = mf.intercepted
                    waiter = asyncio.ensure_future(mf.wait_for_resume())
                    await asyncio.sleep(0.01)
                    res["held_waiting"] = not waiter.done()
                    await h.mgr.pump_proxy_event()
                    res["handed_back"] = h.flow_context.to_proxy_queue.qsize()
                    pump = asyncio.ensure_future(side._pump_callbacks())
                    try:
                        await asyncio.wait_for(asyncio.shield(waiter), 5.0)
                    except asyncio.TimeoutError:
                        pass
                    res["released"] = waiter.done() and not mf.intercepted
                    res["url"] = mf.request.url
                    hf = getattr(a, "last", None)
                    if kind == "request" and res["released"] and hf is not None and a.b != "raise":
                        # the main process pre-empts the request it has already released (it races the server with a response of
                        # its own): the response reaches the flow the HTTP proxy holds
                        hf.response = mitmproxy.http.Response.make(418, b"preempted", {})
                        hf.preempt()
                        for _w in range(400):
                            await asyncio.sleep(0.005)
                            if mf.response is not None:
                                break
                        res["preempted"] = mf.response is not None and mf.response.status_code == 418
                    h.flow_context.shutdown_signal.set()
                    await asyncio.wait_for(pump, 10.0)
                    waiter.cancel()
                finally:
                    h.flow_context.shutdown_signal.clear()
                    mitmproxy.ctx.master = had_master
            try:
                h.loop.run_until_complete(e2e())
            except Exception as e:  # noqa
                fail("flows/end-to-end", f"driving a {kind} event through the proxy-side addon raised {type(e).__name__}: {e}", {"kind": kind, "behaviour": beh})
                continue
            inp = {"kind": kind, "behaviour": beh, "observed": {k: v for k, v in res.items()}}
            if not res.get("held") or not res.get("held_waiting"):
                fail("flows/end-to-end", "the proxy-side hook did not hold the flow while the main process handles it", inp)
            elif res.get("handed_back") != 1:
                fail("flows/end-to-end", f"main process handed the event back {res.get('handed_back')} times", inp)
            elif not res.get("released"):
                fail("flows/end-to-end", "the event was handed back but the flow held by the HTTP proxy was never released", inp)
            elif res.get("preempted") is False:
                fail("flows/end-to-end", "a response the main process pre-empted the released request with never reached the flow the HTTP proxy holds", inp)
            elif beh == "rewrite_url" and kind == "request" and "rewritten" not in res.get("url", ""):
                fail("flows/end-to-end", f"the rewritten request did not reach the held flow ({res.get('url')})", inp)
    finally:
        h.close()
    return {"name": "http-flow-handback", "evaluations": evals, "distinct_nontrivial": len(seen),
            "rule": "events {request, response} x addon behaviours {ignore, take, take+resume later, inject response, rewrite url, raise, take+raise} x "
                    "raise points {none, cap resolution, message logger, session-level subscriber, region-level subscriber} x {cap, no cap} through the "
                    "real pump; state transfer over all cap types x flag sets; vanished region; {request, response} x {ignore, rewrite, raise} end to end "
                    "through the real proxy-side addon hooks and callback pump. distinct = distinct case tuples",
            "bounded": True, "bounds": {"cases": len(cases)}, "samples": samples, "failures": failures}


# ---------------------------------------------------------------------------------------------------------- C16
def bounded_caps(reg, tier, seed):
    from hippolyzer.lib.base import llsd
    from hippolyzer.lib.proxy.caps import CapType, SerializedCapData
    rng = random.Random(seed)
    evals, failures, seen, samples = 0, [], set(), []

    def fail(key, what, inp):
        if sum(1 for f in failures if f["key"] == key) < 2:
            failures.append({"key": key, "clause": what, "input": inp, "observed": what})
    runs = 40 if tier == "quick" else 400
    for run in range(runs):
        # what the grid's login response carries besides the seed capability varies: service URLs present, absent, or empty strings
        h = HttpHarness(n_regions=2, login_extras=rng.choice([None, None, {"map-server-url": "", "agent_appearance_service": ""},
                                                              {"map-server-url": "https://map.example/", "agent_appearance_service": "https://bake.example/"}]))
        try:
            # reference model: per region, name -> list of (type, url) newest first
            ref = {i: {"Seed": [("NORMAL", r.caps["Seed"][1])]} for i, r in enumerate(h.session.regions)}
            ops = []

            def check_by_name(rk, ops_, h=h, ref=ref):
                for name_, lst in ref[rk].items():
                    got = h.session.regions[rk].cap_urls.get(name_)
                    if got != lst[0][1]:
                        fail("caps/by-name", f"lookup of {name_} by name gave {got}, the most recently granted live URL is {lst[0][1]}", {"ops": [str(o) for o in ops_[-8:]]})
            for step in range(rng.randrange(4, 16)):
                ri = rng.randrange(2)
                region = h.session.regions[ri]
                op = rng.choice(["grant", "grant", "regrant", "regrant", "temp", "proxy", "proxy_again", "lookup", "lookup", "resolve", "resolve_temp",
                                 "reseed", "reseed"])
                evals += 1
                if op in ("grant", "regrant"):
                    name = rng.choice(["Foo", "Bar", "FooBar"])
                    # one URL belongs to one capability name (as simulators grant them); names may get several URLs over time,
                    # and the fixed ones are prefix-related across names
                    fixed = {"Foo": f"https://sim{ri}.example/cap/base", "FooBar": f"https://sim{ri}.example/cap/base/sub", "Bar": f"https://sim{ri}.example/cap/base-2"}
                    if op == "regrant" and ref[ri].get(name):
                        older = [u_ for t_, u_ in ref[ri][name][1:]] or [ref[ri][name][0][1]]
                        url = rng.choice(older)          # the simulator grants an earlier URL again: it is the newest grant now
                    else:
                        # granted URLs may end in a delimiter themselves (the OpenSim form .../CAPS/<uuid>/)
                        url = rng.choice([f"https://sim{ri}.example/cap/{name}-{run}-{step}", fixed[name], fixed[name] + "/",
                                          f"https://sim{ri}.example/CAPS/{name}-{run}-{step}/", f"https://sim{ri}.example/q/{name}-{run}-{step}?id="])
                    region.update_caps({name: url})
                    ref[ri].setdefault(name, []).insert(0, ("NORMAL", url))
                    ops.append((op, ri, name, url))
                elif op == "reseed":
                    # the region is announced again (teleport back, EnableSimulator / EstablishAgentCommunication) with a seed
                    # capability URL: a new one, the current one, or one it had earlier - the one announced last is the Seed now
                    seeds = [u_ for t_, u_ in ref[ri]["Seed"]]
                    url = rng.choice([f"https://sim{ri}.example/seed/{run}-{step}", seeds[0], rng.choice(seeds)])
                    got_region = h.session.register_region(region.circuit_addr, seed_url=url)
                    ops.append((op, ri, url))
                    if got_region is not region:
                        fail("caps/by-name", "announcing a known region again gave a different region object", {"ops": [str(o) for o in ops[-6:]]})
                    if url != seeds[0]:
                        ref[ri]["Seed"].insert(0, ("NORMAL", url))
                    check_by_name(ri, ops)
                elif op == "temp":
                    url = f"https://sim{ri}.example/upload/{run}-{step}" + rng.choice(["", "", "/"])
                    region.register_cap("Uploader", url, CapType.TEMPORARY)
                    ref[ri].setdefault("Uploader", []).insert(0, ("TEMPORARY", url))
                    ops.append((op, ri, url))
                elif op in ("proxy", "proxy_again"):
                    name = "ProxyThing"
                    url = region.register_proxy_cap(name)
                    prev = [u for t, u in ref[ri].get(name, []) if t == "PROXY_ONLY"]
                    ops.append((op, ri, url))
                    if prev and url != prev[0]:
                        fail("caps/proxy-cap", f"registering proxy-only cap {name} again gave a different URL ({url} vs {prev[0]})", {"ops": [str(o) for o in ops[-6:]]})
                    if not prev:
                        ref[ri].setdefault(name, []).insert(0, ("PROXY_ONLY", url))
                elif op == "lookup":
                    check_by_name(ri, ops)
                elif op in ("resolve", "resolve_temp"):
                    cands = [(n, t, u) for n, lst in ref[ri].items() for t, u in lst if (t == "TEMPORARY") == (op == "resolve_temp") and n != "Seed"]
                    if not cands:
                        continue
                    n, t, u = rng.choice(cands)
                    # what follows the granted URL is arbitrary request text
                    req = u + rng.choice(["", "/x", "?a=1", "children?depth=1", "x", ".au/", "-2", "/sub/", "#f", ":8002/y", "0"])
                    ops.append((op, ri, req))
                    try:
                        cd = h.session_manager.resolve_cap(req)
                    except Exception as e:  # noqa
                        fail("caps/resolve", f"resolving {req} raised {type(e).__name__}: {e}", {"ops": [str(o) for o in ops[-6:]], "request": req})
                        break
                    # expected: the granted URL that the request extends; with prefix-related URLs the longest one
                    owners = [(nn, tt, uu, rj) for rj in ref for nn, lst in ref[rj].items() for tt, uu in lst if req.startswith(uu)]
                    best = max(owners, key=lambda x: len(x[2]))
                    if not cd or cd.cap_name != best[0] or cd.base_url != best[2]:
                        fail("caps/resolve", f"{req} resolved to {cd.cap_name if cd else None} ({cd.base_url if cd else None}), it extends {best[0]} ({best[2]})",
                             {"ops": [str(o) for o in ops[-6:]], "request": req})
                    elif cd.region is None or cd.region() is not h.session.regions[best[3]] or cd.session() is not h.session:
                        fail("caps/resolve", f"{req} attributed to the wrong region/session", {"ops": [str(o) for o in ops[-6:]]})
                    if best[1] == "TEMPORARY":
                        ref[best[3]][best[0]].remove((best[1], best[2]))
                        if not ref[best[3]][best[0]]:
                            del ref[best[3]][best[0]]
                        try:
                            again = h.session_manager.resolve_cap(req)
                        except Exception:  # noqa
                            again = None
                        if again and again.cap_name == best[0] and again.base_url == best[2]:
                            fail("caps/temporary", f"one-shot cap {best[2]} resolved a second time", {"ops": [str(o) for o in ops[-6:]]})
                if op in ("resolve", "resolve_temp"):
                    for rj in ref:
                        check_by_name(rj, ops)
            # the region is announced with seed A, then B, then A again: the Seed is what was announced last, each time
            ri = rng.randrange(2)
            region = h.session.regions[ri]
            seed_a = ref[ri]["Seed"][0][1]
            for url in (f"https://sim{ri}.example/seed/{run}-b", seed_a, f"https://sim{ri}.example/seed/{run}-c", f"https://sim{ri}.example/seed/{run}-b"):
                evals += 1
                h.session.register_region(region.circuit_addr, seed_url=url)
                ops.append(("reseed", ri, url))
                if url != ref[ri]["Seed"][0][1]:
                    ref[ri]["Seed"].insert(0, ("NORMAL", url))
                check_by_name(ri, ops)
            # several one-shot caps in flight under one name: consuming any of them leaves the others, newest first
            ri = rng.randrange(2)
            region = h.session.regions[ri]
            tname = "NewFileAgentInventoryUploader"
            for k in range(rng.randrange(3, 6)):
                url = f"https://sim{ri}.example/inflight/{run}-{k}" + rng.choice(["", "/"])
                region.register_cap(tname, url, CapType.TEMPORARY)
                ref[ri].setdefault(tname, []).insert(0, ("TEMPORARY", url))
                ops.append(("temp", ri, url))
            while ref[ri].get(tname):
                evals += 1
                t, u = rng.choice(ref[ri][tname])
                req = u + rng.choice(["", "?x=1", "done"])
                ops.append(("resolve_temp", ri, req))
                try:
                    cd = h.session_manager.resolve_cap(req)
                except Exception as e:  # noqa
                    fail("caps/resolve", f"resolving {req} raised {type(e).__name__}: {e}", {"ops": [str(o) for o in ops[-8:]], "request": req})
                    break
                if not cd or cd.cap_name != tname or cd.base_url != u:
                    fail("caps/resolve", f"{req} resolved to {cd.cap_name if cd else None} ({cd.base_url if cd else None}), it extends {tname} ({u})",
                         {"ops": [str(o) for o in ops[-8:]], "request": req})
                    break
                ref[ri][tname].remove((t, u))
                if not ref[ri][tname]:
                    del ref[ri][tname]
                check_by_name(ri, ops)
            seen.add(tuple(str(o) for o in ops))
            if len(samples) < 2:
                samples.append([str(o) for o in ops[:6]])
            # seed request/response rewriting
            region = h.session.regions[0]
            purl = region.register_proxy_cap("ProxyOnlyCap")
            seed_url = region.caps["Seed"][1]
            req_caps = ["Foo", "ProxyOnlyCap", "GetTexture", "Zed"]
            f = h.mkflow(seed_url, content=llsd.format_xml(req_caps))
            exc, back = h.event("request", f)
            evals += 1
            from mitmproxy.http import HTTPFlow
            if back:
                mf = HTTPFlow.from_state(back[0][2])
                sent = llsd.parse_xml(mf.request.content)
                if "ProxyOnlyCap" in sent or sorted(sent) != sorted(c for c in req_caps if c != "ProxyOnlyCap"):
                    fail("caps/seed-request", f"seed request sent upstream asks for {sent}", {"requested": req_caps})
                granted = {"Foo": "https://sim0.example/cap/granted-foo", "GetTexture": "http://assets.example/tex", "Zed": "https://sim0.example/cap/zed"}
                mf.response = __import__("mitmproxy.test.tutils", fromlist=["tresp"]).tresp(content=llsd.format_xml(granted), status_code=200)
                mf.metadata["cap_data_ser"] = mf.metadata.get("cap_data_ser")
                h.flow_context.from_proxy_queue.put(("response", mf.get_state()), True)

                async def run_():
                    await asyncio.sleep(0.01)
                    await h.mgr.pump_proxy_event()
                h.loop.run_until_complete(run_())
                back2 = h.drain(h.flow_context.to_proxy_queue)
                if back2:
                    mf2 = HTTPFlow.from_state(back2[0][2])
                    shown = llsd.parse_xml(mf2.response.content)
                    if shown.get("ProxyOnlyCap") != purl:
                        fail("caps/seed-response", f"proxy-only cap missing/wrong in the rewritten seed response: {shown.get('ProxyOnlyCap')}", {})
                    for k in ("Foo", "Zed"):
                        if shown.get(k) != granted[k]:
                            fail("caps/seed-response", f"capability {k} granted by the simulator was not preserved: {shown.get(k)}", {})
                    w = shown.get("GetTexture", "")
                    if "hippo-proxy.localhost" not in w or h.session_manager.resolve_cap(w + "/a").cap_name != "GetTextureProxyWrapper":
                        fail("caps/seed-response", f"asset cap not presented through a wrapper URL: {w}", {})
                    # after the seed round trip the proxy-only capability is what it was: the same URL when registered again, that URL
                    # still resolves to it as a proxy-only capability, and the caps the simulator granted are the newest of their names
                    again = region.register_proxy_cap("ProxyOnlyCap")
                    if again != purl:
                        fail("caps/proxy-cap", f"registering the proxy-only cap again after a seed round trip gave a different URL ({again} vs {purl})", {})
                    cd_ = h.session_manager.resolve_cap(purl + "/x")
                    if not cd_ or cd_.cap_name != "ProxyOnlyCap" or cd_.type != CapType.PROXY_ONLY:
                        fail("caps/proxy-cap", f"after a seed round trip the proxy-only cap URL resolves to {cd_.cap_name if cd_ else None} / {cd_.type if cd_ else None}", {})
                    for k in ("Foo", "Zed"):
                        if region.cap_urls.get(k) != granted[k]:
                            fail("caps/by-name", f"after the seed response lookup of {k} by name gives {region.cap_urls.get(k)}, granted was {granted[k]}", {})
                else:
                    fail("caps/seed-response", "seed response was not handed back", {})
            else:
                fail("caps/seed-request", f"seed request was not handed back ({exc!r})", {})
        finally:
            h.close()
    return {"name": "capability-attribution", "evaluations": evals, "distinct_nontrivial": len(seen),
            "rule": f"{runs} seeded sequences of grants (repeated, overlapping names, prefix-related URLs), temporary/proxy-only registrations and "
                    "lookups over 2 regions against a reference multimap, each followed by one seed request/response rewrite through the real event "
                    "manager; distinct = distinct operation sequences", "bounded": True, "bounds": {"runs": runs}, "samples": samples, "failures": failures}


# ---------------------------------------------------------------------------------------------------------- C17
def bounded_eq(reg, tier, seed):
    from hippolyzer.lib.base import llsd
    from hippolyzer.lib.proxy.addon_utils import BaseAddon
    from hippolyzer.lib.proxy.caps import SerializedCapData
    from mitmproxy.http import HTTPFlow
    rng = random.Random(seed)
    evals, failures, seen, samples = 0, [], set(), []

    def fail(key, what, inp):
        if sum(1 for f in failures if f["key"] == key) < 2:
            failures.append({"key": key, "clause": what, "input": inp, "observed": what})

    class Swallow(BaseAddon):
        def __init__(self):
            self.swallow = set()
            self.registered = []

        def handle_eq_event(self, session, region, event):
            if isinstance(event["body"], dict) and event["body"].get("n") in self.swallow:
                return True

        def handle_region_registered(self, session, region):
            self.registered.append(region.circuit_addr)
    runs = 30 if tier == "quick" else 300
    for run in range(runs):
        a = Swallow()
        h = HttpHarness(addons=[a], n_regions=1)
        try:
            region = h.session.regions[0]
            eq_url = "https://sim.example/cap/eq"
            region.update_caps({"EventQueueGet": eq_url})
            cap = SerializedCapData("EventQueueGet", str(region.circuit_addr), str(h.session.id), eq_url, "NORMAL")
            n = 0
            inj = 0
            pending_injected = []
            delivered = []        # everything the viewer has been given, in order
            expected = []
            ack = None
            last_resp = None
            trace = []
            announced = False
            for step in range(rng.randrange(3, 14)):
                op = rng.choice(["poll", "poll", "poll", "inject", "repoll", "poll_502", "poll_region", "reannounce"])
                evals += 1
                if op == "reannounce" and rng.random() < 0.4:
                    # a later Seed response grants EventQueueGet again, under another URL: the URL the viewer is polling stays what it was
                    region.update_caps({"EventQueueGet": f"https://sim.example/cap/eq-{run}-{step}"})
                    trace.append("regrant EventQueueGet under a new URL")
                    continue
                if op == "reannounce":
                    # the region is announced again (by an event on some other region's queue) with the same or a new seed capability
                    # while the viewer keeps polling the queue it has: nothing queued or cached for that queue is lost by that
                    new_seed = rng.choice([region.cap_urls.get("Seed"), f"https://sim.example/seed/{run}-{step}"])
                    try:
                        h.session.register_region(region.circuit_addr, seed_url=new_seed)
                    except Exception as e:  # noqa
                        fail("eq/inject", f"re-announcing the region raised {type(e).__name__}: {e}", {"trace": trace[-6:]})
                    trace.append(f"reannounce seed={'same' if new_seed == region.cap_urls.get('Seed') else 'new'}")
                    continue
                if op == "inject":
                    # an addon may inject any number of events between two responses (the property puts no bound on it)
                    burst = rng.choice([1, 1, 1, 2, 300, 1100]) if run % 4 == 1 else 1
                    for _b in range(burst):
                        inj += 1
                        ev = {"message": "InjectedThing", "body": {"inj": inj}}
                        try:
                            region.eq_manager.inject_event(ev)
                        except Exception as e:  # noqa
                            fail("eq/inject", f"inject_event raised {type(e).__name__}: {e}", {"trace": trace[-6:]})
                        pending_injected.append(ev)
                    trace.append("inject" if burst == 1 else f"inject x{burst}")
                    continue
                if op == "repoll" and last_resp is not None:
                    # the viewer lost the previous response and repeats the poll with the same ack
                    f = h.mkflow(eq_url, content=llsd.format_xml({"ack": last_resp[0], "done": False}), cap=cap)
                    exc, back = h.event("request", f)
                    trace.append(f"repoll ack={last_resp[0]}")
                    if not back:
                        fail("eq/replay", "repeated poll was not handed back", {"trace": trace[-6:]})
                        continue
                    mf = HTTPFlow.from_state(back[0][2])
                    if last_resp[1] is not None:
                        if mf.response is None or llsd.parse_xml(mf.response.content) != last_resp[1]:
                            fail("eq/replay", "a repeated poll with the same ack was not answered with the previous response", {"trace": trace[-6:]})
                    continue
                # a normal poll: request, then the simulator's response
                k = rng.choice([0, 1, 2, 3])
                events = []
                for _ in range(k):
                    n += 1
                    events.append({"message": "SomeEvent", "body": {"n": n}})
                if op == "poll_region" and k:
                    events[-1] = {"message": "EstablishAgentCommunication", "body": {"n": n, "sim-ip-and-port": "10.7.7.7:7000", "seed-capability": "https://sim.example/seed/new"}}
                    if rng.random() < 0.5:
                        # the simulator usually names the neighbour first (address and handle, no seed yet), in the same response:
                        # a templated message in its LLSD form, built by the library's own serializer
                        from hippolyzer.lib.base.message.message import Message as _M, Block as _B
                        from hippolyzer.lib.base.message.llsd_msg_serializer import LLSDMessageSerializer as _L
                        en = _L().serialize(_M("EnableSimulator", _B("SimulatorInfo", Handle=123456789, IP="10.7.7.7", Port=7000)), as_dict=True)
                        events.insert(len(events) - 1, {"message": en["message"], "body": en["body"]})
                if events and rng.random() < 0.25:
                    # an event the proxy has no template for, whose body is not a map (an array): carried through like any other
                    events.insert(rng.randrange(len(events)), {"message": "SimStatsSnapshot", "body": [len(trace), "stats", 1.5]})
                a.swallow = {e["body"]["n"] for e in events if isinstance(e["body"], dict) and "n" in e["body"] and rng.random() < 0.35}
                will_announce = op == "poll_region" and k and (events[-1]["body"]["n"] not in a.swallow or len(events) > k + 1 or
                                                               (len(events) > k and not any(isinstance(e["body"], list) for e in events)))
                req_body = llsd.format_xml({"ack": ack, "done": False})
                f = h.mkflow(eq_url, content=req_body, cap=cap)
                exc, back = h.event("request", f)
                if len(back) != 1:
                    fail("eq/poll", f"poll request handed back {len(back)} times", {"trace": trace[-6:]})
                    continue
                mf = HTTPFlow.from_state(back[0][2])
                if mf.response is not None:
                    # served from the replay cache: legitimate only if this ack was answered before; viewer gets the same payload again
                    trace.append("cached")
                    continue
                status = 502 if op == "poll_502" else 200
                new_ack = (ack or 0) + 1
                body = llsd.format_xml({"id": new_ack, "events": events}) if (status == 200 and events) else (llsd.format_xml(None) if status == 200 else b"upstream error")
                from mitmproxy.test import tutils
                mf.response = tutils.tresp(content=body, status_code=status)
                h.flow_context.from_proxy_queue.put(("response", mf.get_state()), True)

                async def run_():
                    await asyncio.sleep(0.01)
                    await h.mgr.pump_proxy_event()
                h.loop.run_until_complete(run_())
                back2 = h.drain(h.flow_context.to_proxy_queue)
                trace.append(f"{op} k={k} swallow={sorted(a.swallow)} status={status}")
                if len(back2) != 1:
                    fail("eq/poll", f"poll response handed back {len(back2)} times", {"trace": trace[-6:]})
                    continue
                mf2 = HTTPFlow.from_state(back2[0][2])
                if status != 200:
                    if mf2.response.content != b"upstream error":
                        fail("eq/non200", "a non-200 response was rewritten", {"trace": trace[-6:]})
                    continue
                shown = llsd.parse_xml(mf2.response.content)
                if events:
                    announced = announced or will_announce
                    kept = [e for e in events if not isinstance(e["body"], dict) or e["body"].get("n") not in a.swallow]
                    want = kept + pending_injected
                    if not want:
                        if shown is not None and shown != {}:
                            fail("eq/undef", f"response emptied by addons was not replaced by the no-events form: {shown!r}", {"trace": trace[-6:]})
                        got_events = []
                    else:
                        got_events = (shown or {}).get("events", [])
                        if got_events != want:
                            fail("eq/events", f"viewer given {[e['body'] for e in got_events]}, expected {[e['body'] for e in want]} (sim events minus swallowed, then injected, in order)",
                                 {"trace": trace[-6:]})
                    delivered.extend(got_events)
                    expected.extend(want)
                    pending_injected = []
                    last_resp = (ack, shown)
                    ack = new_ack
                else:
                    # undef body: nothing to deliver, injected events stay queued for the next response that carries events
                    if shown not in (None, {}):
                        fail("eq/undef", f"an undef response was rewritten to {shown!r}", {"trace": trace[-6:]})
            # every injected event delivered exactly once, sim events in order without duplicates
            ns = [e["body"]["n"] for e in delivered if isinstance(e["body"], dict) and "n" in e["body"]]
            if ns != sorted(set(ns)):
                fail("eq/events", f"simulator events duplicated or reordered: {ns}", {"trace": trace[-8:]})
            injs = [e["body"]["inj"] for e in delivered if isinstance(e["body"], dict) and "inj" in e["body"]]
            if len(injs) != len(set(injs)):
                fail("eq/events", f"injected events delivered more than once: {injs}", {"trace": trace[-8:]})
            addr = ("10.7.7.7", 7000)
            n_reg = sum(1 for r in h.session.regions if r.circuit_addr == addr)
            if n_reg > 1 or (announced and n_reg != 1):
                fail("eq/region", f"announced region present {n_reg} times in the session", {"trace": trace[-8:]})
            seen.add(tuple(trace))
            if len(samples) < 2:
                samples.append(trace[:6])
        finally:
            h.close()
    return {"name": "event-queue-histories", "evaluations": evals, "distinct_nontrivial": len(seen),
            "rule": f"{runs} seeded poll histories: simulator responds with 0..3 events (some announcing a region), addon swallows a subset, proxy "
                    "injects events, viewer re-polls with a stale ack, 502 responses; checked against a reference queue; distinct = distinct traces",
            "bounded": True, "bounds": {"runs": runs}, "samples": samples, "failures": failures}
