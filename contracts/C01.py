"""C01 - LLUDP codec: every template-conformant message round-trips by value."""
from contracts import udp_common

PID = "C01"
META = {
    "level": "other",
    "explanation": (
        "P (proved): UDPMessageSerializer._serialize_var, instantiated for every distinct (wire type, size) pair in the live message "
        "template (complete enumeration, 21 instances): an unset variable in a default-filling block is written as zero bytes of "
        "exactly the width the template prescribes (type size; template size for Fixed; a zero length prefix of the template's "
        "size for Variable), raises MessageSerializationError exactly when unset without default filling, never rewrites bytes "
        "already in the buffer. The BufferWriter / SerializablePrimitive / Struct code underneath is the real code, inlined. "
        "UDPMessageDeserializer._parse_message_header (not zero-coded): flags, id, offset, acks in order, body with the ack trailer "
        "snipped (contract shared with C02); zero-coded datagram: the same header fields, and the window handed to the expander to find "
        "the message name covers what is read from its expansion - at most 4 bytes of message number plus the extra field, at most two "
        "encoded bytes each (C03) - or all that is left of the datagram. Block framing, both directions, as ghost call-log obligations on the real loops: "
        "_serialize_block writes the count byte exactly for Variable blocks and equal to the number of instances (more than 255 is "
        "rejected by the U8 write, not truncated), rejects a Multiple block of the wrong length, and writes every template variable of "
        "every instance exactly once with that instance's value and fill flag; serialize (body built from blocks) looks every template "
        "block up once by name, writes it iff present, writes nothing after an omitted block, visits all template blocks, zero-codes "
        "iff flagged and then the whole built body, and wraps the body in the same header and ack trailer as the raw-body case; "
        "_parse_message_body reads 1 / the template's number / the count byte instances of each block it reaches with data left, "
        "creates the block list, parses every template variable of every instance once and stores it under its name, and stops for good "
        "where the data ends. "
        "B (bounded, labelled): decode(encode(m)) == m over all 481 templates x block counts x per-type boundary and seeded "
        "values x flags x acks x extra; default-fill of every template; complete check of the (frequency, number) bijection; "
        "pack/unpack pair law sampler. That the two framings are inverse of each other on whole messages (the round trip itself) "
        "and _parse_var's text heuristics are decided only in the bounded tier."),
    "trusted_base": [
        "TemplateDataPacker.pack: assumed summary (pack of empty bytes is empty); per-type pair law sampled every run",
        "struct.Struct.pack/unpack: exact built-in model for integer formats",
        "message template as loaded from message_template.msg (live objects are the instantiation domain)",
        "per-variable value codecs (TemplateDataPacker pack/unpack pairs, _parse_var) and the message-number codec: bounded tier only; the "
        "block walk, block counts and header parsing are under contract (call-log obligations), the byte-level equality of whole "
        "datagrams is bounded tier",
        "zero-coded header: zero_code_expand is an external here (its semantics are C03's subject); that two encoded bytes per decoded "
        "byte suffice is C03's canonical-form result, used as the justification of the window obligation",
    ],
}


def register(reg):
    udp_common.reg_serialize_var(reg, PID)
    udp_common.reg_parse_header(reg, "C02")
    reg.fns["hippolyzer.lib.base.message.udpdeserializer:UDPMessageDeserializer._parse_message_header@plain"].also.append(PID)
    reg.fns["hippolyzer.lib.base.message.udpdeserializer:UDPMessageDeserializer._parse_message_header@zerocoded"].also.append(PID)
    from contracts import c01b_contracts
    c01b_contracts.register_p2(reg, PID)
    from contracts import c01c_contracts
    c01c_contracts.register_p3(reg, PID)
    from contracts import c01d_contracts
    c01d_contracts.register_p4(reg, PID)


from contracts import c01_native
BOUNDED = [c01_native.bounded_roundtrip]
