"""C01 - LLUDP codec: every template-conformant message round-trips by value."""
from contracts import udp_common

PID = "C01"
META = {
    "level": "other",
    "explanation": (
        "P (proved): UDPMessageSerializer._serialize_var, instantiated for every distinct (wire type, size) pair in the live message "
        "template (complete enumeration, 21 instances): an unset variable in a default-filling block is written as zero bytes of "
        "exactly the width the template prescribes (type size; template size for Fixed; a zero length prefix of the template's "
        "size for Variable), raises MessageSerializationError exactly when unset without default filling, never rewrites bytes "
        "already in the buffer. The BufferWriter / SerializablePrimitive / Struct code underneath is the real code, inlined. "
        "UDPMessageDeserializer._parse_message_header (not zero-coded): flags, id, offset, acks in order, body with the ack trailer "
        "snipped (contract shared with C02). "
        "B (bounded, labelled): decode(encode(m)) == m over all 481 templates x block counts x per-type boundary and seeded "
        "values x flags x acks x extra; default-fill of every template; complete check of the (frequency, number) bijection; "
        "pack/unpack pair law sampler. The template-walking loops of serialize/_serialize_block/parse_message_body (dict-of-"
        "block-lists, dynamic packer tables) are outside the verifier's subset - decided only in the bounded tier."),
    "trusted_base": [
        "TemplateDataPacker.pack: assumed summary (pack of empty bytes is empty); per-type pair law sampled every run",
        "struct.Struct.pack/unpack: exact built-in model for integer formats",
        "message template as loaded from message_template.msg (live objects are the instantiation domain)",
        "template walk, block counts, header parsing: bounded tier only (stated, not proved)",
    ],
}


def register(reg):
    udp_common.reg_serialize_var(reg, PID)
    udp_common.reg_parse_header(reg, "C02")
    reg.fns["hippolyzer.lib.base.message.udpdeserializer:UDPMessageDeserializer._parse_message_header@plain"].also.append(PID)
    from contracts import c01b_contracts
    c01b_contracts.register_p2(reg, PID)


from contracts import c01_native
BOUNDED = [c01_native.bounded_roundtrip]
