"""Contracts on the LLUDP serializer shared by C01 and C02."""
import z3

from pyvc.contracts import ClassDecl, FnContract, SpecFn
from contracts.common import reg_message, MSG_REL

SER_REL = "hippolyzer/lib/base/message/udpserializer.py"
DES_REL = "hippolyzer/lib/base/message/udpdeserializer.py"
SE_REL = "hippolyzer/lib/base/serialization.py"
SER_MOD = "hippolyzer.lib.base.message.udpserializer"


def reg_buffers(reg):
    if "BufferWriter" in reg.classes:
        return
    reg.add_class(ClassDecl("BufferWriter", fields={"endianness": "Str", "buffer": "Bytes"},
                            inline={"write": (SE_REL, "BufferWriter.write"), "write_bytes": (SE_REL, "BufferWriter.write_bytes"),
                                    "copy_buffer": (SE_REL, "BufferWriter.copy_buffer"), "__len__": (SE_REL, "BufferWriter.__len__")},
                            ctor=(SE_REL, "BufferWriter.__init__"), py_names=["se.BufferWriter", "BufferWriter"]))
    reg.add_class(ClassDecl("BufferReader", fields={"endianness": "Str", "pod": "Bool", "_buffer": "Bytes", "_pos": "Int", "_len": "Int"},
                            inline={"read": (SE_REL, "Reader.read"), "read_bytes": (SE_REL, "BufferReader.read_bytes"),
                                    "seek": (SE_REL, "BufferReader.seek"), "tell": (SE_REL, "BufferReader.tell"),
                                    "__len__": (SE_REL, "BufferReader.__len__"), "__bool__": (SE_REL, "BufferReader.__bool__")},
                            ctor=(SE_REL, "BufferReader.__init__"), py_names=["se.BufferReader", "BufferReader"]))


def wire_width(tv):
    """bytes the template prescribes for the zero value of this variable"""
    from hippolyzer.lib.base.message.msgtypes import MsgType
    if tv.type == MsgType.MVT_FIXED:
        return tv.size
    if tv.type == MsgType.MVT_VARIABLE:
        return tv.size          # a zero length prefix of `size` bytes, no payload
    return tv.type.size


def live_var_instances():
    """one representative MessageTemplateVariable per distinct (type, size) in the live template (complete enumeration)"""
    from hippolyzer.lib.base.message.template_dict import DEFAULT_TEMPLATE_DICT
    seen = {}
    for t in DEFAULT_TEMPLATE_DICT.message_templates.values():
        for b in t.blocks:
            for v in b.variables:
                seen.setdefault((v.type.name, v.size), (t.name, b.name, v))
    return seen


def reg_serialize_var(reg, prop):
    import hippolyzer.lib.base.serialization as se
    from hippolyzer.lib.base.message.msgtypes import MsgType
    from contracts import C03 as c03
    if "zeros" not in reg.specs:
        reg.axiom_groups["zerocode"] = c03.axioms()
        reg.add_spec(SpecFn("zeros", c03.ZEROS, ["int"], "bytes", native=lambda n: bytes(max(n, 0)), group="zerocode"))
    reg_buffers(reg)
    reg.add_class(ClassDecl("UDPMessageSerializer", fields={"template_dict": "Opaque:Any"}))
    for (tname, size), (msg_name, block_name, tv) in sorted(live_var_instances().items()):
        w = wire_width(tv)
        c = FnContract(
            key=f"{SER_MOD}:UDPMessageSerializer._serialize_var@{tname}:{size}", relpath=SER_REL,
            qualname="UDPMessageSerializer._serialize_var", cls="UDPMessageSerializer", prop=prop,
            params={"writer": "Obj:BufferWriter", "var_data": "Opt[Bytes]", "template_var": "Py:MessageTemplateVariable", "fill_missing": "Bool"},
            param_names=["writer", "var_data", "template_var", "fill_missing"],
            consts={"MsgType": MsgType, "se": se},
            externals={"TemplateDataPacker.pack": {"returns": "Bytes", "post": "implies(len(arg0) == 0, len(result) == 0)",
                                                   "may_raise": "AnyException", "raise_only_if": "len(arg0) > 0",
                                                   "doc": "per-type packer; _pack_string(b'') == b'' (sampled in the bounded tier)"}},
            raises={"exc.MessageSerializationError": "is_none(var_data) and not fill_missing"},
            may_raise={"AnyException": "not is_none(var_data)", "struct.error": "not is_none(var_data)"},
            ensures=[
                # default fill: the variable's zero value at exactly the width the template prescribes
                f"implies(is_none(var_data) and fill_missing, len(writer.buffer) == old(len(writer.buffer)) + {w})",
                "implies(is_none(var_data) and fill_missing, forall(lambda i: implies(old(len(writer.buffer)) <= i and i < len(writer.buffer), writer.buffer[i] == 0)))",
                "forall(lambda i: implies(0 <= i and i < old(len(writer.buffer)), writer.buffer[i] == old(writer.buffer)[i]))",
                "len(writer.buffer) >= old(len(writer.buffer))",
            ],
            frame=["writer.buffer"],
            doc=f"instance for template variables of type {tname} size {size} (e.g. {msg_name}.{block_name}.{tv.name})")
        c.param_values = {"template_var": tv}
        reg.add_fn(c)


def reg_serialize_raw(reg, prop):
    """UDPMessageSerializer.serialize on a message whose body was never parsed (raw_body present): header, verbatim body,
    ack trailer. The template-walking branch is outside the subset and decided in the bounded tier."""
    import hippolyzer.lib.base.serialization as se
    reg_message(reg)
    reg_buffers(reg)
    reg.classes["Message"].props.update({"extra": (MSG_REL, "Message.extra")})
    reg.add_class(ClassDecl("UDPMessageSerializer", fields={"template_dict": "Opaque:Any"}))
    reg.macros["be32at"] = (["s", "o"], "s[o] * 16777216 + s[o + 1] * 65536 + s[o + 2] * 256 + s[o + 3]")
    c = FnContract(
        key=f"{SER_MOD}:UDPMessageSerializer.serialize@raw_body", relpath=SER_REL, qualname="UDPMessageSerializer.serialize",
        cls="UDPMessageSerializer", prop=prop, params={"msg": "Obj:Message"}, param_names=["msg"], returns="Bytes",
        consts={"se": se}, ghost={"j0": "Int"},
        externals={"self.template_dict.get_template_by_name": {"returns": "Opt[Opaque:Any]", "doc": "template lookup by name"}},
        requires=["not is_none(msg.raw_body)"],
        may_raise={"exc.MessageSerializationError": "", "struct.error":
                   "msg.send_flags < 0 or msg.send_flags > 255 or len(msg.raw_extra) > 255 or (not is_none(msg.packet_id) and "
                   "(val(msg.packet_id) < 0 or val(msg.packet_id) > 4294967295)) or ((msg.send_flags & 16) != 0 and (len(msg.acks) > 255 "
                   "or exists(lambda i: 0 <= i and i < len(msg.acks) and (msg.acks[i] < 0 or msg.acks[i] > 4294967295))))"},
        ensures=[
            "result[0] == msg.send_flags and result[5] == len(msg.raw_extra)",
            "be32at(result, 1) == ite(is_none(msg.packet_id), 0, val(msg.packet_id))",
            "result[6:6 + len(val(msg.raw_body))] == val(msg.raw_body)",
            "implies((msg.send_flags & 16) == 0, len(result) == 6 + len(val(msg.raw_body)))",
            "implies((msg.send_flags & 16) != 0, len(result) == 6 + len(val(msg.raw_body)) + 4 * len(msg.acks) + 1 "
            "and result[len(result) - 1] == len(msg.acks))",
            # acks are appended big-endian in reverse order (for an arbitrary index j0: the contract is universally quantified over it)
            "implies((msg.send_flags & 16) != 0 and 0 <= j0 and j0 < len(msg.acks), "
            "be32at(result, 6 + len(val(msg.raw_body)) + 4 * j0) == msg.acks[len(msg.acks) - 1 - j0])",
        ],
        loops={"for ack in reversed(msg.acks)": {
            # one iteration appends four bytes and leaves everything before them alone: stated per byte of the ack word the
            # universally quantified index j0 points at, so that the preservation of the invariant is plain arithmetic
            "ghost_pre": {"_b0": "writer.buffer"},
            "lemmas": [f"implies(0 <= j0 and j0 < _i, writer.buffer[6 + len(val(msg.raw_body)) + 4 * j0 + {t}] == "
                       f"_b0[6 + len(val(msg.raw_body)) + 4 * j0 + {t}])" for t in range(4)]
                      + ["len(writer.buffer) == len(_b0) + 4"]
                      + ["be32at(writer.buffer, len(_b0)) == ack"],
            "inv": [
            "writer.endianness == '!'",
            "len(writer.buffer) == 6 + len(val(msg.raw_body)) + 4 * _i",
            "writer.buffer[0] == msg.send_flags and writer.buffer[5] == len(msg.raw_extra)",
            "be32at(writer.buffer, 1) == ite(is_none(msg.packet_id), 0, val(msg.packet_id))",
            "writer.buffer[6:6 + len(val(msg.raw_body))] == val(msg.raw_body)",
            "implies(0 <= j0 and j0 < _i, be32at(writer.buffer, 6 + len(val(msg.raw_body)) + 4 * j0) == msg.acks[len(msg.acks) - 1 - j0])",
        ]}},
        frame=[])
    reg.add_fn(c)


def reg_parse_header(reg, prop):
    """UDPMessageDeserializer._parse_message_header on a datagram that is not zero-coded: flags, id, offset, acks (order restored),
    raw body with the ack trailer snipped. The zero-coded branch needs C03's prefix properties and stays bounded-tier."""
    import io
    import hippolyzer.lib.base.serialization as se
    from hippolyzer.lib.base.message.msgtypes import PacketLayout
    reg_message(reg)
    reg_buffers(reg)
    rd = reg.classes["BufferReader"]
    rd.inline["scoped_seek"] = (SE_REL, "Reader.scoped_seek")
    if "Reader" not in reg.classes:
        reg.add_class(ClassDecl("Reader", fields={"endianness": "Str", "pod": "Bool"}, ctor=(SE_REL, "Reader.__init__")))
    rd.supers = ["Reader"]
    reg.add_class(ClassDecl("UDPMessageDeserializer", fields={"template_dict": "Opaque:Any", "settings": "Opaque:Any"}))
    reg.macros["be32at"] = (["s", "o"], "s[o] * 16777216 + s[o + 1] * 65536 + s[o + 2] * 256 + s[o + 3]")
    reg.add_fn(FnContract(key="hippolyzer.lib.base.message.udpdeserializer:_parse_msg_num", relpath=DES_REL, qualname="_parse_msg_num",
                          cls=None, prop=prop, verify=False, params={"reader": "Obj:BufferReader"}, param_names=["reader"],
                          returns="Tuple[Opaque:Any,Int]", may_raise={"ValueError": ""},
                          ensures=["reader._pos > old(reader._pos) and reader._pos <= old(reader._pos) + 4"], frame=["reader._pos"],
                          doc="variable-width message number (1..4 bytes): bounded tier checks it against every template (complete)"))
    acks_at = "len(data) - 1 - 4 * (j0 + 1)"
    reg.add_fn(FnContract(
        key="hippolyzer.lib.base.message.udpdeserializer:UDPMessageDeserializer._parse_message_header@plain", relpath=DES_REL,
        qualname="UDPMessageDeserializer._parse_message_header", cls="UDPMessageDeserializer", prop=prop,
        params={"data": "Bytes"}, param_names=["data"], returns="Obj:Message", ghost={"j0": "Int"},
        consts={"se": se, "io": io, "PacketLayout": PacketLayout},
        externals={"Message": {"returns": "Obj:Message", "post": ["len(result.acks) == 0"], "doc": "fresh placeholder message (no acks)"},
                   "self.template_dict.get_template_by_pair": {"returns": "Opt[Opaque:Tmpl]", "doc": "template lookup"},
                   "weakref.ref": {"returns": "Opaque:Any", "doc": "weak reference"}},
        requires=["len(data) >= 1", "(data[0] & 128) == 0"],
        may_raise={"exc.MessageDeserializationError": "len(data) <= 6 or ((data[0] & 16) != 0 and len(data) - 1 - 4 * data[len(data) - 1] <= 6)",
                   "exc.MessageTemplateNotFound": "", "ValueError": "", "IOError": "", "AttributeError": "False"},
        ensures=[
            "result.send_flags == data[0]", "val(result.packet_id) == be32at(data, 1)", "result.offset == data[5]",
            "implies((data[0] & 16) == 0, val(result.raw_body) == data[6:] and len(result.acks) == 0)",
            # ack trailer: count byte last, IDs big-endian in reverse order before it, snipped off the body
            "implies((data[0] & 16) != 0, len(result.acks) == data[len(data) - 1] and "
            "val(result.raw_body) == data[6:len(data) - 1 - 4 * data[len(data) - 1]])",
            f"implies((data[0] & 16) != 0 and 0 <= j0 and j0 < len(result.acks), result.acks[j0] == be32at(data, {acks_at}))",
        ],
        loops={0: {"havoc_sorts": {"acks": "IntList"},
                   # the postcondition reads the invariant at the mirrored index (acks come out in reverse wire order)
                   "ghost_instances": {"j0": ["_i - 1 - j0"]},
                   "ghost_pre": {"_a0": "acks"},
                   "lemmas": ["implies(0 <= j0 and j0 < _i, acks[_i - j0] == _a0[_i - 1 - j0])",
                              "acks[0] == be32at(data, msg_size + 4 * _i)", "len(acks) == len(_a0) + 1"],
                   "inv": ["reader.endianness == '!' and not reader.pod",
                           "len(acks) == _i", "reader._pos == msg_size + 4 * _i", "reader._len == len(data)", "reader._buffer == data",
                           "msg_size == len(data) - 1 - 4 * num_acks", "num_acks == data[len(data) - 1]", "msg_size > 6",
                           # acks are inserted at the head: after _i reads, acks[k] is the (_i-1-k)-th word read
                           "implies(0 <= j0 and j0 < _i, acks[_i - 1 - j0] == be32at(data, msg_size + 4 * j0))",
                           "msg.send_flags == data[0] and val(msg.packet_id) == be32at(data, 1)"]}},
        frame=None))

    # the zero-coded datagram: same header fields; the name and the extra field are read from an expansion of the first bytes
    # of the body. The window handed to the expander must cover what is read from its expansion - the message number (at most 4
    # bytes) and the extra field (offset bytes) - or be all that is left of the datagram: one expanded byte takes at most two
    # encoded ones (C03: a zero run of up to 255 is two bytes, anything else one).
    import dataclasses
    plain = reg.fns["hippolyzer.lib.base.message.udpdeserializer:UDPMessageDeserializer._parse_message_header@plain"]
    zc = dataclasses.replace(
        plain, key="hippolyzer.lib.base.message.udpdeserializer:UDPMessageDeserializer._parse_message_header@zerocoded",
        requires=["len(data) >= 1", "(data[0] & 128) != 0"],
        externals=dict(plain.externals, **{"self.zero_code_expand": {
            "returns": "Bytes", "record_as": "peek", "may_raise": "ValueError", "doc": "expansion of the first bytes of the body (C03)"}}),
        ensures=list(plain.ensures) + [
            "ncalls('peek') == 1",
            "called_with('peek', lambda arg0: arg0 == val(result.raw_body)[:len(arg0)] and "
            "(len(arg0) >= 2 * (4 + data[5]) or len(arg0) == len(val(result.raw_body))))"],
        also=[])
    reg.add_fn(zc)
