from contracts import c11_contracts
PID = "X11"
META = {"level": "other", "explanation": "scratch", "trusted_base": []}


def register(reg):
    c11_contracts.register_p(reg, PID)


BOUNDED = []
