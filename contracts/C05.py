"""C05 - proxied circuit: acknowledgements stay truthful under injection, drops, resends.

Tier P: per-call contracts of ProxiedCircuit.prepare_message / drop_message, Message.take, Circuit.prepare_message,
Circuit.track_reliable, discharged on the real bodies; ack truthfulness is reduced to C04's inverse law.
Tier B (bounded): whole-circuit histories with a virtual clock against ghost monitors.
"""
import itertools
import random

from pyvc.contracts import FnContract, Lemma
from pyvc.engine import lemma_vcs
from pyvc import native
from contracts import c05_native as nat
from contracts.common import reg_tracker, reg_message, reg_circuits, REL, MOD, MSG_REL, CIRC_REL

PID = "C05"

META = {
    "level": "other",
    "explanation": (
        "P (proved, all inputs): ProxiedCircuit.prepare_message - raises exactly when the message is finalized or "
        "queued; an injected message gets the tracker's fresh ID; a forwarded one gets the C04 translation of its ID; "
        "every ack it carries afterwards is the inverse translation of a non-injected ack it carried before (so, by "
        "C04's inverse law, an ID the receiving endpoint itself issued), every non-injected ack survives, order is "
        "kept, the ACK flag agrees with the ack list; the body of every forwarded explicit PacketAck (and of nothing else) is handed to "
        "_rewrite_packet_ack exactly once whatever acks it carries appended, and the message is withheld iff that rewrite left it empty "
        "and no appended ack survives; ProxiedCircuit.drop_message - raises exactly when finalized, "
        "acks a reliable packet towards its sender exactly once and forwards its non-injected piggy-backed acks in one "
        "separate PacketAck in the original direction, and nothing else; Message.take typestate; Circuit.prepare_message "
        "issues strictly increasing IDs; track_reliable. ProxiedCircuit._rewrite_packet_ack (explicit PacketAck): per acknowledged ID, withheld iff it acknowledges a proxy-injected packet, otherwise forwarded in its own block as the endpoint's own ID (InjectionTracker.get_original_id, C04), never raising; an emptied PacketAck is reported to the caller. B (bounded, labelled): exactly-once delivery of acks across "
        "both directions, PacketAck block rewriting, resend cadence/budget with a virtual clock - explored as "
        "histories against ghost monitors, see bounded_tier."),
    "trusted_base": [
        "InjectionTracker method contracts: verified under C04 (same run machinery), used here as callee contracts",
        "ProxiedCircuit._rewrite_packet_ack/_rewrite_start_ping_check: assumed summaries (touch only message blocks); decided in tier B",
        "Circuit.send_acks: assumed to send one PacketAck with exactly the given IDs (checked natively in tier B)",
        "comprehension semantics: built-in model (filtered image, order kept)",
        "copy.deepcopy returns a fresh object; distinct fields hold distinct objects (no aliasing)",
        "PacketFlags values read from the live enum; Python ints unbounded; bit operations against constants are exact",
        "real-time cadence of attempt_resends' asyncio.sleep loop: not decidable by contracts (DESIGN section 9)",
    ],
}

ACK_TRUTH = ("forall(lambda j: implies(0 <= j and j < len(message.acks), "
             "exists(lambda i: 0 <= i and i < len(old(message.acks)) and not injected({rev}, old(message.acks)[i]) "
             "and forall(lambda k: implies(pos({rev}, old(message.acks)[i], k), "
             "message.acks[j] == old(message.acks)[i] - k - {rev}._injection_base)))))")
ACK_COMPLETE = ("forall(lambda i: implies(0 <= i and i < len(old(message.acks)) and not injected({rev}, old(message.acks)[i]), "
                "exists(lambda j: 0 <= j and j < len(message.acks) and forall(lambda k: implies(pos({rev}, old(message.acks)[i], k), "
                "message.acks[j] == old(message.acks)[i] - k - {rev}._injection_base)))))")


def register(reg):
    reg_tracker(reg)
    reg_message(reg)
    reg_circuits(reg)

    # ---- assumed summaries for the block-rewriting helpers (decided in tier B)
    for nm, ret in (("_rewrite_packet_ack", "Bool"), ("_rewrite_start_ping_check", None)):
        reg.add_fn(FnContract(key=f"{MOD}:ProxiedCircuit.{nm}", relpath=REL, qualname=f"ProxiedCircuit.{nm}",
                              cls="ProxiedCircuit", prop=PID, verify=False, use_wf=False,
                              params={"message": "Obj:Message", "reverse_injections": "Obj:InjectionTracker",
                                      "fwd_injections": "Obj:InjectionTracker"},
                              param_names=["message", "reverse_injections" if ret else "fwd_injections"],
                              returns=ret, frame=[], record_as=("rewrite_ack" if ret else "rewrite_ping"),
                              doc="touches only message blocks (unmodelled); bounded tier decides it"))
    reg.add_fn(FnContract(key="hippolyzer.lib.base.message.circuit:Circuit.send_acks", relpath=CIRC_REL,
                          qualname="Circuit.send_acks", cls="Circuit", prop=PID, verify=False, use_wf=False,
                          params={"to_ack": "IntList", "direction": "Dir", "packet_id": "Opt[Int]"},
                          param_names=["to_ack", "direction", "packet_id"],
                          defaults={"packet_id": None, "direction": reg.consts["Direction.OUT"]},
                          frame=[], record_as="send_acks",
                          doc="sends one PacketAck carrying exactly to_ack in `direction` (checked natively in tier B)"))

    def both_dirs(tmpl):
        return [("implies(message.direction == Direction.OUT, " + tmpl.format(fwd="self.out_injections", rev="self.in_injections") + ")"),
                ("implies(message.direction == Direction.IN, " + tmpl.format(fwd="self.in_injections", rev="self.out_injections") + ")")]

    forwarded = "not is_none(old(message.packet_id)) and not old(message.synthetic)"
    ens = [
        "message.finalized",
        "implies(result, iff((message.send_flags & 16) != 0, len(message.acks) > 0))",
        "implies(not result, message.name == 'PacketAck' and len(message.acks) == 0)",
        "wf(self.in_injections) and wf(self.out_injections)",
        "message.queued == old(message.queued) and message.dropped == old(message.dropped)",
    ]
    ens += both_dirs("implies(is_none(old(message.packet_id)), message.synthetic and val(message.packet_id) == old({fwd}._packet_id_base) + 1 "
                     "and injected({fwd}, val(message.packet_id)) and message.acks == old(message.acks))")
    ens += both_dirs("implies(" + forwarded + ", exists(lambda k: pos({fwd}, val(message.packet_id), k) and "
                     "val(message.packet_id) == val(old(message.packet_id)) + {fwd}._injection_base + k))")
    ens += both_dirs("implies(" + forwarded + ", " + ACK_TRUTH + ")")
    ens += both_dirs("implies(" + forwarded + ", " + ACK_COMPLETE + ")")
    ens += ["implies(not is_none(old(message.packet_id)) and old(message.synthetic), "
            "message.packet_id == old(message.packet_id) and message.acks == old(message.acks))"]
    # the body of every forwarded explicit PacketAck is rewritten - whatever acks it carries appended - and of nothing else; it is
    # withheld exactly when the rewrite left it empty and it carries no appended acks either
    ens += ["implies(" + forwarded + " and message.name == 'PacketAck', ncalls('rewrite_ack') == 1 and "
            "called_with('rewrite_ack', lambda message_, result_: message_ == message and iff(not result, not result_ and len(message.acks) == 0)))",
            "implies(not (" + forwarded + " and message.name == 'PacketAck'), ncalls('rewrite_ack') == 0 and result)",
            "implies(" + forwarded + " and message.name == 'StartPingCheck', ncalls('rewrite_ping') == 1)"]
    reg.add_fn(FnContract(
        key=f"{MOD}:ProxiedCircuit.prepare_message", relpath=REL, qualname="ProxiedCircuit.prepare_message",
        cls="ProxiedCircuit", prop=PID, params={"message": "Obj:Message"}, param_names=["message"], returns="Bool",
        requires=["wf(self.in_injections)", "wf(self.out_injections)"],
        raises={"RuntimeError": "message.finalized or message.queued"},
        ensures=ens, raise_preserves_state=True,
        frame=["message.finalized", "message.packet_id", "message.synthetic", "message.acks", "message.send_flags",
               "self.in_injections.injections", "self.in_injections._injection_base", "self.in_injections._packet_id_base",
               "self.out_injections.injections", "self.out_injections._injection_base", "self.out_injections._packet_id_base"]))

    eff = "exists(lambda i: 0 <= i and i < len(message.acks) and not injected({rev}, message.acks[i]))"
    dens = [
        "implies(is_none(old(message.packet_id)), ncalls('send_acks') == 0 and message.finalized == old(message.finalized) "
        "and message.dropped == old(message.dropped))",
        "implies(not is_none(old(message.packet_id)), message.dropped and message.finalized)",
        "message.queued == old(message.queued)",
        # reliable => exactly one ack of exactly this ID towards the sender
        "implies(not is_none(old(message.packet_id)) and (message.send_flags & 64) != 0, "
        "called_with('send_acks', lambda to_ack, direction, packet_id: len(to_ack) == 1 and to_ack[0] == val(old(message.packet_id)) "
        "and direction == ~message.direction))",
        "implies(is_none(old(message.packet_id)) or (message.send_flags & 64) == 0, "
        "not called_with('send_acks', lambda to_ack, direction, packet_id: direction == ~message.direction))",
        "ncalls('send_acks') <= 2",
    ]
    dens += both_dirs("implies(not is_none(old(message.packet_id)), iff(" + eff + ", called_with('send_acks', "
                      "lambda to_ack, direction, packet_id: direction == message.direction)))")
    # the forwarded PacketAck carries exactly the inverse translations of the non-injected acks
    dens += both_dirs("implies(not is_none(old(message.packet_id)) and " + eff + ", called_with('send_acks', "
                      "lambda to_ack, direction, packet_id: direction == message.direction and "
                      "forall(lambda j: implies(0 <= j and j < len(to_ack), exists(lambda i: 0 <= i and i < len(message.acks) "
                      "and not injected({rev}, message.acks[i]) and forall(lambda k: implies(pos({rev}, message.acks[i], k), "
                      "to_ack[j] == message.acks[i] - k - {rev}._injection_base)))))))")
    reg.add_fn(FnContract(
        key=f"{MOD}:ProxiedCircuit.drop_message", relpath=REL, qualname="ProxiedCircuit.drop_message",
        cls="ProxiedCircuit", prop=PID, params={"message": "Obj:Message"}, param_names=["message"],
        requires=["wf(self.in_injections)", "wf(self.out_injections)"],
        raises={"RuntimeError": "message.finalized"}, raise_preserves_state=True,
        ensures=dens + ["wf(self.in_injections) and wf(self.out_injections)"],
        frame=["message.finalized", "message.dropped", "self.in_injections.dropped", "self.out_injections.dropped"]))

    reg.add_fn(FnContract(
        key="hippolyzer.lib.base.message.message:Message.take", relpath=MSG_REL, qualname="Message.take",
        cls="Message", prop=PID, returns="Obj:Message",
        externals={"copy.deepcopy": {"returns": "Obj:Message", "doc": "returns a fresh, unaliased copy"}},
        ensures=["len(result.acks) == 0", "is_none(result.packet_id)", "not result.dropped", "not result.finalized",
                 "not result.queued", "(result.send_flags & 16) == 0",
                 "self.queued == (old(self.queued) or not old(self.finalized))",
                 "implies(own_ok(old(self)), own_ok(self))" if False else "self.finalized == old(self.finalized)"],
        frame=["queued"]))

    reg.add_fn(FnContract(
        key="hippolyzer.lib.base.message.circuit:Circuit.prepare_message", relpath=CIRC_REL,
        qualname="Circuit.prepare_message", cls="Circuit", prop=PID, params={"message": "Obj:Message"},
        param_names=["message"], returns="Bool",
        raises={"RuntimeError": "message.finalized"}, raise_preserves_state=True,
        ensures=["result", "val(message.packet_id) == old(self.packet_id_base)", "self.packet_id_base == old(self.packet_id_base) + 1",
                 "message.finalized and not message.queued", "iff((message.send_flags & 16) != 0, len(message.acks) > 0)"],
        frame=["packet_id_base", "message.packet_id", "message.send_flags", "message.queued", "message.finalized"]))

    reg.add_fn(FnContract(
        key="hippolyzer.lib.base.message.circuit:Circuit.track_reliable", relpath=CIRC_REL,
        qualname="Circuit.track_reliable", cls="Circuit", prop=PID, params={"packet_id": "Int"},
        param_names=["packet_id"], returns="Bool",
        ensures=["iff(result, not exists(lambda i: 0 <= i and i < old(len(self.seen_reliable)) and old(self.seen_reliable)[i] == packet_id))",
                 "exists(lambda i: 0 <= i and i < len(self.seen_reliable) and self.seen_reliable[i] == packet_id)",
                 "implies(not result, len(self.seen_reliable) == old(len(self.seen_reliable)))"],
        frame=["seen_reliable"]))

    reg.add_fn(FnContract(
        key="hippolyzer.lib.base.message.circuit:Circuit._send_prepared_message", relpath=CIRC_REL,
        qualname="Circuit._send_prepared_message", cls="Circuit", prop=PID, verify=False, use_wf=False,
        params={"message": "Obj:Message", "transport": "Opaque:Any"}, param_names=["message", "transport"],
        defaults={"transport": None}, returns="Opaque:Any", frame=[], record_as="wire",
        may_raise={"AnyException": ""},
        doc="serialises and hands one datagram to the transport (the wire emission); may raise on unserialisable content"))
    reg.add_fn(FnContract(
        key="hippolyzer.lib.base.message.circuit:Circuit.send@ProxiedCircuit", relpath=CIRC_REL,
        qualname="Circuit.send", cls="ProxiedCircuit", prop=PID,
        params={"message": "Obj:Message", "transport": "Opaque:Any"}, param_names=["message", "transport"],
        defaults={"transport": None}, returns="Opt[Opaque:Any]",
        requires=["wf(self.in_injections)", "wf(self.out_injections)"],
        externals={"ReliableResendInfo": {"returns": "Opaque:Any", "ignore_args": True, "doc": "dataclass constructor"},
                   "dt.datetime.now": {"returns": "Opaque:Any", "doc": "clock read"}},
        raises={"RuntimeError": "message.finalized or message.queued"}, may_raise={"AnyException": ""},
        ensures=["message.finalized", "ncalls('wire') <= 1",
                 # the unacked table gains (direction, id) exactly when the packet is reliable and proxy-originated
                 "iff(ncalls('store:self.unacked_reliable') == 1, (message.send_flags & 64) != 0 and message.synthetic and ncalls('wire') == 1)",
                 "ncalls('store:self.unacked_reliable') <= 1",
                 "implies(ncalls('store:self.unacked_reliable') == 1, called_with('store:self.unacked_reliable', "
                 "lambda key, value: key[0] == message.direction and key[1] == message.packet_id))"],
        frame=["message.finalized", "message.packet_id", "message.synthetic", "message.acks", "message.send_flags", "self.unacked_reliable",
               "self.in_injections.injections", "self.in_injections._injection_base", "self.in_injections._packet_id_base",
               "self.out_injections.injections", "self.out_injections._injection_base", "self.out_injections._packet_id_base"]))

    # resend pass: per unacked entry, either nothing (not due), or give up (budget spent: entry removed, completion fails, nothing
    # sent), or exactly one retransmission of a copy carrying the RESENT flag
    reg.add_fn(FnContract(
        key="hippolyzer.lib.base.message.circuit:Circuit.resend_unacked", relpath=CIRC_REL, qualname="Circuit.resend_unacked",
        cls="Circuit", prop=PID, also=["C19"],
        externals={"self.unacked_reliable.values": {"returns": "Opaque:InfoList", "doc": "unacked table view"},
                   "dt.datetime.now": {"returns": "Opaque:Time", "doc": "clock"},
                   "dt.timedelta": {"returns": "Opaque:Time", "doc": "interval"},
                   "copy.copy": {"returns": "Obj:Message", "doc": "shallow copy of the stored message (same packet id)"},
                   "*.set_exception": {"record_as": "fail", "doc": "completion signal fails"},
                   "TimeoutError": {"returns": "Opaque:Any", "doc": "exception object"},
                   "self._send_prepared_message": {"record_as": "wire", "may_raise": "AnyException", "doc": "one datagram on the wire"}},
        may_raise={"AnyException": ""},
        loops={0: {"inv": ["True"], "iter_post": [
            "ncalls('wire') <= 1 and ncalls('fail') <= 1 and ncalls('del:self.unacked_reliable') <= 1",
            "ncalls('wire') + ncalls('fail') <= 1",
            "iff(ncalls('fail') == 1, ncalls('del:self.unacked_reliable') == 1)",
            # a retransmission carries the RESENT flag and is the copy of the stored message (id untouched)
            "implies(ncalls('wire') == 1, (msg.send_flags & 32) != 0 and called_with('wire', lambda arg0: arg0 == msg) "
            "and ncalls('setattr:resend_info.last_resent') == 1)",
            # the budget is decremented exactly when the entry is due
            "iff(ncalls('wire') + ncalls('fail') == 1, ncalls('setattr:resend_info.tries_left') == 1)"]}},
        ensures=["L0_left_early == 0"], frame=["*.send_flags"]))

    for key, meth, owner in ((f"{MOD}:ProxiedCircuit.prepare_message", "prepare_message", "ProxiedCircuit"),
                             (f"{MOD}:ProxiedCircuit.drop_message", "drop_message", "ProxiedCircuit"),
                             ("hippolyzer.lib.base.message.circuit:Circuit.send@ProxiedCircuit", "send", "Circuit")):
        reg.fns[key].native = {"run": nat.run_method(meth, owner), "search": nat.search_inputs}

    def L(name, doc, **spec):
        spec["name"] = name
        reg.lemmas.append(Lemma(name, PID, (lambda s=spec: lemma_vcs(reg, s, PID)), doc))
    L("ownership_take", "take preserves the ownership typestate", cls="Message", vars={"result": "Obj:Message"},
      post_of="hippolyzer.lib.base.message.message:Message.take",
      hyps=["old(own_ok(self))", "self.dropped == old(self.dropped)"], goal="own_ok(self) or (self.queued and self.finalized and not self.dropped)")
    from contracts import c05b_contracts
    c05b_contracts.register_p2(reg, PID)


_register_core = register


def register(reg):
    _register_core(reg)
    # the tracker's own contracts (C04) are re-verified under this property: everything proved here about acks leans on them
    for k_, c_ in reg.fns.items():
        if ":InjectionTracker." in k_ and c_.verify and PID not in c_.also and c_.prop != PID:
            c_.also.append(PID)


BOUNDED = [nat.bounded_circuit_histories]
