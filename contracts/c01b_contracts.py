"""Tier-P contracts for C01, second part: block framing in UDPMessageSerializer._serialize_block (count byte of Variable blocks,
fixed count of Multiple blocks, every template variable of every block instance exactly once and in template order)."""
from pyvc.contracts import ClassDecl, FnContract
from contracts import udp_common

SREL = "hippolyzer/lib/base/message/udpserializer.py"


def register_p2(reg, prop):
    import hippolyzer.lib.base.serialization as se
    from hippolyzer.lib.base.message.msgtypes import MsgBlockType
    import hippolyzer.lib.base.exc as exc
    udp_common.reg_buffers(reg)
    o = "Opaque:Any"
    if "UDPMessageSerializer" not in reg.classes:
        reg.add_class(ClassDecl("UDPMessageSerializer", fields={"template_dict": o}))
    reg.add_class(ClassDecl("TmplBlock", fields={"block_type": "Int", "number": "Int", "variables": "Opaque:VarList", "name": "Str"}))
    reg.exc_parents.setdefault("exc.MessageSerializationError", "Exception")
    reg.exc_parents.setdefault("MessageSerializationError", "Exception")
    reg.add_fn(FnContract(
        key="hippolyzer.lib.base.message.udpserializer:UDPMessageSerializer._serialize_block", relpath=SREL,
        qualname="UDPMessageSerializer._serialize_block", cls="UDPMessageSerializer", prop=prop,
        params={"writer": "Obj:BufferWriter", "tmpl_block": "Obj:TmplBlock", "block_list": "Opaque:BlockList"},
        param_names=["writer", "tmpl_block", "block_list"],
        consts={"se": se, "MsgBlockType": MsgBlockType, "exc": exc},
        requires=["tmpl_block.block_type >= 0 and tmpl_block.block_type <= 2"],
        externals={
            "self._serialize_var": {"record_as": "var", "may_raise": "AnyException", "modifies": ["writer.buffer"],
                                    "doc": "one variable (own contracts: one per (type, size) of the live template)"},
            "*.get": {"returns": o, "record_as": "lookup", "record_result": True, "doc": "value of the variable in this block instance, or None"},
        },
        # a count that does not fit the count byte is rejected (struct.error from the U8 write), never written truncated
        may_raise={"AnyException": "", "struct.error": f"tmpl_block.block_type == {MsgBlockType.MBT_VARIABLE} and len(block_list) > 255"},
        raises={"exc.MessageSerializationError": f"tmpl_block.block_type == {MsgBlockType.MBT_MULTIPLE} and tmpl_block.number != len(block_list)"},
        loops={
            "for block in block_list": {
                # checked where the loop is entered (_i == 0): what has been written so far is the old buffer plus, exactly for a
                # Variable block, one byte holding the number of instances
                "inv": [f"_i > 0 or implies(tmpl_block.block_type != {MsgBlockType.MBT_VARIABLE}, writer.buffer == old(writer.buffer))",
                        f"_i > 0 or implies(tmpl_block.block_type == {MsgBlockType.MBT_VARIABLE}, len(writer.buffer) == len(old(writer.buffer)) + 1 and "
                        "writer.buffer[len(old(writer.buffer))] == len(block_list) and writer.buffer[:len(old(writer.buffer))] == old(writer.buffer))"],
                # one block instance: the inner loop runs over all template variables
                "iter_post": ["defined('_n') and _n == len(tmpl_block.variables) and L1_left_early == 0"]},
            "for template_var in tmpl_block.variables": {
                "ghost_init": {"_n": "0"}, "ghost_step": {"_n": "_n + ncalls('var')"}, "inv": ["_n == _i"],
                # one template variable: written exactly once, with the value this block instance holds under that variable's name
                "iter_post": ["ncalls('var') == 1 and ncalls('lookup') == 1",
                              "called_with('lookup', lambda arg0, result: arg0 == template_var.name and "
                              "called_with('var', lambda arg0, arg1, arg2, arg3: arg0 == writer and arg1 == result and arg2 == template_var and arg3 == block.fill_missing))"]},
        },
        ensures=[
            "L0_left_early == 0",
            # the count byte: exactly for Variable blocks, exactly the number of instances, appended to what was there
            f"implies(tmpl_block.block_type == {MsgBlockType.MBT_VARIABLE}, len(block_list) <= 255)",
        ],
        frame=["writer.buffer"]))
    from pyvc.contracts import alias_loops_by_order
    alias_loops_by_order(reg.fns["hippolyzer.lib.base.message.udpserializer:UDPMessageSerializer._serialize_block"])
