"""Tier-P contract for C19 (and C05), second part: Circuit.collect_acks - every acknowledgement carried by an incoming message is
looked up once in the table of outstanding reliable sends (under the opposite direction), removed there, and the waiting future
is resolved exactly when there was such an entry."""
from pyvc.contracts import FnContract, alias_loops_by_order
from contracts.common import reg_message, reg_circuits, CIRC_REL


def register_p2(reg, prop):
    reg_message(reg)
    reg_circuits(reg)
    reg.add_fn(FnContract(
        key="hippolyzer.lib.base.message.circuit:Circuit.collect_acks", relpath=CIRC_REL, qualname="Circuit.collect_acks", cls="Circuit", prop=prop,
        params={"message": "Obj:Message"}, param_names=["message"], use_wf=False,
        externals={
            "effective_acks.extend": {"modifies": ["effective_acks"], "doc": "IDs of an explicit PacketAck appended (unmodelled block data)"},
            "self.unacked_reliable.pop": {"returns": "Opt[Opaque:ResendInfo]", "record_as": "pop", "record_result": True,
                                          "doc": "entry of the outstanding-sends table, removed, or None"},
            "resend_info.completed.set_result": {"record_as": "resolve", "doc": "the sender's future"},
            # not called by the current body; declared so that a lookup that does not remove the entry stays within reach
            "self.unacked_reliable.get": {"returns": "Opt[Opaque:ResendInfo]", "doc": "lookup without removal"},
        },
        loops={"for ack in effective_acks": {
            "ghost_init": {"_n": "0"}, "ghost_step": {"_n": "_n + ncalls('pop')"}, "inv": ["_n == _i"],
            # one acknowledged ID: one lookup-and-remove under (opposite direction, ID); the future is resolved iff there was an entry
            "iter_post": ["ncalls('pop') == 1 and ncalls('resolve') <= 1",
                          "called_with('pop', lambda arg0: arg0[1] == ack and arg0[0] != message.direction)",
                          "called_with('pop', lambda result: iff(ncalls('resolve') == 1, not is_none(result) and truthy(val(result))))"]}},
        ensures=["L0_left_early == 0 and defined('_n')",
                 # without an explicit PacketAck body, exactly the piggybacked acks are processed
                 "implies(message.name != 'PacketAck', _n == len(message.acks))"],
        frame=["self.unacked_reliable"]))
    alias_loops_by_order(reg.fns["hippolyzer.lib.base.message.circuit:Circuit.collect_acks"])
