"""Tier-P contracts for C20: chunking of a file transfer (Xfer.__init__) and the completion condition."""
from pyvc.contracts import ClassDecl, FnContract

XREL = "hippolyzer/lib/base/xfer_manager.py"


def register_p(reg, prop):
    from hippolyzer.lib.base.message.msgtypes import MsgType
    reg.add_class(ClassDecl("Xfer", fields={"xfer_id": "Opt[Int]", "chunks": "Opaque:Dict", "expected_size": "Opt[Int]", "size_known": "Opaque:Any",
                                            "error_code": "Int", "next_ackable": "Int", "turbo": "Bool", "direction": "Opaque:Any",
                                            "expected_chunks": "Opt[Int]", "_future": "Opaque:Any"},
                            inline={"done": (XREL, "Xfer.done"), "mark_done": (XREL, "Xfer.mark_done")}))
    reg.add_fn(FnContract(
        key="hippolyzer.lib.base.xfer_manager:Xfer.__init__", relpath=XREL, qualname="Xfer.__init__", cls="Xfer", prop=prop, use_wf=False,
        params={"xfer_id": "Opt[Int]", "direction": "Opaque:Any", "data": "Opt[Bytes]", "turbo": "Bool"},
        param_names=["xfer_id", "direction", "data", "turbo"], consts={"MsgType": MsgType},
        externals={"asyncio.Future": {"returns": "Opaque:Any", "doc": "future"},
                   "TemplateDataPacker.pack": {"returns": "Bytes", "post": "len(result) == 4", "doc": "S32 length prefix (4 bytes)"}},
        loops={0: {"ghost_init": {"_full": "data", "_flat": "b''"},
                   "ghost_step": {"_flat": "_flat + stored_value('store:self.chunks')"},
                   "inv": ["_flat + data == _full", "implies(len(data) > 0, len(_flat) == chunk_num * 1150)", "chunk_num >= 0"],
                   "iter_post": [
                       # chunks are cut at 1150 bytes, stored under consecutive keys from 0, none empty
                       "stored_key('store:self.chunks') == chunk_num - 1",
                       "len(stored_value('store:self.chunks')) > 0 and len(stored_value('store:self.chunks')) <= 1150",
                       "ncalls('store:self.chunks') == 1"]}},
        # at exit the concatenation of the chunks in key order is exactly the (length-prefixed) payload
        ensures=["implies(defined('_flat'), _flat == _full and L0_left_early == 0)"],
        frame=None))
