"""Tier-P contracts for C16, second part: ProxiedRegion.update_caps (which granted URLs enter the table) and _recalc_caps (the
reverse URL index is rebuilt from exactly the entries of the table)."""
from pyvc.contracts import ClassDecl, FnContract, alias_loops_by_order

RREL = "hippolyzer/lib/proxy/region.py"
RMOD = "hippolyzer.lib.proxy.region"


def register_p2(reg, prop):
    from hippolyzer.lib.proxy.caps import CapType
    o = "Opaque:Any"
    reg.add_class(ClassDecl("ProxiedRegionCaps", fields={"caps": "Opaque:Caps", "_caps_url_lookup": "Opaque:Lookup"}))
    reg.add_fn(FnContract(
        key=f"{RMOD}:ProxiedRegion.update_caps", relpath=RREL, qualname="ProxiedRegion.update_caps", cls="ProxiedRegionCaps", prop=prop,
        params={"caps": "Opaque:Grant"}, param_names=["caps"], consts={"CapType": CapType},
        externals={
            "caps.items": {"returns": "Opaque:Items", "doc": "(name, url) pairs of the grant"},
            "cap_url.startswith": {"returns": "Bool", "record_as": "is_http", "record_result": True, "doc": "str.startswith('http')"},
            "self.caps.add": {"record_as": "add", "doc": "prepend to the by-name multimap (CapsMultiDict.add)"},
            "self._recalc_caps": {"record_as": "recalc", "doc": "rebuild of the reverse URL index (own contract)"},
        },
        loops={"for cap_name, cap_url in caps.items()": {
            "elem_sort": "Tuple[Str,Opaque:Val]", "inv": ["True"],
            # one granted pair: it enters the table (as a NORMAL cap under its own name, with its own URL) exactly when the URL is an
            # http(s) string, and the reverse index is rebuilt right after
            "iter_post": ["ncalls('add') <= 1 and ncalls('recalc') == ncalls('add')",
                          "iff(ncalls('add') == 1, isa(cap_url, 'str') and called_with('is_http', lambda arg0, result: arg0 == 'http' and result))",
                          "implies(ncalls('add') == 1, called_with('add', lambda arg0, arg1: arg0 == cap_name and arg1[0] == CapType.NORMAL and arg1[1] == cap_url))"]}},
        ensures=["L0_left_early == 0"], frame=["caps", "_caps_url_lookup"]))
    alias_loops_by_order(reg.fns[f"{RMOD}:ProxiedRegion.update_caps"])
    reg.add_fn(FnContract(
        key=f"{RMOD}:ProxiedRegion._recalc_caps", relpath=RREL, qualname="ProxiedRegion._recalc_caps", cls="ProxiedRegionCaps", prop=prop,
        externals={
            "self._caps_url_lookup.clear": {"record_as": "clear", "modifies": ["self._caps_url_lookup"], "doc": "reverse index emptied"},
            "self.caps.items": {"returns": "Opaque:Items", "doc": "all (name, (type, url)) entries, every entry of every name"},
        },
        loops={"for name, cap_info in self.caps.items()": {
            "elem_sort": "Tuple[Str,Tuple[Opaque:CapType,Str]]",
            "inv": ["True"],
            # one entry: indexed under its own URL, pointing back at its own type and name
            "iter_post": ["ncalls('store:self._caps_url_lookup') == 1 and ncalls('clear') == 0",
                          "stored_key('store:self._caps_url_lookup') == cap_info[1]",
                          "stored_value('store:self._caps_url_lookup')[0] == cap_info[0] and stored_value('store:self._caps_url_lookup')[1] == name"]}},
        # the old index is dropped first, once, and the walk covers the whole table
        ensures=["ncalls('clear') == 1 and L0_left_early == 0"], frame=["_caps_url_lookup"]))
    alias_loops_by_order(reg.fns[f"{RMOD}:ProxiedRegion._recalc_caps"])
