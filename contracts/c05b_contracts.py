"""Tier-P contract for C05, second part: ProxiedCircuit._rewrite_packet_ack - the explicit PacketAck message. Each acknowledged ID is
translated back to the ID the receiving endpoint knows (InjectionTracker.get_original_id, proved under C04) unless it acknowledges a
packet the proxy injected, in which case it is withheld; no acknowledgement is invented, duplicated or left untranslated."""
from pyvc.contracts import FnContract, alias_loops_by_order
from contracts.common import reg_tracker, reg_message, reg_circuits, REL, MOD


def register_p2(reg, prop):
    reg_tracker(reg)
    reg_message(reg)
    reg_circuits(reg)
    o = "Opaque:Any"
    reg.add_fn(FnContract(
        key=f"{MOD}:ProxiedCircuit._rewrite_packet_ack@blocks", relpath=REL, qualname="ProxiedCircuit._rewrite_packet_ack", cls="ProxiedCircuit", prop=prop,
        params={"message": "Opaque:Msg", "reverse_injections": "Obj:InjectionTracker"}, param_names=["message", "reverse_injections"], returns="Bool",
        requires=["wf(reverse_injections)"],
        externals={
            "sub:message['Packets']": {"returns": "Opaque:BlockList", "doc": "the PacketAck's blocks"},
            "sub:block['ID']": {"returns": "Int", "record_as": "acked", "record_result": True, "doc": "one acknowledged packet ID"},
            "new_blocks.append": {"record_as": "keep", "doc": "block stays in the message"},
        },
        loops={"for block in message['Packets']": {
            "havoc_sorts": {"new_blocks": "Opaque:BlockList"},
            "inv": ["wf(reverse_injections)"],
            "iter_post": [
                "ncalls('acked') == 1 and ncalls('keep') <= 1",
                # withheld exactly when it acknowledges a packet the proxy injected itself
                "called_with('acked', lambda result: iff(ncalls('keep') == 1, not injected(reverse_injections, result)))",
                # a forwarded acknowledgement carries the endpoint's own ID for that packet (the inverse translation), in that very block
                "implies(ncalls('keep') == 1, ncalls('store:block') == 1 and called_with('keep', lambda arg0: arg0 == block) and "
                "called_with('acked', lambda result: forall(lambda k: implies(pos(reverse_injections, result, k), "
                "stored_value('store:block') == result - k - reverse_injections._injection_base))))",
                "implies(ncalls('keep') == 0, ncalls('store:block') == 0)"]}},
        ensures=[
            "L0_left_early == 0",
            # whatever happens to the message afterwards (it is still sent if it carries appended acks), its body holds exactly the kept
            # blocks - never an acknowledgement for a proxy-injected packet; an emptied body is reported to the caller
            "ncalls('store:message') == 1 and called_with('store:message', lambda key, value: key == 'Packets' and value == new_blocks)",
            "iff(result, truthy(new_blocks))"],
        frame=[]))
    alias_loops_by_order(reg.fns[f"{MOD}:ProxiedCircuit._rewrite_packet_ack@blocks"])
