"""C12 bounded tier: LLSD forms are faithful.

Two drivers, both run the REAL code (hippolyzer.lib.base.llsd, .message.llsd_msg_serializer, .message.data_packer,
.serialization.BinaryLLSD, hippolyzer.lib.proxy.region.EventQueueManager) against an oracle that shares nothing with it:

* bounded_llsd_messages - template-generated messages -> LLSD (dict / XML / binary / notation / injected EQ event) -> message
* bounded_llsd_codecs   - generated LLSD trees (depth <= 4) through every formatter/parser pair the library offers, dates as
                          instants under three process time zones (sub-processes), notation output free of raw newlines

The oracle is a canonical form: (LLSD type tag, payload).  Reals are compared bitwise, dates as integer microseconds since the
epoch (a naive datetime denotes UTC - the LLSD convention, it is what the XML / notation parsers return), maps as unordered.

Failure keys are "<area>/<class>/<detail>/<codec or stage>" so that one defect is one key, e.g. llsd/type/uri->string/binary,
llsd/date-shift/naive-datetime/nonutc/zip, message/raise/serialize-dict/MVT_LLQuaternion.
"""
import datetime
import hashlib
import json
import os
import random
import struct
import subprocess
import sys
import time
import uuid

UTC = datetime.timezone.utc
EPOCH_N = datetime.datetime(1970, 1, 1)
EPOCH_A = datetime.datetime(1970, 1, 1, tzinfo=UTC)
ONE_US = datetime.timedelta(microseconds=1)

# POSIX TZ strings: no dependence on an installed zoneinfo database
TZS = [("utc", "UTC0"),
       ("us-eastern", "EST5EDT,M3.2.0,M11.1.0"),
       ("chatham", "<+1245>-12:45<+1345>,M9.5.0/2:45,M4.1.0/3:45")]


# ------------------------------------------------------------------------------------------------ canonical forms (the oracle)
def _bits(x):
    x = float(x)
    if x != x:
        return "nan"
    return struct.pack(">d", x).hex()


def instant_us(v):
    """integer microseconds since 1970-01-01T00:00:00Z; naive datetimes and plain dates denote UTC"""
    if isinstance(v, datetime.datetime):
        if v.tzinfo is not None and v.utcoffset() is not None:
            return (v - EPOCH_A) // ONE_US
        return (v - EPOCH_N) // ONE_US
    return (datetime.datetime.combine(v, datetime.time(0)) - EPOCH_N) // ONE_US


def date_kind(v):
    if isinstance(v, datetime.datetime):
        return "aware-datetime" if (v.tzinfo is not None and v.utcoffset() is not None) else "naive-datetime"
    return "date"


def canon(v):
    """(tag, payload, note): tag+payload are what must survive, note only labels the Python form of the input"""
    from hippolyzer.lib.base import llsd
    from hippolyzer.lib.base.datatypes import TupleCoord
    if v is None:
        return ("undef", None, None)
    if isinstance(v, bool):
        return ("boolean", v, None)
    if isinstance(v, int):
        return ("integer", int(v), None)
    if isinstance(v, float):
        return ("real", _bits(v), None)
    if isinstance(v, uuid.UUID):
        return ("uuid", v.hex, None)
    if isinstance(v, llsd.uri):
        return ("uri", str(v), None)
    if isinstance(v, str):
        return ("string", str(v), None)
    if isinstance(v, (bytes, bytearray)):
        return ("binary", bytes(v).hex(), None)
    if isinstance(v, datetime.date):
        return ("date", instant_us(v), date_kind(v))
    if isinstance(v, TupleCoord):
        return ("array", tuple(canon(float(x)) for x in v), type(v).__name__)
    if isinstance(v, (list, tuple)):
        return ("array", tuple(canon(x) for x in v), None)
    if isinstance(v, dict):
        return ("map", tuple(sorted(((k if isinstance(k, str) else repr(k)), canon(x)) for k, x in v.items())), None)
    return ("?" + type(v).__name__, repr(v), None)


def first_diff(a, b, path=()):
    """first place where two canonical trees differ (ignoring notes): (path, a_node, b_node) or None"""
    if a[0] != b[0]:
        return (path, a, b)
    if a[0] == "array":
        if len(a[1]) != len(b[1]):
            return (path, a, b)
        for i, (x, y) in enumerate(zip(a[1], b[1])):
            d = first_diff(x, y, path + (i,))
            if d:
                return d
        return None
    if a[0] == "map":
        if [k for k, _ in a[1]] != [k for k, _ in b[1]]:
            return (path, a, b)
        for (k, x), (_, y) in zip(a[1], b[1]):
            d = first_diff(x, y, path + (k,))
            if d:
                return d
        return None
    return None if a[1] == b[1] else (path, a, b)


def describe(v):
    """JSON-serialisable, unambiguous rendering of a generated value (for samples / replay inputs)"""
    from hippolyzer.lib.base import llsd
    from hippolyzer.lib.base.datatypes import TupleCoord
    if v is None or isinstance(v, (bool, int)):
        return v
    if isinstance(v, float):
        return {"real": repr(v)}
    if isinstance(v, uuid.UUID):
        return {"uuid": str(v), "class": type(v).__module__.split(".")[0] + "." + type(v).__name__}
    if isinstance(v, llsd.uri):
        return {"uri": str(v)}
    if isinstance(v, str):
        return {"string": v}
    if isinstance(v, (bytes, bytearray)):
        return {"binary_hex": bytes(v).hex()}
    if isinstance(v, datetime.date):
        return {"date": v.isoformat(), "python_form": date_kind(v)}
    if isinstance(v, TupleCoord):
        return {type(v).__name__: [repr(float(x)) for x in v]}
    if isinstance(v, tuple):
        return {"tuple": [describe(x) for x in v]}
    if isinstance(v, list):
        return [describe(x) for x in v]
    if isinstance(v, dict):
        return {"map": [[k, describe(x)] for k, x in v.items()]}
    return {"repr": repr(v)}


def _h(obj):
    return hashlib.sha1(json.dumps(obj, sort_keys=True, default=repr).encode()).hexdigest()[:16]


def tz_class():
    offs = {time.localtime(t).tm_gmtoff for t in (0, 1610000000, 1626000000, 1636000000)}
    return "utc" if offs == {0} else "nonutc"


class Failures:
    def __init__(self):
        self.items = []

    def add(self, key, clause, inp, observed):
        if sum(1 for f in self.items if f["key"] == key) < 2:
            self.items.append({"key": key, "clause": clause, "input": inp, "observed": str(observed)[:600]})

    def merge(self, others):
        for f in others:
            if sum(1 for g in self.items if g["key"] == f["key"]) < 2:
                self.items.append(f)


# ------------------------------------------------------------------------------------------------ LLSD codecs under test
def _codecs():
    from hippolyzer.lib.base import llsd
    import hippolyzer.lib.base.serialization as se

    def buffered_enc(v):
        w = se.BufferWriter("<")
        w.write(se.BinaryLLSD, v)
        w.write_bytes(b"\x5dTAIL")  # a ']' right after the value: the parser must stop exactly at the value's end
        return w.copy_buffer()

    def buffered_dec(data):
        r = se.BufferReader("<", data)
        v = r.read(se.BinaryLLSD)
        rest = r.read_bytes(len(r))
        if rest != b"\x5dTAIL":
            raise _Extra(f"buffered binary parser did not stop at the end of the value: {len(rest)} bytes left ({rest[:12]!r}), 5 expected")
        return v

    def nohdr(v):
        return llsd.format_binary(v, with_header=False)

    return [
        # name, family, format, parse
        ("binary", "binary", llsd.format_binary, llsd.parse_binary),
        ("binary-nohdr", "binary", nohdr, llsd.parse_binary),
        ("binary-cpphdr", "binary", lambda v: b"<? LLSD/Binary ?>\n" + nohdr(v), llsd.parse_binary),
        ("binary-sniff", "binary", llsd.format_binary, llsd.parse),
        ("zip", "binary", llsd.zip_llsd, llsd.unzip_llsd),
        ("binary-buffered", "binary", buffered_enc, buffered_dec),
        ("notation", "notation", llsd.format_notation, llsd.parse_notation),
        ("notation-sniff", "notation", llsd.format_notation, llsd.parse),
        ("xml", "xml", llsd.format_xml, llsd.parse_xml),
        ("xml-sniff", "xml", llsd.format_xml, llsd.parse),
    ]


class _Extra(Exception):
    pass


def _node_detail(node, tzc=None):
    """label of a canonical input node for failure keys (the process time zone class only where an instant is compared)"""
    tag, _, note = node
    if tag == "date":
        return f"{note or 'date'}/{tzc}" if tzc else (note or "date")
    if tag == "array" and note:
        return note
    return tag


def check_value(v, codec, tzc):
    """None if v survives codec, else (class, detail, observed)"""
    name, family, fmt, parse = codec
    exp = canon(v)
    try:
        enc = fmt(v)
    except Exception as ex:  # noqa
        return ("raise-format", _node_detail(exp), f"{name} formatter raised {type(ex).__name__}: {ex}")
    if not isinstance(enc, (bytes, bytearray)):
        return ("format-type", _node_detail(exp), f"{name} formatter returned {type(enc).__name__}, not bytes")
    if family == "notation" and b"\n" in enc:
        return ("notation-newline", _node_detail(exp), f"notation output contains a raw newline: {bytes(enc)[:120]!r}")
    try:
        got = parse(bytes(enc))
    except _Extra as ex:
        return ("overrun", _node_detail(exp), str(ex))
    except Exception as ex:  # noqa
        return ("raise-parse", _node_detail(exp), f"{name} parser raised {type(ex).__name__}: {ex} on {bytes(enc)[:120]!r}")
    d = first_diff(exp, canon(got))
    if d is None:
        return None
    path, a, b = d
    where = "/".join(str(p) for p in path) or "<top>"
    if a[0] != b[0]:
        return ("type", f"{a[0]}->{b[0]}", f"at {where}: LLSD {a[0]} came back as {b[0]} ({str(b[1])[:80]!r}) through {name}")
    if a[0] == "date":
        delta = b[1] - a[1]
        cls = "date-subsecond" if abs(delta) < 1_000_000 else "date-shift"
        # a time zone can only move an instant by whole minutes: Python form and zone class are part of the key for shifts only
        return (cls, _node_detail(a, tzc) if cls == "date-shift" else "date", f"at {where}: instant moved by {delta} microseconds through {name} "
                                            f"(expected {a[1]} us since epoch, got {b[1]}; input form {a[2]})")
    if a[0] in ("array", "map"):
        return ("shape", _node_detail(a), f"at {where}: {a[0]} came back with different members through {name}: "
                                               f"{str(b[1])[:120]}")
    return ("value", _node_detail(a), f"at {where}: {a[0]} {str(a[1])[:80]!r} came back as {str(b[1])[:80]!r} through {name}")


def children(v):
    from hippolyzer.lib.base.datatypes import TupleCoord
    if isinstance(v, TupleCoord):
        return []
    if isinstance(v, (list, tuple)):
        return list(v)
    if isinstance(v, dict):
        return list(v.values())
    return []


def shrink(v, codec, tzc):
    """smallest sub-value that still fails on its own"""
    while True:
        for c in children(v):
            if check_value(c, codec, tzc) is not None:
                v = c
                break
        else:
            return v


CLAUSES = {
    "raise-format": "every generated LLSD value is accepted by the formatter",
    "raise-parse": "the library's parser accepts what the library's formatter produced",
    "format-type": "formatters return bytes",
    "notation-newline": "no string value ever puts a raw newline into notation output",
    "overrun": "the stream parser consumes exactly the bytes of one value",
    "type": "an LLSD value keeps its LLSD type through format + parse",
    "date-subsecond": "an LLSD date denotes the same instant after format + parse (sub-second part lost or changed)",
    "date-shift": "an LLSD date denotes the same instant after format + parse in any process time zone (moved by >= 1 s)",
    "shape": "arrays and maps keep their members through format + parse",
    "value": "an LLSD value is unchanged by format + parse",
}


def run_case(v, codecs, tzc, fails, stats, section):
    for codec in codecs:
        stats["evals"] += 1
        r = check_value(v, codec, tzc)
        if r is None:
            continue
        m = shrink(v, codec, tzc)
        r2 = check_value(m, codec, tzc) or r
        cls, detail, obs = r2
        fails.add(f"llsd/{cls}/{detail}/{codec[1]}", CLAUSES.get(cls, cls),
                  {"section": section, "codec": codec[0], "TZ": os.environ.get("TZ"), "minimal_value": describe(m),
                   "generated_value": describe(v) if m is not v else "same"}, obs)


# ------------------------------------------------------------------------------------------------ generators
XML_BAD = set(range(0, 32)) - {9, 10}  # \r is legal XML but normalised to \n by every XML parser: not "XML-legal text" here


def xml_legal(s):
    for ch in s:
        o = ord(ch)
        if o in XML_BAD or o in (0xFFFE, 0xFFFF) or 0xD800 <= o <= 0xDFFF:
            return False
    return True


STR_BOUNDARY_XML = ["", "a", "\n", "a\nb", "\n\n", "line1\nline2\n", "\t", "'", '"', "\\", "\\n", "\\'", "'''", "a'b\"c\\d\ne", "é", "中",
                    "\U0001F600", "]]>", "<&>", "&amp;", " lead", "trail ", " ", "\x7f", "\x85", "\u2028", "{'a':i1}", "i1", "!", "true",
                    "b64\"AA==\"", "<?llsd/binary?>\n", "<? LLSD/Binary ?>", "<llsd>", "\ufffd", "x" * 300]
STR_BOUNDARY_ANY = ["\r", "\r\n", "a\r\nb", "\x00", "a\x00b", "\x01", "\x0b", "\x0c", "\x1b[0m", "\ufffe", "\uffff", "\n\r"]
URI_CHARS = "abcdefghijklmnopqrstuvwxyzABCDEFGHIJKLMNOPQRSTUVWXYZ0123456789-._~:/?#[]@!$&'()*+,;=%"
URI_BOUNDARY = ["", "http://example.com/", "https://sim1.agni.example:12043/cap/0b4e-11?a=b&c=%20d#frag", "urn:uuid:1-2", "a'b", "secondlife:///app/x/y(1)",
                "mailto:a@b.c", "//x", "?", "#"]
KEY_CHARS = "abcXYZ019_-. '\"\\<&>:,{}[]é中!"
KEY_BOUNDARY = ["", "a", "k", "message", "body", "'", '"', "\\", "a'b", "<&>", "é中", " ", "a b", "{", "]", ":", ",", "k" * 70]


class Gen:
    def __init__(self, rng):
        self.rng = rng
        from hippolyzer.lib.base import llsd
        from hippolyzer.lib.base import datatypes as dt
        self.llsd, self.dt = llsd, dt

    # -- leaves
    def gen_int(self):
        r = self.rng
        return r.choice([0, 1, -1, 2 ** 31 - 1, -2 ** 31, 255, 256, 65535, 65536, r.randint(-2 ** 31, 2 ** 31 - 1), r.randint(-1000, 1000)])

    def gen_real(self):
        r = self.rng
        c = r.random()
        if c < 0.4:
            return r.choice([0.0, -0.0, 1.0, -1.0, 0.1, 1e-5, 1.5, 1e300, -1e300, 5e-324, 2.2250738585072014e-308, 1.7976931348623157e308,
                             float("inf"), float("-inf"), float("nan"), 1e16, 123456789.125, 3.4028234663852886e38, 1 / 3])
        if c < 0.7:
            return r.uniform(-1e6, 1e6)
        return struct.unpack(">d", struct.pack(">Q", r.getrandbits(64)))[0]

    def gen_uuid(self):
        r = self.rng
        i = r.choice([0, 2 ** 128 - 1, r.getrandbits(128), r.getrandbits(128)])
        return self.dt.UUID(int=i) if r.random() < 0.6 else uuid.UUID(int=i)

    def gen_binary(self):
        r = self.rng
        c = r.random()
        if c < 0.35:
            return r.choice([b"", b"\x00", b"\n", b"\xff", b"abc", b"\x00\xff\n\r", b"]", b"}", b"<?llsd/binary?>\n", bytes(range(256)), b"\xc3\x28"])
        return bytes(r.getrandbits(8) for _ in range(r.choice([1, 2, 3, 4, 5, 16, 17, r.randint(0, 80)])))

    def gen_str(self, legal):
        r = self.rng
        c = r.random()
        if c < 0.45:
            return r.choice(STR_BOUNDARY_XML if (legal or r.random() < 0.5) else STR_BOUNDARY_ANY)
        n = r.choice([1, 2, 3, 8, r.randint(0, 40)])
        alpha = "abc XYZ019_-\n\n\t'\"\\<&>é中\U0001F600" if legal else "abc \n\r\t\x00\x01\x0b'\"\\\x7fé\uffff"
        s = "".join(r.choice(alpha) for _ in range(n))
        if c > 0.9:
            s += chr(r.choice([0x20, 0x7E, 0xA0, 0x7FF, 0x800, 0xD7FF, 0xE000, 0xFFFD, 0x10000, 0x10FFFF]))
        return s

    def gen_uri(self):
        r = self.rng
        if r.random() < 0.5:
            return self.llsd.uri(r.choice(URI_BOUNDARY))
        return self.llsd.uri(r.choice(["http://", "https://", "x:", ""]) + "".join(r.choice(URI_CHARS) for _ in range(r.randint(0, 30))))

    def gen_key(self):
        r = self.rng
        if r.random() < 0.4:
            return r.choice(KEY_BOUNDARY)
        return "".join(r.choice(KEY_CHARS) for _ in range(r.randint(1, 12)))

    def gen_when(self, subsecond=True):
        """a naive datetime within the bounds: microsecond precision only where float64 seconds carry it exactly (1950..2100)"""
        r = self.rng
        if subsecond:
            base = datetime.datetime(1950, 1, 1) + datetime.timedelta(seconds=r.randint(0, 150 * 365 * 86400))
            us = r.choice([0, 1, 5, 500000, 999999, 123456, 100000, 250000, r.randint(0, 999999), r.randint(0, 999999)])
            return base.replace(microsecond=us)
        return datetime.datetime(1902, 1, 1) + datetime.timedelta(seconds=r.randint(0, 298 * 365 * 86400))

    def gen_date(self, kinds=("naive", "aware-utc", "aware-off", "date")):
        r = self.rng
        k = r.choice(kinds)
        w = self.gen_when(subsecond=r.random() < 0.7)
        if k == "naive":
            return w
        if k == "aware-utc":
            return w.replace(tzinfo=UTC)
        if k == "aware-off":
            off = r.choice([330, -480, 765, -210, 60, 0])
            return w.replace(tzinfo=datetime.timezone(datetime.timedelta(minutes=off)))
        return w.date()

    def gen_vec(self):
        r, d = self.rng, self.dt
        f = lambda: r.choice([0.0, -0.0, 1.0, 0.5, -128.25, 255.999, 1e-7, r.uniform(-256, 256)])
        k = r.randint(0, 3)
        if k == 0:
            return d.Vector3(f(), f(), f())
        if k == 1:
            return d.Vector4(f(), f(), f(), f())
        if k == 2:
            return d.Vector2(f(), f())
        return r.choice([d.Quaternion(0, 0, 0, 1), d.Quaternion(f() / 600, f() / 600, f() / 600), d.Quaternion(0.5, 0.5, 0.5, 0.5),
                         d.Quaternion(1.0, 0.0, 0.0, 0.0)])

    LEAF_KINDS = ["undef", "bool", "int", "real", "uuid", "binary", "str", "uri", "date", "vec"]

    def gen_leaf(self, legal, kind=None):
        r = self.rng
        kind = kind or r.choice(self.LEAF_KINDS + ["str", "date", "int"])
        if kind == "undef":
            return None
        if kind == "bool":
            return r.random() < 0.5
        if kind == "int":
            return self.gen_int()
        if kind == "real":
            return self.gen_real()
        if kind == "uuid":
            return self.gen_uuid()
        if kind == "binary":
            return self.gen_binary()
        if kind == "str":
            return self.gen_str(legal)
        if kind == "uri":
            return self.gen_uri()
        if kind == "date":
            return self.gen_date()
        return self.gen_vec()

    def gen_tree(self, depth, legal):
        r = self.rng
        if depth <= 0 or r.random() < 0.25:
            return self.gen_leaf(legal)
        n = r.choice([0, 1, 1, 2, 2, 3, 4])
        c = r.random()
        if c < 0.4:
            return [self.gen_tree(depth - 1, legal) for _ in range(n)]
        if c < 0.5:
            return tuple(self.gen_tree(depth - 1, legal) for _ in range(n))
        out = {}
        for _ in range(n):
            out[self.gen_key()] = self.gen_tree(depth - 1, legal)
        return out


WRAPPERS = [
    ("top", lambda x: x),
    ("in-array", lambda x: [x]),
    ("in-tuple-mid", lambda x: (1, x, "z")),
    ("in-map", lambda x: {"k": x}),
    ("map-array-map", lambda x: {"a": [{"j": x}, []], "b": {}}),
    ("depth4", lambda x: [[[[x]]]]),
    ("array-then-more", lambda x: [[x], [], [[], x]]),
]


def tree_depth(v):
    """nesting depth of containers: a leaf (or one of the library's vector objects) is 0, [] is 1"""
    from hippolyzer.lib.base.datatypes import TupleCoord
    if isinstance(v, TupleCoord) or not isinstance(v, (list, tuple, dict)):
        return 0
    return 1 + max([tree_depth(c) for c in children(v)] or [0])


def all_strings_legal(v):
    from hippolyzer.lib.base.datatypes import TupleCoord
    if isinstance(v, str):
        return xml_legal(v)
    if isinstance(v, TupleCoord):
        return True
    if isinstance(v, (list, tuple)):
        return all(all_strings_legal(x) for x in v)
    if isinstance(v, dict):
        return all(xml_legal(k) and all_strings_legal(x) for k, x in v.items())
    return True


def select_codecs(codecs, v):
    if all_strings_legal(v):
        return codecs
    return [c for c in codecs if c[1] != "xml"]


# ------------------------------------------------------------------------------------------------ date cases (run under each TZ)
def date_cases(rng, tier):
    g = Gen(rng)
    fixed = [
        datetime.datetime(1970, 1, 1), datetime.datetime(1970, 1, 1, 0, 0, 0, 1), datetime.datetime(1969, 12, 31, 23, 59, 59, 999999),
        datetime.datetime(1999, 12, 31, 23, 59, 59, 999999), datetime.datetime(2000, 2, 29, 12, 0, 0), datetime.datetime(2020, 1, 2, 3, 4, 5, 500000),
        datetime.datetime(2006, 2, 1, 14, 29, 53, 460000), datetime.datetime(2038, 1, 19, 3, 14, 7), datetime.datetime(2038, 1, 19, 3, 14, 8, 250000),
        # local-time gaps / folds of the non-UTC zones used (the value itself is UTC by convention, so these are ordinary instants)
        datetime.datetime(2021, 3, 14, 2, 30, 0), datetime.datetime(2021, 3, 14, 7, 30, 0, 5), datetime.datetime(2021, 11, 7, 1, 30, 0),
        datetime.datetime(2021, 11, 7, 6, 30, 0, 999999), datetime.datetime(2021, 9, 26, 2, 50, 0), datetime.datetime(2021, 4, 4, 3, 0, 0, 1),
        datetime.datetime(2021, 7, 1, 12, 0, 0), datetime.datetime(2021, 1, 1, 12, 0, 0), datetime.datetime(1902, 1, 1), datetime.datetime(2199, 12, 31, 23, 59, 59),
    ]
    vals = []
    for w in fixed:
        vals += [w, w.replace(tzinfo=UTC), w.replace(tzinfo=datetime.timezone(datetime.timedelta(minutes=330))), w.date()]
    # every microsecond count 0..999 (decimal fraction <-> binary float corner cases), plus a spread over the full field
    base = datetime.datetime(2021, 6, 15, 10, 20, 30)
    sweep = [base.replace(microsecond=u) for u in range(0, 1000)] + [base.replace(microsecond=u) for u in range(0, 1000000, 7919)]
    for i, w in enumerate(sweep):
        vals.append(w if i % 2 == 0 else w.replace(tzinfo=UTC))
    for _ in range(150 if tier == "quick" else 3000):
        vals.append(g.gen_date())
    return vals


def run_dates(rng, tier, fails, stats, seen, samples):
    codecs = _codecs()
    tzc = tz_class()
    vals = date_cases(rng, tier)
    for i, v in enumerate(vals):
        wraps = WRAPPERS if i < 76 or i % 40 == 0 else WRAPPERS[:1] + [WRAPPERS[1 + i % (len(WRAPPERS) - 1)]]
        for wname, wf in wraps:
            t = wf(v)
            seen.add(_h(["date", describe(t)]))
            if len(samples) < 2 and i in (5, 21):
                samples.append({"date_case": describe(t), "TZ": os.environ.get("TZ")})
            run_case(t, codecs, tzc, fails, stats, "dates")


def _tz_child():
    """entry point of the per-time-zone sub-process: reads {seed, tier} on stdin, writes the result JSON on stdout"""
    import warnings
    warnings.simplefilter("ignore")
    spec = json.loads(sys.stdin.read())
    rng = random.Random(spec["seed"])
    fails, stats, seen, samples = Failures(), {"evals": 0}, set(), []
    run_dates(rng, spec["tier"], fails, stats, seen, samples)
    off = sorted({time.localtime(t).tm_gmtoff for t in (1610000000, 1626000000)})
    sys.stdout.write("\nC12CHILD" + json.dumps({"evals": stats["evals"], "seen": sorted(seen), "failures": fails.items, "samples": samples,
                                                "tz_class": tz_class(), "offsets": off}, default=repr))


def run_dates_in_timezones(tier, seed, fails, stats, seen, samples, bounds):
    import hippolyzer
    repo_dir = os.path.dirname(os.path.dirname(os.path.abspath(hippolyzer.__file__)))
    verif_dir = os.path.dirname(os.path.dirname(os.path.abspath(__file__)))
    code = ("import sys; sys.path[:0] = [%r, %r]; from contracts import c12_native; c12_native._tz_child()" % (repo_dir, verif_dir))
    procs = []
    for label, tz in TZS:
        env = dict(os.environ)
        env["TZ"] = tz
        env["PYTHONHASHSEED"] = "0"
        env["PYTHONWARNINGS"] = "ignore"
        p = subprocess.Popen([sys.executable, "-c", code], stdin=subprocess.PIPE, stdout=subprocess.PIPE, stderr=subprocess.PIPE, env=env)
        p.stdin.write(json.dumps({"seed": seed, "tier": tier}).encode())
        p.stdin.close()
        procs.append((label, tz, p))
    ran = []
    for label, tz, p in procs:
        try:
            out = p.stdout.read()
            err = p.stderr.read()
            p.wait(timeout=600)
            res = json.loads(out.decode().rsplit("\nC12CHILD", 1)[1])
        except Exception as ex:  # noqa
            raise RuntimeError(f"C12 time-zone sub-process TZ={tz} did not produce a result: {ex!r}; stderr: {err[-800:]!r}")
        stats["evals"] += res["evals"]
        for s in res["seen"]:
            seen.add(f"{label}:{s}")
        fails.merge(res["failures"])
        for smp in res["samples"][:1]:
            if len(samples) < 3:
                samples.append(smp)
        ran.append({"label": label, "TZ": tz, "utc_offsets_seen_s": res["offsets"], "class": res["tz_class"], "evaluations": res["evals"]})
    bounds["time_zones"] = ran
    expect = {"utc": "utc", "us-eastern": "nonutc", "chatham": "nonutc"}
    for r in ran:
        if r["class"] != expect[r["label"]]:
            raise RuntimeError(f"C12: the C library did not honour TZ={r['TZ']} (offsets {r['utc_offsets_seen_s']})")


# ------------------------------------------------------------------------------------------------ driver 1: LLSD trees
def bounded_llsd_codecs(reg, tier, seed):
    import warnings
    warnings.simplefilter("ignore")
    rng = random.Random(seed)
    fails, stats, seen, samples, bounds = Failures(), {"evals": 0}, set(), [], {}
    saved_tz = os.environ.get("TZ")
    os.environ["TZ"] = "UTC0"
    time.tzset()
    try:
        codecs = _codecs()
        tzc = tz_class()
        g = Gen(rng)
        # (a) every leaf kind, boundary-heavy, under every wrapper shape (depth 0..4)
        n_leaf = 40 if tier == "quick" else 400
        for kind in Gen.LEAF_KINDS:
            for i in range(n_leaf if kind not in ("undef", "bool") else 2):
                legal = (i % 3 != 0)
                leaf = g.gen_leaf(legal, kind) if kind != "bool" else bool(i)
                for wname, wf in (WRAPPERS if i < 12 else WRAPPERS[:2] + [WRAPPERS[2 + i % 5]]):
                    t = wf(leaf)
                    seen.add(_h(["leaf", describe(t)]))
                    run_case(t, select_codecs(codecs, t), tzc, fails, stats, "leaf x wrapper")
        # all boundary strings explicitly (the newline clause lives here), as value / nested value / next to tricky keys
        for s in STR_BOUNDARY_XML + STR_BOUNDARY_ANY:
            for t in (s, [s, s], {"k": s, "'": [s]}, {g.gen_key(): {g.gen_key(): s}}):
                seen.add(_h(["str", describe(t)]))
                run_case(t, select_codecs(codecs, t), tzc, fails, stats, "boundary strings")
        for u in URI_BOUNDARY:
            for t in (g.llsd.uri(u), {"u": [g.llsd.uri(u)]}):
                seen.add(_h(["uri", describe(t)]))
                run_case(t, codecs, tzc, fails, stats, "boundary uris")
        for k in KEY_BOUNDARY:
            t = {k: 1, k + "x": {k: [None]}}
            seen.add(_h(["key", describe(t)]))
            run_case(t, codecs, tzc, fails, stats, "boundary keys")
        # (b) random trees, depth <= 4
        n_trees = 500 if tier == "quick" else 12000
        depth_hist = {}
        for i in range(n_trees):
            legal = (i % 4 != 0)
            t = g.gen_tree(rng.choice([1, 2, 3, 4, 4]), legal)
            d = tree_depth(t)
            depth_hist[d] = depth_hist.get(d, 0) + 1
            seen.add(_h(["tree", describe(t)]))
            if len(samples) < 2 and d >= 2 and i > 3:
                samples.append({"tree": describe(t), "depth": d})
            run_case(t, select_codecs(codecs, t), tzc, fails, stats, "random trees")
        bounds.update({"max_depth": 4, "trees": n_trees, "tree_depth_histogram": {str(k): v for k, v in sorted(depth_hist.items())},
                       "codecs": [c[0] for c in codecs],
                       "integers": "S32", "dates": "microsecond precision 1950..2100, whole seconds 1902..2200; forms: naive (=UTC), aware UTC, aware fixed offset, date",
                       "strings": "any Unicode scalar values for binary/notation; XML only for XML-legal text without CR; map keys and URIs "
                                  "contain no control characters (URIs: RFC 3986 characters)"})
    finally:
        if saved_tz is None:
            os.environ.pop("TZ", None)
        else:
            os.environ["TZ"] = saved_tz
        time.tzset()
    # (c) dates under three process time zones, each in its own process
    run_dates_in_timezones(tier, seed, fails, stats, seen, samples, bounds)
    return {"name": "llsd-trees-x-codecs", "evaluations": stats["evals"], "distinct_nontrivial": len(seen),
            "rule": "generated LLSD value x codec (format with the library, parse with the library, compare canonical (LLSD type, payload) trees: reals "
                    "bitwise, dates as integer microseconds since the epoch with naive = UTC, maps unordered; notation output must not contain 0x0A; the "
                    "buffered stream parser must stop at the value's end). Values: each leaf kind (boundary-heavy) under 7 wrapper shapes, boundary "
                    "strings / URIs / keys, random trees to depth 4, and a date set (fixed instants incl. DST gaps/folds, every microsecond count "
                    "0..999, random) run in three sub-processes with TZ = UTC0, US Eastern, Chatham. distinct = distinct generated values "
                    "(per time zone for the date set), counted by hashing their rendering", "bounded": True,
            "bounds": bounds, "samples": samples[:3], "failures": fails.items}


# ------------------------------------------------------------------------------------------------ driver 2: messages
def mcanon(v):
    """canonical form of a message variable: like canon() but the library's vector classes are distinct types here"""
    from hippolyzer.lib.base.datatypes import TupleCoord
    if isinstance(v, TupleCoord):
        return ("vec", type(v).__name__, tuple(_bits(x) for x in v.data()))
    c = canon(v)
    return (c[0], c[1])


def msg_snapshot(msg):
    out = {}
    for bname, blocks in msg.blocks.items():
        out[bname] = [{vn: mcanon(val) for vn, val in b.vars.items()} for b in blocks]
    return {"name": msg.name, "blocks": out}


def snapshot_diff(a, b):
    """None or (block, index, var, a_val, b_val) - first difference between two message snapshots"""
    if a["name"] != b["name"]:
        return ("<name>", 0, "<name>", a["name"], b["name"])
    if sorted(a["blocks"]) != sorted(b["blocks"]):
        return ("<blocks>", 0, "<block names>", sorted(a["blocks"]), sorted(b["blocks"]))
    for bn in a["blocks"]:
        la, lb = a["blocks"][bn], b["blocks"][bn]
        if len(la) != len(lb):
            return (bn, 0, "<count>", len(la), len(lb))
        for i, (x, y) in enumerate(zip(la, lb)):
            if sorted(x) != sorted(y):
                return (bn, i, "<var names>", sorted(x), sorted(y))
            for vn in x:
                if x[vn] != y[vn]:
                    return (bn, i, vn, x[vn], y[vn])
    return None


def var_types(tmpl):
    return {(tb.name, tv.name): tv.type.name for tb in tmpl.blocks for tv in tb.variables}


def describe_msg(msg):
    return {"message": msg.name, "blocks": {bn: [{vn: describe(v) for vn, v in b.vars.items()} for b in bl] for bn, bl in msg.blocks.items()}}


def not_llsd_native(val):
    """why a leaf of the dict (event-queue) form is not something LLSD can carry, or None"""
    from hippolyzer.lib.base.datatypes import TupleCoord
    if isinstance(val, bool) or val is None:
        return None
    if isinstance(val, int):
        return None if -2 ** 31 <= val <= 2 ** 31 - 1 else f"integer {val} outside the LLSD (S32) range"
    if isinstance(val, (float, str, bytes, uuid.UUID)):
        return None
    if isinstance(val, (list, tuple, TupleCoord)):
        for x in val:
            if not isinstance(x, float):
                return f"array member {x!r} is not a real"
        return None
    return f"{type(val).__name__} is not an LLSD type"


class _StubCircuit:
    def __init__(self):
        self.sent = []

    def send(self, m):
        self.sent.append(m.name)


class _StubSession:
    def __init__(self):
        from hippolyzer.lib.base.datatypes import UUID
        self.agent_id, self.id = UUID(int=1), UUID(int=2)


class _StubRegion:
    def __init__(self):
        self.circuit = _StubCircuit()
        self._s = _StubSession()

    def session(self):
        return self._s


def _own_class(val):
    """name of a library-specific Python class of a message value (other than the vector / UUID classes), else None"""
    from hippolyzer.lib.base.datatypes import TupleCoord
    t = type(val)
    if t.__module__.startswith("hippolyzer") and not isinstance(val, (TupleCoord, uuid.UUID)):
        return t.__name__
    return None


def culprit(msg, tmpl, exc, orig_vals=None):
    """which variable type a raised exception is about: found by replaying the per-variable steps one at a time
    (first the template-directed packers, then the LLSD formatter on each value alone) - on the values the message
    had when the check started and, if those are all fine, on the values it holds now"""
    from hippolyzer.lib.base import llsd
    from hippolyzer.lib.base.message.data_packer import LLSDDataPacker
    by_block = {tb.name: {tv.name: tv.type for tv in tb.variables} for tb in tmpl.blocks}
    now = [(bn, vn, val) for bn, bl in msg.blocks.items() for b in bl for vn, val in b.vars.items()]
    first = [(bn, vn, val) for (bn, _i, vn), val in orig_vals.items()] if orig_vals else []
    for vals in (first, now):
        try:
            packed = []
            for bn, vn, val in vals:
                t = by_block.get(bn, {}).get(vn)
                pv = val
                if t in LLSDDataPacker.SPECS:
                    try:
                        pv = LLSDDataPacker.pack(val, t)
                        LLSDDataPacker.unpack(pv, t)
                    except Exception:  # noqa
                        return t.name
                packed.append((t, val, pv))
            for t, val, pv in packed:
                try:
                    llsd.parse_xml(llsd.format_xml(pv))
                except Exception:  # noqa
                    return _own_class(val) or (t.name if t is not None else type(val).__name__)
        except Exception:  # noqa
            pass
    return type(exc).__name__


def check_message(msg, tmpl, ser, fails, stats, origin, with_eq):
    """all clauses for one message object; returns nothing, records failures"""
    from hippolyzer.lib.base import llsd
    from hippolyzer.lib.proxy.region import EventQueueManager
    vt = var_types(tmpl)
    area = "message" if origin == "generated" else "message-wire"
    snap = msg_snapshot(msg)
    inp = {"origin": origin, "message": describe_msg(msg)}

    reported = set()

    def vtype(bn, vn, i=0):
        """failure-key detail for a variable: its template type, or the library-specific Python class the message holds there"""
        try:
            own = _own_class(orig_vals[(bn, i, vn)])
        except KeyError:
            own = None
        return own or vt.get((bn, vn), vn)
    orig_vals = {(bn, i, vn): val for bn, bl in msg.blocks.items() for i, b in enumerate(bl) for vn, val in b.vars.items()}

    def stage(name, fn):
        stats["evals"] += 1
        try:
            return True, fn()
        except Exception as ex:  # noqa
            c = culprit(msg, tmpl, ex, orig_vals)
            if (c, type(ex).__name__) not in reported:  # one report per cause and message, at the first stage it shows
                reported.add((c, type(ex).__name__))
                fails.add(f"{area}/raise/{c}/{name}", f"a templated message converts to its LLSD form and back without error ({name})",
                          dict(inp, stage=name), f"{name} raised {type(ex).__name__}: {ex}")
            return False, None

    def same_as_original(m2, form):
        d = snapshot_diff(snap, msg_snapshot(m2))
        if d:
            bn, i, vn, a, b = d
            fails.add(f"{area}/roundtrip/{vtype(bn, vn, i)}/{form}", f"message -> LLSD ({form}) -> message equals the original",
                      dict(inp, form=form), f"{msg.name}.{bn}[{i}].{vn}: original {a!r}, after the round trip {b!r}")

    def source_intact(after):
        d = snapshot_diff(snap, msg_snapshot(msg))
        if d:
            bn, i, vn, a, b = d
            fails.add(f"{area}/source-mutated/{vtype(bn, vn, i)}", "converting a message to LLSD leaves the message itself unchanged "
                                                                 "(it is still the original afterwards)",
                      dict(inp, after=after), f"after {after}: {msg.name}.{bn}[{i}].{vn} was {a!r}, is now {b!r}")
            return False
        return True

    # in-memory (event-queue) form
    ok, d1 = stage("serialize-dict", lambda: ser.serialize(msg, as_dict=True))
    intact = source_intact("serialize(as_dict=True)")
    if ok:
        if not isinstance(d1, dict) or d1.get("message") != msg.name or not isinstance(d1.get("body"), dict):
            fails.add(f"{area}/dict-shape", "the dict form is {'message': name, 'body': {block: [vars]}}", inp, repr(d1)[:300])
            return
        for bn, bl in d1["body"].items():
            for i, b in enumerate(bl):
                for vn, val in b.items():
                    why = not_llsd_native(val)
                    if why:
                        fails.add(f"{area}/dict-not-llsd/{vtype(bn, vn, i)}", "every value of the event-queue form is something LLSD can carry "
                                                                            "(template types LLSD cannot express are packed)",
                                  inp, f"{msg.name}.{bn}[{i}].{vn} = {val!r}: {why}")
        before = canon(d1)
        ok2, m1 = stage("deserialize-dict", lambda: ser.deserialize(d1))
        if ok2:
            same_as_original(m1, "dict")
        if first_diff(before, canon(d1)):
            fails.add(f"{area}/deserialize-mutates-input", "deserialize() works on a copy: the event it was given is unchanged (the proxy forwards it afterwards)",
                      inp, f"event changed at {first_diff(before, canon(d1))[0]}")
    # XML form, from the same message object (a message can be converted more than once)
    okx, x = stage("serialize-xml", lambda: ser.serialize(msg))
    if intact:
        intact = source_intact("serialize() to XML")
    if okx:
        if ok:
            okp, px = stage("parse-xml", lambda: llsd.parse_xml(x))
            if okp:
                d = first_diff(canon(d1), canon(px))
                if d:
                    path = d[0]
                    bn, bi, vn = (path[1], path[2], path[3]) if len(path) >= 4 else ("?", 0, "?")
                    fails.add(f"{area}/xml-vs-dict/{vtype(bn, vn, bi)}", "the XML form carries the same LLSD as the in-memory form", inp,
                              f"at {'/'.join(map(str, path))}: dict form {d[1][:2]!r}, XML form {d[2][:2]!r}")
        ok3, m2 = stage("deserialize-xml", lambda: ser.deserialize(x))
        if ok3:
            same_as_original(m2, "xml")
    if ok:
        # the other serialisations deserialize() accepts (content sniffing)
        for form, f in (("binary", llsd.format_binary), ("notation", llsd.format_notation)):
            okf, enc = stage(f"format-{form}", lambda: f(d1))
            if okf:
                ok4, m3 = stage(f"deserialize-{form}", lambda: ser.deserialize(enc))
                if ok4:
                    same_as_original(m3, form)
        # converting again gives the same event
        oka, d2 = stage("serialize-dict-again", lambda: ser.serialize(msg, as_dict=True))
        if oka and first_diff(canon(d1), canon(d2)):
            fails.add(f"{area}/serialize-not-repeatable", "converting the same message twice gives the same LLSD", inp,
                      f"second conversion differs at {first_diff(canon(d1), canon(d2))[0]}")
    if with_eq:
        # consumer: event injection into the viewer's event queue, then the EQ response body as the proxy builds it
        def inject():
            region = _StubRegion()
            eqm = EventQueueManager(region)
            eqm.inject_message(msg)
            events = eqm.take_injected_events()
            if len(events) != 1:
                raise AssertionError(f"{len(events)} injected events queued, 1 expected")
            if region.circuit.sent != ["PlacesQuery"]:
                raise AssertionError(f"poll trigger not sent: {region.circuit.sent}")
            body = llsd.format_xml({"events": events, "id": 7})
            back = llsd.parse_xml(body)
            return ser.deserialize(back["events"][0])
        oke, m4 = stage("eq-inject", inject)
        if oke:
            same_as_original(m4, "eq-inject")
    if intact:
        source_intact("all conversions")


def check_packers(rng, tier, fails, stats, seen):
    """LLSDDataPacker pairs against an independent statement of the packed form"""
    from hippolyzer.lib.base import llsd
    from hippolyzer.lib.base.message.data_packer import LLSDDataPacker
    from hippolyzer.lib.base.message.msgtypes import MsgType
    from hippolyzer.lib.base.datatypes import Quaternion
    from contracts import msggen

    class TV:
        def __init__(self, t):
            self.type, self.size, self.probably_text, self.probably_binary, self.name = t, 0, False, False, "v"

    def expected_packed(t, v):
        if t == MsgType.MVT_IP_ADDR:
            return bytes(int(p) for p in v.split("."))
        if t == MsgType.MVT_U32:
            return v.to_bytes(4, "big")
        if t == MsgType.MVT_U64:
            return v.to_bytes(8, "big")
        if t == MsgType.MVT_S64:
            return v.to_bytes(8, "big", signed=True)
        if t == MsgType.MVT_LLQuaternion:
            return [float(v.X), float(v.Y), float(v.Z)]
        return [float(x) for x in v.data()]
    n = 60 if tier == "quick" else 1500
    for t in sorted(LLSDDataPacker.SPECS, key=lambda m: m.name):
        vals = []
        for i in range(n):
            vals.append(msggen.gen_value(TV(t), rng, boundary=(i % 3 == 0)))
        if t == MsgType.MVT_IP_ADDR:
            vals += ["0.0.0.0", "255.255.255.255", "127.0.0.1", "10.0.0.255"]
        if t == MsgType.MVT_LLQuaternion:
            vals += [Quaternion(0, 0, 0, 1), Quaternion(0.5, 0.5, 0.5, 0.5), Quaternion(1, 0, 0, 0), Quaternion(0.0, -0.0, 0.0)]
        for v in vals:
            stats["evals"] += 1
            seen.add(_h(["packer", t.name, describe(v)]))
            inp = {"type": t.name, "value": describe(v)}
            try:
                p = LLSDDataPacker.pack(v, t)
                if first_diff(canon(expected_packed(t, v)), canon(p)):
                    fails.add(f"packer/packed-form/{t.name}", "U32/U64/S64 pack to big-endian binary, IP addresses to 4 octets, vectors to arrays of reals",
                              inp, f"packed {p!r}, expected {expected_packed(t, v)!r}")
                for form, wire in (("memory", lambda q: q), ("xml", lambda q: llsd.parse_xml(llsd.format_xml(q))),
                                   ("binary", lambda q: llsd.parse_binary(llsd.format_binary(q))),
                                   ("notation", lambda q: llsd.parse_notation(llsd.format_notation(q)))):
                    u = LLSDDataPacker.unpack(wire(p), t)
                    if mcanon(u) != mcanon(v):
                        fails.add(f"packer/roundtrip/{t.name}", "unpack(pack(v)) == v for every template type LLSD cannot express directly",
                                  dict(inp, form=form), f"{v!r} -> {p!r} -> {u!r}")
            except Exception as ex:  # noqa
                fails.add(f"packer/raise/{t.name}", "the LLSD packer pair accepts every in-range value of its template type", inp,
                          f"{type(ex).__name__}: {ex}")


def bounded_llsd_messages(reg, tier, seed):
    import warnings
    warnings.simplefilter("ignore")
    from contracts import msggen
    from hippolyzer.lib.base.message.llsd_msg_serializer import LLSDMessageSerializer
    from hippolyzer.lib.base.message.udpserializer import UDPMessageSerializer
    from hippolyzer.lib.base.message.udpdeserializer import UDPMessageDeserializer
    rng = random.Random(seed)
    fails, stats, seen, samples = Failures(), {"evals": 0}, set(), []
    ser = LLSDMessageSerializer()
    useri = UDPMessageSerializer()
    udeser = UDPMessageDeserializer()
    tmpls = sorted(msggen.templates(), key=lambda t: t.name)
    variants = [(False, "rand"), (True, "one")] if tier == "quick" else \
        [(False, "rand"), (True, "one"), (False, "min"), (True, "rand"), (False, "rand"), (True, "rand"), (False, "one"), (False, "rand")]
    n_msgs = n_wire = skipped_wire = 0
    for ti, tmpl in enumerate(tmpls):
        if not ser.can_handle(tmpl.name):
            fails.add("message/can-handle", "every message of the template is handled by the LLSD message serializer", {"message": tmpl.name}, "can_handle is False")
            continue
        for vi, (boundary, counts) in enumerate(variants):
            msg = msggen.gen_message(tmpl, rng, boundary=boundary, counts=counts)
            n_msgs += 1
            seen.add(_h(["msg", describe_msg(msg)]))
            if len(samples) < 2 and tmpl.name in ("EnableSimulator", "CrossedRegion") and vi == 0:
                samples.append(describe_msg(msg))
            check_message(msg, tmpl, ser, fails, stats, "generated", with_eq=(vi == 0 or tier != "quick"))
        # the same, for a message as the library's own datagram parser produces it
        for vi in range(1 if tier == "quick" else 3):
            m0 = msggen.gen_message(tmpl, rng, boundary=(vi == 1), counts="rand")
            try:
                wm = udeser.deserialize(useri.serialize(m0))
                wm.ensure_parsed()
            except Exception:  # noqa  (datagram codec problems are C01/C02's business)
                skipped_wire += 1
                continue
            n_wire += 1
            seen.add(_h(["wire", describe_msg(wm)]))
            check_message(wm, tmpl, ser, fails, stats, "parsed-from-datagram", with_eq=(vi == 0))
    if tier != "quick":
        # full variable-block lists
        for tmpl in rng.sample(tmpls, 40):
            msg = msggen.gen_message(tmpl, rng, boundary=False, counts="max")
            n_msgs += 1
            seen.add(_h(["msg", describe_msg(msg)]))
            check_message(msg, tmpl, ser, fails, stats, "generated", with_eq=False)
    check_packers(rng, tier, fails, stats, seen)
    return {"name": "llsd-message-forms", "evaluations": stats["evals"], "distinct_nontrivial": len(seen),
            "rule": "every message of the live template x value variants (random / boundary values; variable block counts 0..3, thorough: also 255): "
                    "independent snapshot -> serialize(as_dict) -> deserialize, serialize() XML -> deserialize, binary and notation renderings of the "
                    "event -> deserialize, EventQueueManager.inject_message -> EQ response XML -> deserialize; each result and the source message "
                    "afterwards must equal the snapshot (reals bitwise, vector class and components, text as str, bytes by value); the dict form must "
                    "hold only LLSD-expressible values and equal the parsed XML form; deserialize must not change its input; converting twice gives "
                    "the same event. The same for messages parsed from a datagram by the library. LLSDDataPacker pairs against an independent "
                    "statement of the packed form. distinct = distinct generated messages / packer inputs (hash of their rendering); an evaluation "
                    "is one conversion step", "bounded": True,
            "bounds": {"templates": len(tmpls), "generated_messages": n_msgs, "datagram_parsed_messages": n_wire, "datagram_codec_rejected": skipped_wire,
                       "text": "XML-legal (msggen alphabets incl. newline, tab, quotes, backslash, non-ASCII)", "quaternions": "unit, W >= 0 (what 3 components carry)"},
            "samples": samples[:3], "failures": fails.items}
