"""Tier-P contract for C17, second part: the event merge in MITMProxyEventManager._handle_response (EventQueueGet branch).

Everything LLSD-shaped is unmodelled (opaque values; lookups are pure reads); what is proved is the *control* of the merge, as
ghost call-log obligations on the real body: per simulator event, it is kept exactly when the per-event handler did not swallow
it, and it is that very event; injected events are taken exactly once per response that carries events and appended after the
simulator's; the response is cached under the request's ack exactly once and the body written back is made from the cached
payload; none of this happens for responses that are not 200 / not attributed / injected by the proxy itself."""
from pyvc.contracts import ClassDecl, FnContract

HREL = "hippolyzer/lib/proxy/http_event_manager.py"


def register_p2(reg, prop):
    from hippolyzer.lib.proxy.caps import CapType
    o = "Opaque:Any"
    reg.add_class(ClassDecl("MITMProxyEventManager", fields={"session_manager": o, "llsd_message_serializer": o, "UPLOAD_CREATING_CAPS": o,
                                                            "flow_context": o, "from_proxy_queue": o, "to_proxy_queue": o}))
    ext = {
        "message_logger.log_http_response": {"may_raise": "AnyException", "record_as": "logged", "doc": "message logger"},
        "CapData": {"returns": "Opaque:CapData", "ignore_args": True, "doc": "empty / enriched cap data"},
        "flow.response.headers.get": {"returns": o, "doc": "header lookup"},
        "UUID": {"returns": o, "may_raise": "ValueError", "doc": "uuid parse"},
        "weakref.ref": {"returns": o, "doc": "weak reference"},
        "AddonManager.handle_http_response": {"returns": "Bool", "may_raise": "AnyException", "record_as": "addon_hook", "doc": "addon hook: True = handled"},
        "self._handle_login_flow": {"record_as": "login", "may_raise": "AnyException", "doc": "login response handling"},
        "cap_data.session": {"returns": "Opt[Opaque:Session]", "doc": "weakref deref: session or None"},
        "cap_data.region": {"returns": "Opt[Opaque:Region]", "record_as": "region_deref", "record_result": True, "doc": "weakref deref: region or None"},
        "session.http_message_handler.handle": {"may_raise": "AnyException", "record_as": "session_handler", "doc": "session-level HTTP subscribers"},
        "region.http_message_handler.handle": {"may_raise": "AnyException", "record_as": "region_handler", "doc": "region-level HTTP subscribers"},
        "llsd.parse_xml": {"returns": "Opaque:LLSD", "may_raise": "AnyException", "doc": "LLSD XML parse"},
        "llsd.format_xml": {"returns": "Opaque:Bytes", "record_as": "format", "record_result": True, "may_raise": "AnyException", "doc": "LLSD XML format"},
        "region.update_caps": {"record_as": "update_caps", "may_raise": "AnyException", "doc": "cap table update"},
        "region.register_wrapper_cap": {"returns": o, "may_raise": "AnyException", "doc": "wrapper cap"},
        "region.register_cap": {"record_as": "register_cap", "may_raise": "AnyException", "doc": "temporary uploader cap"},
        "self._handle_eq_event": {"returns": o, "may_raise": "AnyException", "record_as": "eq_event", "record_result": True,
                                  "doc": "per-event handling: truthy = an addon swallowed the event"},
        "new_events.append": {"record_as": "keep", "doc": "event stays in the response"},
        "new_events.extend": {"record_as": "extend", "doc": "injected events appended after the simulator's"},
        "eq_manager.take_injected_events": {"returns": "Opaque:EvList", "record_as": "take_injected", "record_result": True,
                                            "doc": "EventQueueManager.take_injected_events (own contract: everything queued, in order, queue left empty)"},
        "eq_manager.cache_last_poll_response": {"record_as": "cache", "doc": "EventQueueManager.cache_last_poll_response (own contract)"},
    }
    for nm, tier, cs in (("@eq-branch", "quick", {"message_logger": "not truthy(message_logger)", "cap_data": "cap_data.cap_name == 'EventQueueGet'"}),
                         ("", "thorough", {})):
      reg.add_fn(FnContract(
        key="hippolyzer.lib.proxy.http_event_manager:MITMProxyEventManager._handle_response" + nm, relpath=HREL, tier=tier, case_split=cs,
        qualname="MITMProxyEventManager._handle_response", cls="MITMProxyEventManager", prop=prop,
        params={"flow": "Opaque:Flow"}, param_names=["flow"], consts={"CapType": CapType}, externals=ext,
        may_raise={"AnyException": "", "ValueError": "", "AttributeError": "", "KeyError": "", "TypeError": ""},
        loops={
            "for session in self.session_manager.sessions": {"inv": ["True"]},
            "for cap_name in wrappable_caps": {"inv": ["True"]},
            "for cap_name in flow.metadata['needed_proxy_caps']": {"inv": ["True"]},
            "for event in old_events": {
                "inv": ["ncalls('take_injected') == 0 and ncalls('cache') == 0 and ncalls('extend') == 0"],
                "havoc_sorts": {"new_events": "Opaque:EvList"},
                # a simulator event stays in the response exactly when its handler did not swallow it, and it is that event
                "iter_post": ["ncalls('eq_event') == 1 and ncalls('keep') <= 1",
                              "iff(ncalls('keep') == 1, called_with('eq_event', lambda result: not truthy(result)))",
                              "implies(ncalls('keep') == 1, called_with('keep', lambda arg0: arg0 == event))",
                              "called_with('eq_event', lambda arg2: arg2 == event)"]},
        },
        ensures=[
            # injected events are taken at most once per response, and only to be appended and cached
            "ncalls('take_injected') <= 1 and ncalls('cache') <= 1 and ncalls('extend') <= 1",
            "implies(ncalls('take_injected') == 1 and L3_left_early == 0 and ncalls('extend') == 1, "
            "called_with('take_injected', lambda result: called_with('extend', lambda arg0: arg0 == result)))",
            "implies(ncalls('cache') == 1, ncalls('take_injected') == 1 and ncalls('extend') == 1)",
            # once the injected events were taken, the response that goes back to the viewer is the cached one (nothing in between
            # can skip the cache without an exception, and then nothing is written back either)
            "implies(ncalls('take_injected') == 1 and ncalls('format') == 1, ncalls('cache') == 1)",
            "implies(ncalls('cache') == 1 and ncalls('format') == 1, called_with('cache', lambda arg1: called_with('format', lambda arg0: arg0 == arg1)))",
            # responses to requests / with bodies injected by the proxy itself are not processed again
            "implies(truthy(flow.request_injected) or truthy(flow.response_injected), ncalls('addon_hook') == 0 and ncalls('take_injected') == 0)",
            # an addon that handled the response ends processing
            "implies(called_with('addon_hook', lambda result: result), ncalls('take_injected') == 0 and ncalls('session_handler') == 0)",
            # only successful responses are merged
            "implies(flow.response.status_code != 200, ncalls('take_injected') == 0 and ncalls('cache') == 0 and ncalls('session_handler') == 0)",
            # the logger sees every response, first
            "ncalls('logged') <= 1",
        ],
        frame=None))
    from pyvc.contracts import alias_loops_by_order
    for k_ in list(reg.fns):
        if k_.startswith("hippolyzer.lib.proxy.http_event_manager:MITMProxyEventManager._handle_response"):
            alias_loops_by_order(reg.fns[k_])
