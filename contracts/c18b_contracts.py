"""Tier-P contracts for C18, second part: what one arriving entry does to the log view (FilteringMessageLogger.add_log_entry)
and the fan-out to several loggers (WrappingMessageLogger.add_log_entry)."""
from pyvc.contracts import ClassDecl, FnContract

LREL = "hippolyzer/lib/proxy/message_logger.py"


def register_p2(reg, prop):
    o = "Opaque:Any"
    reg.add_class(ClassDecl("FilteringMessageLogger", fields={"_raw_entries": "Opaque:Deque", "_filtered_entries": "Opaque:EntryList",
                                                             "paused": "Bool", "filter": o}))
    reg.add_fn(FnContract(
        key="hippolyzer.lib.proxy.message_logger:FilteringMessageLogger.add_log_entry", relpath=LREL,
        qualname="FilteringMessageLogger.add_log_entry", cls="FilteringMessageLogger", prop=prop,
        params={"entry": "Opaque:Entry"}, param_names=["entry"], returns="Bool",
        externals={
            "self._raw_entries.append": {"record_as": "retained", "doc": "bounded deque of everything seen (retention window)"},
            "self.filter.match": {"returns": o, "may_raise": "AnyException", "record_as": "match", "record_result": True,
                                  "doc": "compiled filter on the entry (its denotation is proved separately)"},
            "self._filtered_entries.append": {"record_as": "shown", "doc": "the view"},
            "self._begin_insert": {"record_as": "begin_insert", "may_raise": "AnyException", "doc": "Qt model hook"},
            "self._end_insert": {"record_as": "end_insert", "may_raise": "AnyException", "doc": "Qt model hook"},
        },
        # the try/except Exception swallows everything: logging must never take the proxy down
        ensures=[
            "implies(old(self.paused), ncalls('retained') == 0 and ncalls('shown') == 0 and ncalls('match') == 0 and not result)",
            "implies(not old(self.paused), ncalls('retained') == 1 and called_with('retained', lambda arg0: arg0 == entry))",
            # an entry enters the view only after the filter accepted *that* entry, at the end of the view, and at most once
            "ncalls('shown') <= 1",
            "implies(ncalls('shown') == 1, called_with('shown', lambda arg0: arg0 == entry) and "
            "called_with('match', lambda arg0, result: arg0 == entry and truthy(result)) and "
            "called_with('begin_insert', lambda arg0: arg0 == len(old(self._filtered_entries))))",
            "implies(called_with('match', lambda result: not truthy(result)), ncalls('shown') == 0 and not result)",
            "implies(result, ncalls('shown') == 1 and ncalls('end_insert') == 1)",
        ],
        frame=[]))

    reg.add_class(ClassDecl("WrappingMessageLogger", fields={"loggers": "Opaque:LoggerList"}))
    reg.add_fn(FnContract(
        key="hippolyzer.lib.proxy.message_logger:WrappingMessageLogger.add_log_entry", relpath=LREL,
        qualname="WrappingMessageLogger.add_log_entry", cls="WrappingMessageLogger", prop=prop,
        params={"entry": "Opaque:Entry"}, param_names=["entry"],
        externals={
            "logger.add_log_entry": {"returns": o, "may_raise": "AnyException", "record_as": "offered", "record_result": True, "doc": "one wrapped logger"},
            "entry.cache_summary": {"record_as": "summary", "may_raise": "AnyException", "doc": "summary cached before freezing"},
            "entry.freeze": {"record_as": "freeze", "may_raise": "AnyException", "doc": "entry frozen (message pickled)"},
        },
        may_raise={"AnyException": ""},
        loops={"for logger in self.loggers": {
            "ghost_init": {"_kept": "0"}, "ghost_step": {"_kept": "_kept + ite(called_with('offered', lambda result: truthy(result)), 1, 0)"},
            "inv": ["_kept >= 0", "iff(logged, _kept > 0)", "ncalls('freeze') == 0 and ncalls('summary') == 0"],
            "havoc_sorts": {"logged": "Bool"},
            "iter_post": ["ncalls('offered') == 1 and called_with('offered', lambda arg0: arg0 == entry)"]}},
        ensures=[
            # every logger was offered the entry; the summary is cached iff some logger kept it, and before the single freeze
            "L0_left_early == 0",
            "ncalls('freeze') == 1 and ncalls('summary') <= 1",
            "not defined('_kept') or iff(ncalls('summary') == 1, _kept > 0)",
        ],
        frame=[]))
    from pyvc.contracts import alias_loops_by_order
    alias_loops_by_order(reg.fns["hippolyzer.lib.proxy.message_logger:WrappingMessageLogger.add_log_entry"])
