"""C06 - UDP proxying is transparent: right peer, exactly once, content intact.

Tier P: SOCKS5 UDP framing inverse (SOCKS5UDPTransport.serialize <-> UDPProxyProtocol._parse_socks_datagram, struct
modelled exactly), UDPProxyProtocol.datagram_received discard/dispatch obligations, and the at-most-one-send obligations
on handle_proxied_packet (shared with C07). Tier B: datagram sequences through the real proxy.
"""
import z3

from pyvc.contracts import ClassDecl, FnContract, SpecFn, Lemma
from pyvc.engine import lemma_vcs
from contracts import C07 as c07

PID = "C06"
SREL = "hippolyzer/lib/proxy/socks_proxy.py"
TREL = "hippolyzer/lib/proxy/transport.py"
HPP = "hippolyzer.lib.proxy.lludp_proxy:InterceptingLLUDPProxyProtocol.handle_proxied_packet"

META = {
    "level": "other",
    "explanation": (
        "P (proved, all inputs): the SOCKS5 UDP header the proxy emits (SOCKS5UDPTransport.serialize) is exactly what "
        "_parse_socks_datagram strips - byte layout, address and port - with struct.pack/unpack modelled exactly for the "
        "integer formats in use; _parse_socks_datagram returns None exactly for rsv/frag != 0 or an unknown address type; "
        "datagram_received dispatches exactly one packet with the right direction and addresses for a known far host or a "
        "SOCKS-framed datagram from the client IP, and for an unknown host or a non-SOCKS datagram dispatches nothing and "
        "learns no route; handle_proxied_packet sends at most once (C07's obligations re-verified here). Session.region_by_circuit_addr: the region returned has that far address and a circuit, None iff no region has both. Session.open_circuit: False iff no region has that address; a live circuit is kept as it is (its packet-ID translation state survives a repeated UseCircuitCode), a missing or dead one is replaced by exactly one new circuit to that address, announced to the addons once. B (bounded): "
        "sequences of valid messages of every template in both directions through the real proxy interleaved with "
        "malformed, truncated, mis-addressed, wrong-frag, banned and pre-session datagrams over two regions: exactly one "
        "emission per valid datagram, right peer, same message content; garbage disturbs nothing."),
    "trusted_base": [
        "struct.pack/unpack: exact built-in model for !HBB, !H, !HBB4sH (sampled against CPython in the bounded tier)",
        "socket.inet_aton/inet_ntoa: inverse on dotted quads, 4 bytes (assumed; sampled)",
        "UDPPacket constructor stores its keyword arguments (checked natively)",
        "dict.get/__setitem__ on far_to_near_map: ghost store log",
        "containment of exceptions escaping datagram_received by the asyncio loop: not applicable (external)",
    ],
}

ATON = z3.Function("aton", z3.StringSort(), z3.SeqSort(z3.IntSort()))
NTOA = z3.Function("ntoa", z3.SeqSort(z3.IntSort()), z3.StringSort())


def _aton(h):
    import socket
    return socket.inet_aton(h)


def _ntoa(b):
    import socket
    return socket.inet_ntoa(bytes(b))


def register(reg):
    c07.register(reg)
    reg.fns[HPP].also.append(PID)
    # "every valid datagram is delivered": a datagram whose header the parser refuses is discarded by datagram_received, so the header
    # parser's contracts (plain and zero-coded: the window handed to the expander covers the extra field) carry C06 too
    from contracts import udp_common
    udp_common.reg_parse_header(reg, "C02")
    for inst in ("plain", "zerocoded"):
        reg.fns["hippolyzer.lib.base.message.udpdeserializer:UDPMessageDeserializer._parse_message_header@" + inst].also.append(PID)
    h = z3.String("h_ax")
    reg.axiom_groups["inet"] = [
        z3.ForAll([h], z3.And(z3.Length(ATON(h)) == 4, NTOA(ATON(h)) == h), patterns=[ATON(h)]),
    ]
    reg.add_spec(SpecFn("aton", ATON, ["str"], "bytes", native=_aton, group="inet"))
    reg.add_spec(SpecFn("ntoa", NTOA, ["bytes"], "str", native=_ntoa, group="inet"))
    reg.classes["UDPPacket"].fields.update({"src_addr": "Tuple[Str,Int]", "dst_addr": "Tuple[Str,Int]"})
    reg.add_class(ClassDecl("SOCKS5UDPTransportCls", fields={}))
    reg.add_class(ClassDecl("UDPProxyProtocol", fields={
        "socks_client_addr": "Tuple[Str,Int]", "far_to_near_map": "Opaque:Any", "transport": "Opaque:Any"}))
    from hippolyzer.lib.proxy.transport import SOCKS5UDPTransport
    hdr_fmt = SOCKS5UDPTransport.HEADER_STRUCT.format

    reg.add_fn(FnContract(
        key="hippolyzer.lib.proxy.transport:SOCKS5UDPTransport.serialize", relpath=TREL, qualname="SOCKS5UDPTransport.serialize",
        cls="SOCKS5UDPTransportCls", prop=PID, spec_modules=["inet"],
        params={"packet": "Obj:UDPPacket", "force_socks_header": "Bool"}, param_names=["packet", "force_socks_header"],
        returns="Bytes", consts={"cls.HEADER_STRUCT": hdr_fmt},
        externals={"socket.inet_aton": {"returns": "Bytes", "post": "result == aton(arg0)", "doc": "dotted quad -> 4 bytes"}},
        requires=["0 <= packet.dst_addr[1] and packet.dst_addr[1] <= 65535", "0 <= packet.src_addr[1] and packet.src_addr[1] <= 65535"],
        ensures=[
            "implies(packet.direction == Direction.OUT and not force_socks_header, result == packet.data)",
            "implies(not (packet.direction == Direction.OUT and not force_socks_header), "
            "len(result) == 10 + len(packet.data) and result[0] == 0 and result[1] == 0 and result[2] == 0 and result[3] == 1 "
            "and result[10:] == packet.data)",
            "implies(packet.direction == Direction.IN, result[4:8] == aton(packet.src_addr[0]) and result[8] * 256 + result[9] == packet.src_addr[1])",
            "implies(packet.direction == Direction.OUT and force_socks_header, result[4:8] == aton(packet.dst_addr[0]) and result[8] * 256 + result[9] == packet.dst_addr[1])",
        ], frame=[]))

    reg.add_fn(FnContract(
        key="hippolyzer.lib.proxy.socks_proxy:UDPProxyProtocol._parse_socks_datagram", relpath=SREL,
        qualname="UDPProxyProtocol._parse_socks_datagram", cls="UDPProxyProtocol", prop=PID,
        params={"data": "Bytes"}, param_names=["data"], returns="Opt[Tuple[Tuple[Str,Int],Bytes]]",
        externals={"socket.inet_ntoa": {"returns": "Str", "post": "result == ntoa(arg0)", "doc": "4 bytes -> dotted quad"}},
        may_raise={"struct.error": "len(data) < 10 or (data[3] == 3 and len(data) < 7 + data[4])", "IndexError": "len(data) < 5"},
        ensures=[
            "iff(is_none(result), data[0] != 0 or data[1] != 0 or data[2] != 0 or (data[3] != 1 and data[3] != 3))",
            "implies(len(data) >= 10 and data[0] == 0 and data[1] == 0 and data[2] == 0 and data[3] == 1, "
            "not is_none(result) and result[0][0] == ntoa(data[4:8]) and result[0][1] == data[8] * 256 + data[9] and result[1] == data[10:])",
        ], frame=[]))

    pkt_post = ["result.src_addr == kw_src_addr", "result.dst_addr == kw_dst_addr", "result.data == kw_data",
                "result.direction == kw_direction"]
    reg.add_fn(FnContract(
        key="hippolyzer.lib.proxy.socks_proxy:UDPProxyProtocol.datagram_received", relpath=SREL,
        qualname="UDPProxyProtocol.datagram_received", cls="UDPProxyProtocol", prop=PID,     # ntoa is used uninterpreted here: no quantified axiom in these VCs, so a violated obligation gets a model
        params={"data": "Bytes", "source_addr": "Tuple[Str,Int]"}, param_names=["data", "source_addr"],
        externals={
            "self.far_to_near_map.get": {"returns": "Opt[Tuple[Str,Int]]", "record_as": "lookup", "record_result": True, "doc": "route lookup"},
            "self.far_to_near_map.setdefault": {"record_as": "store:self.far_to_near_map", "doc": "route learning (first wins)"},
            "UDPPacket": {"returns": "Obj:UDPPacket", "post": pkt_post, "doc": "constructor stores its keyword arguments"},
            "self.handle_proxied_packet": {"record_as": "handle", "may_raise": "AnyException", "doc": "virtual: the LLUDP handler"},
        },
        may_raise={"AnyException": "", "struct.error": "len(data) < 10 or (data[3] == 3 and len(data) < 7 + data[4])", "IndexError": "len(data) < 5"},
        ensures=[
            "ncalls('handle') <= 1 and ncalls('store:self.far_to_near_map') <= 1",
            # a datagram from an address with an established route (a simulator) always goes to that route's near end, inbound and
            # byte for byte - whatever its first bytes look like, and also when the simulator shares the client's IP
            "called_with('lookup', lambda result: implies(not is_none(result), ncalls('store:self.far_to_near_map') == 0 and "
            "(ncalls('handle') == 0 or called_with('handle', lambda arg0: arg0.direction == Direction.IN and arg0.src_addr == source_addr "
            "and arg0.dst_addr == val(result) and arg0.data == data))))",
            # a route is learnt only together with a dispatch of that very datagram, from the client IP
            "implies(ncalls('store:self.far_to_near_map') == 1, ncalls('handle') == 1 and source_addr[0] == self.socks_client_addr[0] "
            "and called_with('store:self.far_to_near_map', lambda key, value: value == source_addr))",
            "implies(ncalls('handle') == 1 and ncalls('store:self.far_to_near_map') == 0, "
            "called_with('handle', lambda arg0: arg0.direction == Direction.IN and arg0.src_addr == source_addr and arg0.data == data))",
            "implies(ncalls('store:self.far_to_near_map') == 1, "
            "called_with('handle', lambda arg0: arg0.direction == Direction.OUT and arg0.src_addr == source_addr))",
        ],
        ensures_on_raise=["ncalls('handle') <= 1"],
        frame=[]))
    # SOCKS-framed datagram from the client: the dispatched packet carries the stripped payload and the header's address
    reg.fns["hippolyzer.lib.proxy.socks_proxy:UDPProxyProtocol.datagram_received"].ensures.append(
        "implies(ncalls('store:self.far_to_near_map') == 1 and len(data) >= 10 and data[3] == 1, "
        "called_with('handle', lambda arg0: arg0.data == data[10:] and arg0.dst_addr[0] == ntoa(data[4:8]) "
        "and arg0.dst_addr[1] == data[8] * 256 + data[9]))")

    reg.add_fn(FnContract(
        key="hippolyzer.lib.proxy.circuit:ProxiedCircuit._send_prepared_message", relpath="hippolyzer/lib/proxy/circuit.py",
        qualname="ProxiedCircuit._send_prepared_message", cls="ProxiedCircuit", prop=PID, use_wf=False,
        params={"message": "Obj:Message", "transport": "Opaque:Any"}, param_names=["message", "transport"], returns="Opaque:Any",
        externals={"self.serializer.serialize": {"returns": "Bytes", "may_raise": "AnyException", "doc": "UDPMessageSerializer.serialize"},
                   "self.logging_hook": {"doc": "message log hook for injected packets"},
                   "message.to_dict": {"returns": "Opaque:Any", "doc": "debug representation"},
                   "self.send_datagram": {"returns": "Opaque:Any", "record_as": "send_datagram", "doc": "hands the datagram to the transport"}},
        may_raise={"AnyException": ""},
        ensures=["ncalls('send_datagram') == 1"], frame=[]))

    def framing_inverse():
        # code-free: what serialize ensures for an incoming packet is what _parse_socks_datagram requires to return (far_addr, data)
        IntSeq = z3.SeqSort(z3.IntSort())
        r = z3.Const("wire", IntSeq)
        payload = z3.Const("payload", IntSeq)
        host = z3.String("host")
        port = z3.Int("port")
        ser_post = [z3.Length(r) == 10 + z3.Length(payload), r[0] == 0, r[1] == 0, r[2] == 0, r[3] == 1,
                    z3.SubSeq(r, 10, z3.Length(r) - 10) == payload, z3.SubSeq(r, 4, 4) == ATON(host), r[8] * 256 + r[9] == port]
        parse_pre = z3.And(z3.Length(r) >= 10, r[0] == 0, r[1] == 0, r[2] == 0, r[3] == 1)
        res_host = z3.String("res_host")
        res_port = z3.Int("res_port")
        res_data = z3.Const("res_data", IntSeq)
        parse_post = z3.Implies(parse_pre, z3.And(res_host == NTOA(z3.SubSeq(r, 4, 4)), res_port == r[8] * 256 + r[9],
                                                  res_data == z3.SubSeq(r, 10, z3.Length(r) - 10)))
        return [("claim", ser_post + [parse_post], z3.And(res_host == host, res_port == port, res_data == payload), ["inet"])]
    reg.lemmas.append(Lemma("socks_framing_inverse", PID, framing_inverse,
                            "the header serialize emits is exactly what _parse_socks_datagram strips (address, port, payload)"))
    from contracts import c06b_contracts
    c06b_contracts.register_p2(reg, PID)


from contracts import c06_native
BOUNDED = [c06_native.bounded_transparency]
