"""Tier-P contracts for C08, second part: the container combinators with ABSTRACT children. The children (entry spec, length spec,
field specs) are unmodelled values whose own serialize / deserialize are externals; what is proved on the real bodies of
Collection and Template is the framing *control* as ghost call-log obligations: what is written / read, how often, in which order
and with which value - for every child spec."""
from pyvc.contracts import ClassDecl, FnContract, alias_loops_by_order

SE_REL = "hippolyzer/lib/base/serialization.py"
MOD = "hippolyzer.lib.base.serialization"


def register_p2(reg, prop):
    o = "Opaque:Any"
    reg.add_class(ClassDecl("CollectionSpec", fields={"_entry_ser": "Opaque:Spec", "_len_spec": "Opt[Opaque:Spec]", "_length": "Opt[Int]"}))
    wr_ext = {
        "getattr": {"returns": "Opt[Int]", "doc": "max_val of the length spec, if it has one"},
        "ParseContext": {"returns": o, "doc": "parse context (parent chain for context-dependent children)"},
        "writer.write": {"record_as": "write", "may_raise": "AnyException", "doc": "child serializer (any spec)"},
    }
    reg.add_fn(FnContract(
        key=f"{MOD}:Collection.serialize", relpath=SE_REL, qualname="Collection.serialize", cls="CollectionSpec", prop=prop,
        params={"entries": "Opaque:Entries", "writer": "Opaque:Writer", "ctx": o}, param_names=["entries", "writer", "ctx"],
        externals=wr_ext,
        may_raise={"AnyException": "", "ValueError": ""},
        loops={"for entry in entries": {
            "ghost_init": {"_n": "0"}, "ghost_step": {"_n": "_n + ncalls('write')"}, "inv": ["_n == _i"],
            # one entry: written exactly once, with the entry spec
            "iter_post": ["ncalls('write') == 1", "called_with('write', lambda arg0, arg1: arg0 == self._entry_ser and arg1 == entry)"]}},
        ensures=[
            # every entry was written (the loop ran over all of `entries`), after the length prefix if the collection has one
            "L0_left_early == 0 and defined('_n') and _n == len(entries)",
            "implies(not is_none(self._len_spec) and truthy(val(self._len_spec)), ncalls('write') == 1 and "
            "called_with('write', lambda arg0, arg1: arg0 == val(self._len_spec) and arg1 == len(entries)))",
            "implies(is_none(self._len_spec) or not truthy(val(self._len_spec)), ncalls('write') == 0)",
            # a fixed-length collection accepts exactly that many entries (reaching the end means the count was right)
            "implies((is_none(self._len_spec) or not truthy(val(self._len_spec))) and not is_none(self._length) and val(self._length) != 0, "
            "len(entries) == val(self._length))",
        ],
        frame=[]))
    alias_loops_by_order(reg.fns[f"{MOD}:Collection.serialize"])

    rd_ext = {
        "ParseContext": {"returns": o, "doc": "parse context"},
        "reader.read": {"returns": o, "record_as": "read", "record_result": True, "may_raise": "AnyException", "doc": "child deserializer (any spec)"},
        "entries.append": {"record_as": "append", "doc": "result list"},
        "truth:reader": {"returns": "Bool", "doc": "bytes left?"},
    }
    reg.add_fn(FnContract(
        key=f"{MOD}:Collection.deserialize", relpath=SE_REL, qualname="Collection.deserialize", cls="CollectionSpec", prop=prop,
        params={"reader": "Opaque:Reader", "ctx": o}, param_names=["reader", "ctx"], returns=o,
        externals=rd_ext, may_raise={"AnyException": "", "TypeError": ""},
        loops={
            "for _ in range(size)": {
                "ghost_init": {"_n": "0"}, "ghost_step": {"_n": "_n + ncalls('append')"}, "inv": ["_n == _i"],
                "iter_post": ["ncalls('read') == 1 and ncalls('append') == 1",
                              "called_with('read', lambda arg0, result: arg0 == self._entry_ser and called_with('append', lambda arg0: arg0 == result))"]},
            "while reader": {
                "inv": ["True"],
                "iter_post": ["ncalls('read') == 1 and ncalls('append') == 1",
                              "called_with('read', lambda arg0, result: arg0 == self._entry_ser and called_with('append', lambda arg0: arg0 == result))"]},
        },
        ensures=[
            # a length-prefixed collection reads its prefix once and then exactly that many entries; a fixed one exactly its length
            "implies(not is_none(self._len_spec) and truthy(val(self._len_spec)), ncalls('read') == 1 and "
            "called_with('read', lambda arg0, result: arg0 == val(self._len_spec) and defined('_n') and _n == ite(intval(result) > 0, intval(result), 0)))",
            "implies((is_none(self._len_spec) or not truthy(val(self._len_spec))) and not is_none(self._length) and val(self._length) != 0, "
            "ncalls('read') == 0 and defined('_n') and _n == ite(val(self._length) > 0, val(self._length), 0))",
        ],
        frame=[]))
    alias_loops_by_order(reg.fns[f"{MOD}:Collection.deserialize"])

    reg.add_class(ClassDecl("TemplateSpec", fields={"_template_spec": "Opaque:SpecDict", "_skip_missing": "Bool", "_size": o}))
    reg.add_fn(FnContract(
        key=f"{MOD}:Template.serialize", relpath=SE_REL, qualname="Template.serialize", cls="TemplateSpec", prop=prop,
        params={"values": "Opaque:Values", "writer": "Opaque:Writer", "ctx": o}, param_names=["values", "writer", "ctx"],
        externals={
            "ParseContext": {"returns": o, "doc": "parse context over the values being written"},
            "self._template_spec.items": {"returns": "Opaque:Items", "doc": "(name, spec) pairs in declaration order"},
            "values.get": {"returns": o, "record_as": "lookup", "record_result": True, "doc": "optional member: value or None"},
            "sub:values[field_name]": {"returns": o, "record_as": "lookup", "record_result": True, "may_raise": "KeyError", "doc": "required member"},
            "with:writer.enter_member": {"returns": o, "doc": "member-path bookkeeping (context manager that does not swallow exceptions)"},
            "field_type.serialize": {"record_as": "child", "may_raise": "AnyException", "doc": "the member's own spec"},
        },
        may_raise={"AnyException": "", "KeyError": ""},
        loops={"for field_name, field_type in self._template_spec.items()": {
            "elem_sort": "Tuple[Str,Opaque:Spec]",      # dict items are (name, spec) pairs
            "inv": ["True"],
            # one member: its value is looked up under its own name and written once by its own spec
            "iter_post": ["ncalls('child') == 1 and ncalls('lookup') == 1",
                          "called_with('lookup', lambda result: called_with('child', lambda arg0, arg1: arg0 == result and arg1 == writer))"]}},
        ensures=["L0_left_early == 0"], frame=[]))
    alias_loops_by_order(reg.fns[f"{MOD}:Template.serialize"])

    reg.add_fn(FnContract(
        key=f"{MOD}:Template.deserialize", relpath=SE_REL, qualname="Template.deserialize", cls="TemplateSpec", prop=prop,
        params={"reader": "Opaque:Reader", "ctx": o}, param_names=["reader", "ctx"], returns=o,
        externals={
            "ParseContext": {"returns": o, "doc": "parse context over the dict being filled"},
            "self._template_spec.items": {"returns": "Opaque:Items", "doc": "(name, spec) pairs in declaration order"},
            "field_type.deserialize": {"returns": "Opt[Opaque:Val]", "record_as": "child", "record_result": True, "may_raise": "AnyException",
                                       "doc": "the member's own spec"},
        },
        may_raise={"AnyException": ""},
        loops={"for field_name, field_type in self._template_spec.items()": {
            "elem_sort": "Tuple[Str,Opaque:Spec]",      # dict items are (name, spec) pairs
            "inv": ["True"],
            # one member: read once by its own spec; stored under its own name unless it is an absent optional member of a
            # skip_missing template
            "iter_post": ["ncalls('child') == 1 and called_with('child', lambda arg0: arg0 == reader)",
                          "ncalls('store:read_dict') <= 1",
                          "implies(ncalls('store:read_dict') == 1, called_with('child', lambda result: stored_key('store:read_dict') == field_name "
                          "and stored_value('store:read_dict') == result))",
                          "iff(ncalls('store:read_dict') == 0, truthy(field_type.OPTIONAL) and self._skip_missing and "
                          "called_with('child', lambda result: is_none(result)))"]}},
        ensures=["L0_left_early == 0"], frame=[]))
    alias_loops_by_order(reg.fns[f"{MOD}:Template.deserialize"])


    # ---- loop-free wrappers: presence flag, presence by remaining bytes, adapters
    reg.add_class(ClassDecl("WrapSpec", fields={"_ser_spec": "Opaque:Spec", "_child_spec": "Opaque:Spec"}))
    import hippolyzer.lib.base.serialization as se
    w_ext = {"writer.write": {"record_as": "write", "may_raise": "AnyException", "doc": "child / flag serializer"}}
    r_ext = {"reader.read": {"returns": o, "record_as": "read", "record_result": True, "may_raise": "AnyException", "doc": "child / flag deserializer"}}
    reg.add_fn(FnContract(
        key=f"{MOD}:OptionalPrefixed.serialize", relpath=SE_REL, qualname="OptionalPrefixed.serialize", cls="WrapSpec", prop=prop,
        params={"val": "Opt[Opaque:Val]", "writer": "Opaque:Writer", "ctx": o}, param_names=["val", "writer", "ctx"],
        consts={"U8": se.U8}, externals=w_ext, may_raise={"AnyException": ""},
        ensures=[
            # the presence byte first and always: 1 iff there is a value; the value itself iff there is one, by the wrapped spec
            "call_index('write', lambda arg0, arg1: arg0 == U8 and arg1 == (not is_none(val))) == 0",
            "ncalls('write') == ite(is_none(val), 1, 2)",
            "implies(not is_none(val), call_index('write', lambda arg0, arg1: arg0 == self._ser_spec and arg1 == val(val)) == 1)"],
        frame=[]))
    reg.add_fn(FnContract(
        key=f"{MOD}:OptionalPrefixed.deserialize", relpath=SE_REL, qualname="OptionalPrefixed.deserialize", cls="WrapSpec", prop=prop,
        params={"reader": "Opaque:Reader", "ctx": o}, param_names=["reader", "ctx"], returns="Opt[Opaque:Any]",
        consts={"U8": se.U8}, externals=r_ext, may_raise={"AnyException": ""},
        ensures=[
            "call_index('read', lambda arg0: arg0 == U8) == 0",
            # the value is read iff the presence byte is non-zero, and it is what is returned; otherwise None
            "iff(ncalls('read') == 2, called_with('read', lambda arg0, result: arg0 == U8 and truthy(result)))", "ncalls('read') <= 2",
            # (the record of a read is (arg0, ctx, result): the third lambda parameter is what that read returned)
            "implies(ncalls('read') == 2, called_with('read', lambda arg0, result: arg0 == self._ser_spec and not is_none(RESULT) and result == val(RESULT)))",
            "implies(ncalls('read') == 1, is_none(result))"],
        frame=[]))
    reg.add_fn(FnContract(
        key=f"{MOD}:IfPresent.serialize", relpath=SE_REL, qualname="IfPresent.serialize", cls="WrapSpec", prop=prop,
        params={"val": "Opt[Opaque:Val]", "writer": "Opaque:Writer", "ctx": o}, param_names=["val", "writer", "ctx"],
        externals=w_ext, may_raise={"AnyException": ""},
        ensures=["ncalls('write') == ite(is_none(val), 0, 1)",
                 "implies(not is_none(val), called_with('write', lambda arg0, arg1: arg0 == self._ser_spec and arg1 == val(val)))"],
        frame=[]))
    reg.add_fn(FnContract(
        key=f"{MOD}:Adapter.serialize", relpath=SE_REL, qualname="Adapter.serialize", cls="WrapSpec", prop=prop,
        params={"val": o, "writer": "Opaque:Writer", "ctx": o}, param_names=["val", "writer", "ctx"],
        externals=dict(w_ext, **{"self.encode": {"returns": o, "record_as": "encode", "record_result": True, "may_raise": "AnyException",
                                                "doc": "the adapter's own value mapping"}}),
        may_raise={"AnyException": ""},
        # exactly the encoded value goes to the child spec, once
        ensures=["ncalls('encode') == 1 and ncalls('write') == 1",
                 "called_with('encode', lambda arg0, result: arg0 == val and called_with('write', lambda arg0, arg1: arg0 == self._child_spec and arg1 == result))"],
        frame=[]))
    reg.add_fn(FnContract(
        key=f"{MOD}:Adapter.deserialize", relpath=SE_REL, qualname="Adapter.deserialize", cls="WrapSpec", prop=prop,
        params={"reader": "Opaque:Reader", "ctx": o}, param_names=["reader", "ctx"], returns=o,
        externals=dict(r_ext, **{"self.decode": {"returns": o, "record_as": "decode", "record_result": True, "may_raise": "AnyException",
                                                "doc": "the adapter's own value mapping"}}),
        may_raise={"AnyException": ""},
        # exactly what the child spec read is decoded, once, in the reader's plain-data mode, and that is the result
        ensures=["ncalls('read') == 1 and ncalls('decode') == 1",
                 "called_with('read', lambda arg0, result: arg0 == self._child_spec and called_with('decode', lambda arg0: arg0 == result))",
                 "called_with('decode', lambda result: result == RESULT)",
                 "called_with('decode', lambda pod: pod == reader.pod)"],
        frame=[]))
