"""Tier-P contracts for C06, second part: which region a datagram's far address selects (Session.region_by_circuit_addr) and what
(re)opening a circuit does (Session.open_circuit): a live circuit is never replaced - its packet-ID translation state survives
a repeated UseCircuitCode -, a missing or dead one is replaced by exactly one new circuit for that very region."""
from pyvc.contracts import ClassDecl, FnContract, alias_loops_by_order

SREL = "hippolyzer/lib/client/state.py"
PREL = "hippolyzer/lib/proxy/sessions.py"


def register_p2(reg, prop):
    o = "Opaque:Any"
    reg.add_class(ClassDecl("CircLite", fields={"is_alive": "Bool"}))
    reg.add_class(ClassDecl("RegionLite", fields={"circuit_addr": "Opaque:Addr", "circuit": "Opt[Obj:CircLite]", "handle": "Int"}))
    reg.add_class(ClassDecl("SessionLite", fields={"regions": "Opaque:RegionList", "session_manager": o}))
    reg.add_fn(FnContract(
        key="hippolyzer.lib.client.state:BaseClientSession.region_by_circuit_addr", relpath=SREL,
        qualname="BaseClientSession.region_by_circuit_addr", cls="SessionLite", prop=prop,
        params={"circuit_addr": "Opaque:Addr"}, param_names=["circuit_addr"], returns="Opt[Obj:RegionLite]",
        loops={"for region in self.regions": {
            "elem_sort": "Obj:RegionLite", "inv": ["True"],
            # a region that is passed over does not have both that address and a circuit
            "iter_post": ["not (region.circuit_addr == circuit_addr and not is_none(region.circuit))"]}},
        ensures=[
            "iff(is_none(result), L0_left_early == 0)",
            "implies(not is_none(result), val(result).circuit_addr == circuit_addr and not is_none(val(result).circuit))"],
        frame=[]))
    alias_loops_by_order(reg.fns["hippolyzer.lib.client.state:BaseClientSession.region_by_circuit_addr"])
    reg.add_fn(FnContract(
        key="hippolyzer.lib.proxy.sessions:Session.open_circuit", relpath=PREL, qualname="Session.open_circuit", cls="SessionLite", prop=prop,
        params={"near_addr": "Opaque:Addr", "circuit_addr": "Opaque:Addr", "transport": o}, param_names=["near_addr", "circuit_addr", "transport"],
        returns="Bool",
        externals={
            "functools.partial": {"returns": o, "doc": "logging hook bound to (session, region)"},
            "ProxiedCircuit": {"returns": "Obj:CircLite", "record_as": "new_circuit", "record_result": True, "doc": "fresh circuit (fresh packet-ID translation state)"},
            "AddonManager.handle_circuit_created": {"record_as": "announced", "may_raise": "AnyException", "doc": "addon hook"},
        },
        may_raise={"AnyException": ""},
        loops={"for region in self.regions": {
            "elem_sort": "Obj:RegionLite", "inv": ["True"],
            "ghost_pre": {"_c0": "region.circuit", "_alive0": "not is_none(region.circuit) and val(region.circuit).is_alive"},
            # a region that is passed over has another address: nothing is created for it
            "iter_post": ["region.circuit_addr != circuit_addr", "ncalls('new_circuit') == 0"]}},
        ensures=[
            # False exactly when no region has that address
            "iff(result, L0_left_early == 1)",
            "ncalls('new_circuit') <= 1 and ncalls('announced') == ncalls('new_circuit')",
            # for the region found: a live circuit is kept as it is; otherwise exactly one new circuit to that address becomes the region's
            "implies(result, region.circuit_addr == circuit_addr)",
            "implies(result and _alive0, ncalls('new_circuit') == 0 and region.circuit == _c0 and val(region.circuit).is_alive)",
            "implies(result and not _alive0, ncalls('new_circuit') == 1 and "
            "called_with('new_circuit', lambda arg0, arg1, arg2, result: arg0 == near_addr and arg1 == circuit_addr and arg2 == transport and region.circuit == result))",
        ],
        frame=None))
    alias_loops_by_order(reg.fns["hippolyzer.lib.proxy.sessions:Session.open_circuit"])
